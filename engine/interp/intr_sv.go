package interp

// The harness vocabulary (package zz_sv): nondeterministic inputs,
// assumptions, goals, covers, observations.

import (
	"fmt"
	"go/types"

	"golang.org/x/tools/go/ssa"

	"gosym/sym"
)

func svIntrinsic(fr *frame, fn *ssa.Function, args []value) (value, bool) {
	x := fr.i.x
	intVar := func(k types.BasicKind, kind string) value {
		name := args[0].(string)
		t := x.Var(name, sym.SInt, kind)
		bits, signed := kindBits(k)
		if _, seen := x.assumptions["range:"+name]; !seen {
			x.assumptions["range:"+name] = false
			x.addPC(sym.InRange(t, bits, signed))
		}
		return symInt{t, k}
	}
	switch fn.Name() {
	case "Symbolic":
		return true, true
	case "Tier":
		return x.tier, true
	case "Int64":
		return intVar(types.Int64, "int64"), true
	case "Int":
		return intVar(types.Int, "int"), true
	case "Int32":
		return intVar(types.Int32, "int32"), true
	case "Uint64":
		return intVar(types.Uint64, "uint64"), true
	case "Byte":
		return intVar(types.Uint8, "byte"), true
	case "Bool":
		return symBool{x.Var(args[0].(string), sym.SBool, "bool")}, true
	case "BigInt":
		return newBig(x.Var(args[0].(string), sym.SInt, "big")), true
	case "Float64":
		// a float64 that holds an integer value of magnitude < 2^53 is not
		// provided; floats enter only through conversions of integers.
		panic(abortPath{"sv.Float64 not supported"})
	case "Choice":
		return x.choice(args[0].(string), int(asInt64(args[1]))), true
	case "Assume":
		x.assume(boolTerm(args[0]))
		return nil, true
	case "Assert":
		x.assert(boolTerm(args[0]), args[1].(string))
		return nil, true
	case "Cover":
		x.cover(boolTerm(args[0]), args[1].(string))
		return nil, true
	case "Observe":
		itf := args[1].(iface)
		var v value = itf.v
		if itf.t != nil {
			if pt, ok := itf.t.Underlying().(*types.Pointer); ok && isBigIntStruct(pt.Elem()) {
				if p := itf.v.(*value); p != nil {
					v = bigv{bigGet(p)}
				} else {
					v = "<nil>"
				}
			} else if isBigIntStruct(itf.t) {
				v = bigv{bigOf(itf.v.(structure))}
			} else if s, ok := itf.v.(string); ok {
				v = s
			} else if sl, ok := itf.v.([]value); ok {
				if st, ok := itf.t.Underlying().(*types.Slice); ok {
					if b, ok := st.Elem().Underlying().(*types.Basic); ok && b.Kind() == types.Uint8 {
						allc := true
						for _, e := range sl {
							if _, ok := e.(byte); !ok {
								allc = false
							}
						}
						if allc {
							v = fmt.Sprintf("%x", concreteBytes(sl, "observe"))
						} else {
							for k, e := range sl {
								x.observe(fmt.Sprintf("%s[%d]", args[0].(string), k), e)
							}
							return nil, true
						}
					}
				}
			}
		} else {
			v = "<nil>"
		}
		x.observe(args[0].(string), v)
		return nil, true
	case "CrashIsViolation":
		x.crashIsViol = args[0].(string)
		return nil, true
	case "MapOrders":
		x.mapOrder = args[0].(bool)
		if x.mapOrderMax == 0 {
			x.mapOrderMax = 4
		}
		return nil, true
	case "Reencode":
		// another byte encoding of the same JSON document (natively: insignificant whitespace appended)
		in, _ := args[0].([]value)
		b := blobOf(in)
		if b == nil {
			panic(abortPath{"sv.Reencode of non-blob bytes"})
		}
		nb := fr.i.newBlob(b.t, b.v)
		blobOf(nb).enc = b.enc + 1
		return nb, true
	case "NominalSizes":
		x.blobLen = int(asInt64(args[0]))
		x.assumptions["note: serialised records have a nominal constant size (store gas is then a nominal number; only differences between the compared runs matter)"] = true
		return nil, true
	case "Unreachable":
		panic(endPath{"harness: " + args[0].(string)})
	case "Note":
		x.assumptions["note: "+args[0].(string)] = true
		return nil, true
	case "IsConcrete":
		itf := args[0].(iface)
		return !isSymbolic(itf.v), true
	}
	return nil, false
}

// ---- map iteration ----

type omapIter struct {
	m    *omap
	keys []value
	pos  int
}

func (it *omapIter) next() tuple {
	for it.pos < len(it.keys) {
		k := it.keys[it.pos]
		it.pos++
		if v, ok := it.m.lookup(k); ok {
			return tuple{true, k, v}
		}
	}
	return tuple{false, nil, nil}
}

// newMapIter fixes the iteration order of a Go map range. By default the
// insertion order is used; when the harness enables MapOrders, every rotation
// of the insertion order is an environment choice (for maps of 2..mapOrderMax
// entries), which is what Go's runtime does for a single-bucket map.
func (i *interpreter) newMapIter(m *omap) iter {
	keys := m.liveKeys()
	if i.x.mapOrder && len(keys) >= 2 && len(keys) <= i.x.mapOrderMax && i.x.inInit == 0 {
		r := i.x.choice("", len(keys))
		if r != 0 {
			i.x.mapOrderUsed = true
		}
		keys = append(append([]value(nil), keys[r:]...), keys[:r]...)
		i.x.stub("map iteration order (environment choice: rotations of insertion order)")
	}
	return &omapIter{m: m, keys: keys}
}
