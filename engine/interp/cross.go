package interp

import (
	"sync"
	"time"

	"gosym/solver"
	"gosym/sym"
)

// CrossState samples goal queries that the primary solver answered unsat and
// decides them again, from scratch, with two other solvers (z3 4.8.12 and
// cvc5). A "sat" answer from either is a disagreement between solvers on the
// same SMT-LIB text: the check is then inconclusive. Sampling: the first
// PerHarness distinct goal labels of every harness.
type CrossState struct {
	mu         sync.Mutex
	PerHarness int
	seen       map[string]bool
	perH       map[string]int
	Agree      map[string]int // solver kind -> goals confirmed unsat
	Unknown    map[string]int
	Disagree   []string
	Wall       time.Duration
}

func NewCrossState(perHarness int) *CrossState {
	return &CrossState{PerHarness: perHarness, seen: map[string]bool{}, perH: map[string]int{}, Agree: map[string]int{}, Unknown: map[string]int{}}
}

var crossKinds = []string{"z3", "cvc5"}

func (x *Exec) crossCheck(label string, negGoal *sym.Term) {
	cs := x.cross
	if cs == nil || cs.PerHarness <= 0 {
		return
	}
	key := x.Harness + "/" + label
	cs.mu.Lock()
	if cs.seen[key] || cs.perH[x.Harness] >= cs.PerHarness {
		cs.mu.Unlock()
		return
	}
	cs.seen[key] = true
	cs.perH[x.Harness]++
	cs.mu.Unlock()
	t0 := time.Now()
	for _, kind := range crossKinds {
		res := solver.Unknown
		func() {
			s, err := solver.New(kind, 10000)
			if err != nil {
				return
			}
			defer s.Close()
			for _, p := range x.pc {
				s.Assert(p)
			}
			r, _, err := s.Check([]*sym.Term{negGoal}, nil)
			if err == nil {
				res = r
			}
		}()
		cs.mu.Lock()
		switch res {
		case solver.Unsat:
			cs.Agree[kind]++
		case solver.Sat:
			cs.Disagree = append(cs.Disagree, kind+" answers sat where "+x.S.Kind+" answered unsat: "+key)
		default:
			cs.Unknown[kind]++
		}
		cs.mu.Unlock()
	}
	cs.mu.Lock()
	cs.Wall += time.Since(t0)
	cs.mu.Unlock()
}
