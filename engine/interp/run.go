package interp

import (
	"fmt"
	"go/token"
	"go/types"
	"os"
	"runtime"
	"runtime/debug"
	"sort"
	"strings"
	"sync"
	"time"

	"golang.org/x/tools/go/ssa"

	"gosym/solver"
)

type Config struct {
	Solver      string
	TimeoutMs   int
	Workers     int
	MaxSteps    int64
	MaxPaths    int
	MaxEnum     int
	RepoPrefix  string
	Witnesses   int // number of path witnesses to produce for cross-validation
	Trace       bool
	Deadline    time.Time
	SolverLog   string
	FloatStrict bool
	Tier        int
	Cross       *CrossState
}

type HarnessResult struct {
	Harness       string
	Paths         []*PathResult
	Completed     int
	Crashed       int
	Aborted       int
	Ended         int
	Violations    []*Violation
	Covers        map[string]bool
	Asserts       map[string]int
	Funcs         map[string]bool
	Stubs         map[string]bool
	Assumptions   map[string]bool
	Stats         solver.Stats
	Steps         int64
	Decisions     int64
	Witnesses     []*WitnessRec
	AbortWhy      map[string]int
	CrashWhy      map[string]int
	Truncated     bool
	Wall          time.Duration
	Unknowns      int
	BranchUnknown int
}

type WitnessRec struct {
	Decisions []string
	W         *Witness
}

// RunPath executes harness fn along one decision prefix.
func RunPath(prog *ssa.Program, fn *ssa.Function, prefix []string, s *solver.Solver, cfg *Config, wantWitness bool) (res *PathResult) {
	s.Reset()
	before := s.Stats
	x := &Exec{
		S: s, Harness: fn.Name(), prefix: prefix,
		vars: map[string]*VarInfo{}, choices: map[string]int{},
		stubs: map[string]bool{}, assumptions: map[string]bool{},
		maxEnum: cfg.MaxEnum, repoPrefix: cfg.RepoPrefix, floatStrict: cfg.FloatStrict,
		wantWitness: wantWitness, tier: cfg.Tier, cross: cfg.Cross,
	}
	res = &PathResult{Covers: map[string]bool{}, Asserts: map[string]int{}}
	x.res = res
	i := &interpreter{
		prog:     prog,
		globals:  make(map[*ssa.Global]*value),
		inited:   make(map[*ssa.Package]bool),
		sizes:    &types.StdSizes{WordSize: 8, MaxAlign: 8},
		x:        x,
		maxSteps: cfg.MaxSteps,
		trace:    cfg.Trace,
		side:     map[*value]interface{}{},
		funcsRun: map[*ssa.Function]struct{}{},
		onceDone: map[*value]bool{},
	}
	if rt := prog.ImportedPackage("runtime"); rt != nil {
		i.runtimeErrorString = rt.Type("errorString").Object().Type()
	}
	finish := func(status, detail, site string) {
		if res.Status == "" {
			res.Status, res.Detail, res.Site = status, detail, site
		}
	}
	func() {
		defer func() {
			r := recover()
			if r == nil {
				return
			}
			switch p := r.(type) {
			case abortPath:
				why := p.reason
				if x.abortSite != "" && !strings.Contains(why, " <- ") {
					why += " @ " + siteKey(x.abortSite)
				}
				finish("aborted", why, "")
			case endPath:
				finish("ended", p.reason, "")
			case exitPanic:
				if x.haltMsg != "" {
					finish("exit", x.haltMsg, x.panicSite)
				} else {
					finish("exit", fmt.Sprintf("os.Exit(%d)", int(p)), x.panicSite)
				}
			case targetPanic:
				finish("panic", panicText(i, p), x.panicSite)
			case runtime.Error:
				finish("panic", "runtime error: "+strings.TrimPrefix(p.Error(), "runtime error: "), x.panicSite)
			default:
				finish("aborted", fmt.Sprintf("engine failure: %v\n%s", r, trimStack(debug.Stack())), "")
			}
		}()
		x.panicSite = ""
		call(i, nil, token.NoPos, fn, nil)
		finish("completed", "", "")
	}()
	if (res.Status == "panic" || res.Status == "exit") && x.crashIsViol != "" {
		func() {
			defer func() { recover() }()
			x.violation(res.Status, x.crashIsViol, siteKey(res.Site), res.Detail)
		}()
	}
	if wantWitness && (res.Status == "completed" || res.Status == "panic" || res.Status == "exit") {
		func() {
			defer func() { recover() }()
			res.Witness = x.witness(res.Status, res.Detail)
		}()
	}
	res.Decisions = append([]string(nil), x.trace...)
	res.Steps = i.steps
	res.Recovered = x.recovered
	res.MaxVars = len(x.varOrder)
	for f := range i.funcsRun {
		res.Funcs = append(res.Funcs, f.String())
	}
	res.Stubs = sortedKeys(x.stubs)
	res.Assumptions = sortedKeys(x.assumptions)
	after := s.Stats
	res.Queries = solver.Stats{Sat: after.Sat - before.Sat, Unsat: after.Unsat - before.Unsat, Unknown: after.Unknown - before.Unknown, Wall: after.Wall - before.Wall}
	return res
}

func trimStack(b []byte) string {
	lines := strings.Split(string(b), "\n")
	var out []string
	for _, l := range lines {
		if strings.Contains(l, "gosym/interp.") || strings.Contains(l, "/interp/") {
			out = append(out, strings.TrimSpace(l))
		}
		if len(out) > 24 {
			break
		}
	}
	return strings.Join(out, "\n")
}

// siteKey reduces a call chain to the innermost repo-level functions
// (stable under line changes).
func siteKey(site string) string {
	parts := strings.Split(site, " < ")
	if len(parts) > 3 {
		parts = parts[:3]
	}
	return strings.Join(parts, "<")
}

func panicText(i *interpreter, p targetPanic) string {
	switch v := p.v.(type) {
	case string:
		return v
	case iface:
		if v.t == nil {
			return "panic(nil)"
		}
		// error / Stringer values: try Error()
		if s, ok := v.v.(string); ok {
			return s
		}
		if msg, ok := i.tryErrorString(v); ok {
			return msg
		}
		return "panic(" + v.t.String() + ")"
	}
	return toString(p.v)
}

// Explore runs a harness exhaustively over all decision prefixes.
func Explore(prog *ssa.Program, fn *ssa.Function, cfg *Config) *HarnessResult {
	t0 := time.Now()
	hr := &HarnessResult{Harness: fn.Name(), Covers: map[string]bool{}, Asserts: map[string]int{}, Funcs: map[string]bool{}, Stubs: map[string]bool{}, Assumptions: map[string]bool{}, AbortWhy: map[string]int{}, CrashWhy: map[string]int{}}
	var mu sync.Mutex
	cond := sync.NewCond(&mu)
	work := [][]string{nil}
	active := 0
	started := 0
	seenViol := map[string]bool{}

	worker := func(id int) {
		s, err := solver.New(cfg.Solver, cfg.TimeoutMs)
		if err != nil {
			fmt.Fprintln(os.Stderr, "solver:", err)
			return
		}
		if cfg.SolverLog != "" && id == 0 {
			f, _ := os.Create(cfg.SolverLog)
			s.LogW = f
		}
		defer s.Close()
		for {
			mu.Lock()
			for len(work) == 0 && active > 0 {
				cond.Wait()
			}
			if len(work) == 0 && active == 0 {
				mu.Unlock()
				cond.Broadcast()
				return
			}
			if started >= cfg.MaxPaths || (!cfg.Deadline.IsZero() && time.Now().After(cfg.Deadline)) {
				hr.Truncated = true
				work = nil
				mu.Unlock()
				cond.Broadcast()
				if active == 0 {
					return
				}
				mu.Lock()
				for active > 0 {
					cond.Wait()
				}
				mu.Unlock()
				return
			}
			// depth-first: take the most recently added prefix
			p := work[len(work)-1]
			work = work[:len(work)-1]
			active++
			started++
			wantW := len(hr.Witnesses) < cfg.Witnesses
			mu.Unlock()

			res := RunPath(prog, fn, p, s, cfg, wantW)

			mu.Lock()
			active--
			hr.Paths = append(hr.Paths, res)
			if !hr.Truncated {
				work = append(work, res.NewPrefixes...)
			}
			switch res.Status {
			case "completed":
				hr.Completed++
			case "panic", "exit":
				hr.Crashed++
				hr.CrashWhy[res.Status+": "+firstLine(res.Detail)+" @ "+siteKey(res.Site)]++
			case "aborted":
				hr.Aborted++
				hr.AbortWhy[firstLine(res.Detail)]++
			case "ended":
				hr.Ended++
			}
			for _, v := range res.Violations {
				sig := v.Signature()
				if !seenViol[sig] {
					seenViol[sig] = true
					hr.Violations = append(hr.Violations, v)
				}
			}
			for k := range res.Covers {
				hr.Covers[k] = true
			}
			for k, n := range res.Asserts {
				hr.Asserts[k] += n
			}
			for _, f := range res.Funcs {
				hr.Funcs[f] = true
			}
			for _, f := range res.Stubs {
				hr.Stubs[f] = true
			}
			for _, f := range res.Assumptions {
				hr.Assumptions[f] = true
			}
			hr.Stats.Sat += res.Queries.Sat
			hr.Stats.Unsat += res.Queries.Unsat
			hr.Stats.Unknown += res.Queries.Unknown
			hr.Stats.Wall += res.Queries.Wall
			hr.Steps += res.Steps
			hr.Decisions += int64(len(res.Decisions))
			hr.Unknowns += res.Unknowns
			hr.BranchUnknown += res.BranchUnknown
			if res.Witness != nil && len(hr.Witnesses) < cfg.Witnesses {
				hr.Witnesses = append(hr.Witnesses, &WitnessRec{Decisions: res.Decisions, W: res.Witness})
			}
			res.Witness = nil
			res.Funcs, res.Stubs = nil, nil
			mu.Unlock()
			cond.Broadcast()
		}
	}
	var wg sync.WaitGroup
	for w := 0; w < cfg.Workers; w++ {
		wg.Add(1)
		go func(id int) { defer wg.Done(); worker(id) }(w)
	}
	wg.Wait()
	sort.Slice(hr.Violations, func(a, b int) bool { return hr.Violations[a].Signature() < hr.Violations[b].Signature() })
	hr.Wall = time.Since(t0)
	return hr
}

func firstLine(s string) string {
	if i := strings.IndexByte(s, '\n'); i >= 0 {
		return s[:i]
	}
	return s
}
