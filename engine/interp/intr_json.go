package interp

// encoding/json as a blob model (DESIGN §2.3): Marshal produces an opaque
// blob holding a deep copy of what JSON would carry (exported, non-"-" fields;
// types with custom Marshal{JSON,Text} are scalars with identity round trip);
// Unmarshal copies it back by field name. A blob is a []byte of length 1 whose
// element is the *blob; len() of it is an uninterpreted Int >= 2.

import (
	"encoding/json"
	"fmt"
	"go/types"
	"reflect"
	"strings"

	"gosym/sym"
)

type blob struct {
	id   int
	t    types.Type // static/dynamic type of the marshalled value
	v    value      // deep copy
	lenT *sym.Term
	enc  int // 0 = the canonical encoding; n > 0 = another byte encoding of the same content (sv.Reencode)
}

func blobOf(s []value) *blob {
	if len(s) == 1 {
		if b, ok := s[0].(*blob); ok {
			return b
		}
	}
	return nil
}

func (b *blob) lenValue() value {
	if b.lenT.IsConst() {
		return int(b.lenT.Val.Int64())
	}
	return symInt{b.lenT, types.Int}
}

func (i *interpreter) newBlob(t types.Type, v value) []value {
	x := i.x
	x.uniq++
	b := &blob{id: x.uniq, t: t, v: v}
	if x.blobLen > 0 {
		// relational harnesses: both runs see the same (nominal) sizes
		b.lenT = sym.Int64(int64(x.blobLen))
		return []value{b}
	}
	b.lenT = x.Var(fmt.Sprintf("bloblen#%d", b.id), sym.SInt, "bloblen")
	x.addPC(sym.And(sym.Le(sym.Int64(2), b.lenT), sym.Le(b.lenT, sym.Int64(1<<20))))
	return []value{b}
}

func jsonFieldName(f *types.Var, tag string) (name string, skip bool) {
	if !f.Exported() {
		return "", true
	}
	st := reflect.StructTag(tag)
	if js, ok := st.Lookup("json"); ok {
		parts := strings.Split(js, ",")
		if parts[0] == "-" && len(parts) == 1 {
			return "", true
		}
		if parts[0] != "" {
			return parts[0], false
		}
	}
	return f.Name(), false
}

func (i *interpreter) isJSONScalar(t types.Type) bool {
	if _, ok := t.(*types.Named); !ok {
		if _, ok := t.(*types.Alias); !ok {
			return false
		}
	}
	for _, tt := range []types.Type{t, types.NewPointer(t)} {
		ms := i.prog.MethodSets.MethodSet(tt)
		for k := 0; k < ms.Len(); k++ {
			n := ms.At(k).Obj().Name()
			if n == "MarshalJSON" || n == "MarshalText" || n == "UnmarshalJSON" || n == "UnmarshalText" {
				return true
			}
		}
	}
	return false
}

// deepCopyAll copies a value completely (all fields), following pointers.
func (i *interpreter) deepCopyAll(t types.Type, v value) value {
	if isBigIntStruct(t) {
		s := v.(structure)
		return structure{s[0], s[1]}
	}
	switch u := t.Underlying().(type) {
	case *types.Struct:
		s := v.(structure)
		out := make(structure, len(s))
		for k := range s {
			out[k] = i.deepCopyAll(u.Field(k).Type(), s[k])
		}
		return out
	case *types.Array:
		a := v.(array)
		out := make(array, len(a))
		for k := range a {
			out[k] = i.deepCopyAll(u.Elem(), a[k])
		}
		return out
	case *types.Slice:
		s, _ := v.([]value)
		if s == nil {
			return []value(nil)
		}
		if b := blobOf(s); b != nil {
			return s
		}
		out := make([]value, len(s))
		for k := range s {
			out[k] = i.deepCopyAll(u.Elem(), s[k])
		}
		return out
	case *types.Pointer:
		p, _ := v.(*value)
		if p == nil {
			return (*value)(nil)
		}
		c := i.deepCopyAll(u.Elem(), load(u.Elem(), p))
		return &c
	case *types.Map:
		m, _ := v.(*omap)
		if m == nil {
			return (*omap)(nil)
		}
		out := makeMap(u.Key(), 0).(*omap)
		for _, k := range m.liveKeys() {
			e, _ := m.lookup(k)
			out.insert(k, i.deepCopyAll(u.Elem(), e))
		}
		return out
	case *types.Interface:
		itf := v.(iface)
		if itf.t == nil {
			return itf
		}
		return iface{itf.t, i.deepCopyAll(itf.t, itf.v)}
	}
	return v
}

// jsonCopy copies what JSON carries of v (type t).
func (i *interpreter) jsonCopy(t types.Type, v value) value {
	if i.isJSONScalar(t) {
		return i.deepCopyAll(t, v)
	}
	switch u := t.Underlying().(type) {
	case *types.Struct:
		s := v.(structure)
		out := zero(t).(structure)
		for k := range s {
			f := u.Field(k)
			if f.Embedded() && !f.Exported() {
				// unexported embedded struct: its exported fields are promoted
				if _, ok := f.Type().Underlying().(*types.Struct); ok {
					out[k] = i.jsonCopy(f.Type(), s[k])
				}
				continue
			}
			if _, skip := jsonFieldName(f, u.Tag(k)); skip {
				continue
			}
			out[k] = i.jsonCopy(f.Type(), s[k])
		}
		return out
	case *types.Array:
		a := v.(array)
		out := make(array, len(a))
		for k := range a {
			out[k] = i.jsonCopy(u.Elem(), a[k])
		}
		return out
	case *types.Slice:
		s, _ := v.([]value)
		if s == nil {
			return []value(nil)
		}
		if b := blobOf(s); b != nil {
			return s // nested raw message ([]byte field holding a blob)
		}
		out := make([]value, len(s))
		for k := range s {
			out[k] = i.jsonCopy(u.Elem(), s[k])
		}
		return out
	case *types.Pointer:
		p, _ := v.(*value)
		if p == nil {
			return (*value)(nil)
		}
		c := i.jsonCopy(u.Elem(), load(u.Elem(), p))
		return &c
	case *types.Map:
		m, _ := v.(*omap)
		if m == nil {
			return (*omap)(nil)
		}
		out := makeMap(u.Key(), 0).(*omap)
		// JSON objects have sorted keys; decoding inserts in that order
		keys := m.liveKeys()
		sortValues(keys)
		for _, k := range keys {
			e, _ := m.lookup(k)
			out.insert(k, i.jsonCopy(u.Elem(), e))
		}
		return out
	case *types.Interface:
		itf := v.(iface)
		if itf.t == nil {
			return itf
		}
		return iface{itf.t, i.jsonCopy(itf.t, itf.v)}
	case *types.Signature, *types.Chan:
		panic(abortPath{"json: unsupported type " + t.String()})
	}
	return v
}

func sortValues(keys []value) {
	ks := make([]string, len(keys))
	for k := range keys {
		if s, ok := keys[k].(string); ok {
			ks[k] = s
		} else {
			ks[k] = keyString(keys[k])
		}
	}
	for a := 1; a < len(keys); a++ {
		for b := a; b > 0 && ks[b] < ks[b-1]; b-- {
			ks[b], ks[b-1] = ks[b-1], ks[b]
			keys[b], keys[b-1] = keys[b-1], keys[b]
		}
	}
}

// jsonAssign stores the JSON content src (of type st) into *dst (type dt),
// leaving fields JSON does not carry untouched.
func (i *interpreter) jsonAssign(dt types.Type, dst *value, st types.Type, src value) {
	// pointers on either side are transparent
	if sp, ok := st.Underlying().(*types.Pointer); ok && !i.isJSONScalar(st) {
		p, _ := src.(*value)
		if p == nil {
			// null: sets pointers/maps/slices/interfaces to nil, otherwise no effect
			switch dt.Underlying().(type) {
			case *types.Pointer, *types.Map, *types.Slice, *types.Interface:
				*dst = zero(dt)
			}
			return
		}
		i.jsonAssign(dt, dst, sp.Elem(), load(sp.Elem(), p))
		return
	}
	if dp, ok := dt.Underlying().(*types.Pointer); ok && !i.isJSONScalar(dt) {
		p, _ := (*dst).(*value)
		if p == nil {
			c := zero(dp.Elem())
			p = &c
			*dst = p
		}
		i.jsonAssign(dp.Elem(), p, st, src)
		return
	}
	if di, ok := dt.Underlying().(*types.Interface); ok {
		cur := (*dst).(iface)
		if cur.t != nil {
			if cp, ok := cur.t.Underlying().(*types.Pointer); ok {
				if p := cur.v.(*value); p != nil {
					i.jsonAssign(cp.Elem(), p, st, src)
					return
				}
			}
		}
		_ = di
		if itf, ok := src.(iface); ok && itf.t == nil {
			*dst = iface{}
			return
		}
		panic(abortPath{"json: decoding into an interface value (" + dt.String() + ")"})
	}
	if si, ok := st.Underlying().(*types.Interface); ok {
		_ = si
		itf := src.(iface)
		if itf.t == nil {
			switch dt.Underlying().(type) {
			case *types.Pointer, *types.Map, *types.Slice, *types.Interface:
				*dst = zero(dt)
			}
			return
		}
		i.jsonAssign(dt, dst, itf.t, itf.v)
		return
	}
	if types.Identical(dt, st) && i.isJSONScalar(dt) {
		store(dt, dst, i.deepCopyAll(st, src))
		return
	}
	if i.isJSONScalar(dt) || i.isJSONScalar(st) {
		if types.Identical(dt.Underlying(), st.Underlying()) {
			// e.g. Amount <-> big.Int: same text form
			store(dt, dst, i.deepCopyAll(st, src))
			return
		}
		panic(abortPath{fmt.Sprintf("json: scalar type mismatch %s <- %s", dt, st)})
	}
	switch du := dt.Underlying().(type) {
	case *types.Struct:
		su, ok := st.Underlying().(*types.Struct)
		if !ok {
			panic(abortPath{fmt.Sprintf("json: cannot decode %s into %s", st, dt)})
		}
		ds := (*dst).(structure)
		ss := src.(structure)
		srcByName := map[string]int{}
		i.jsonFields(su, nil, func(path []int, name string) {
			if len(path) == 1 {
				srcByName[strings.ToLower(name)] = path[0]
			}
		})
		for k := 0; k < du.NumFields(); k++ {
			f := du.Field(k)
			if f.Embedded() {
				if _, isStruct := f.Type().Underlying().(*types.Struct); isStruct {
					// embedded struct: fields are promoted; match by the same embedded field if present
					for j := 0; j < su.NumFields(); j++ {
						if su.Field(j).Embedded() && su.Field(j).Name() == f.Name() {
							i.jsonAssign(f.Type(), &ds[k], su.Field(j).Type(), ss[j])
						}
					}
					continue
				}
			}
			name, skip := jsonFieldName(f, du.Tag(k))
			if skip {
				continue
			}
			if j, ok := srcByName[strings.ToLower(name)]; ok {
				i.jsonAssign(f.Type(), &ds[k], su.Field(j).Type(), ss[j])
			}
		}
		return
	case *types.Slice:
		su, ok := st.Underlying().(*types.Slice)
		if !ok {
			if _, isArr := st.Underlying().(*types.Array); !isArr {
				panic(abortPath{fmt.Sprintf("json: cannot decode %s into %s", st, dt)})
			}
		}
		ss, _ := src.([]value)
		if a, isArr := src.(array); isArr {
			ss = []value(a)
		}
		if ss == nil {
			*dst = []value(nil)
			return
		}
		if b := blobOf(ss); b != nil {
			*dst = ss
			return
		}
		var se types.Type
		if su != nil {
			se = su.Elem()
		} else {
			se = st.Underlying().(*types.Array).Elem()
		}
		out := make([]value, len(ss))
		for k := range ss {
			out[k] = zero(du.Elem())
			i.jsonAssign(du.Elem(), &out[k], se, ss[k])
		}
		*dst = out
		return
	case *types.Array:
		da := (*dst).(array)
		var ss []value
		var se types.Type
		switch su := st.Underlying().(type) {
		case *types.Array:
			ss = []value(src.(array))
			se = su.Elem()
		case *types.Slice:
			ss, _ = src.([]value)
			se = su.Elem()
		default:
			panic(abortPath{fmt.Sprintf("json: cannot decode %s into %s", st, dt)})
		}
		for k := range da {
			if k < len(ss) {
				i.jsonAssign(du.Elem(), &da[k], se, ss[k])
			} else {
				da[k] = zero(du.Elem())
			}
		}
		return
	case *types.Map:
		su, ok := st.Underlying().(*types.Map)
		if !ok {
			panic(abortPath{fmt.Sprintf("json: cannot decode %s into %s", st, dt)})
		}
		sm, _ := src.(*omap)
		if sm == nil {
			*dst = (*omap)(nil)
			return
		}
		dm, _ := (*dst).(*omap)
		if dm == nil {
			dm = makeMap(du.Key(), 0).(*omap)
			*dst = dm
		}
		for _, k := range sm.liveKeys() {
			e, _ := sm.lookup(k)
			c := zero(du.Elem())
			i.jsonAssign(du.Elem(), &c, su.Elem(), e)
			dm.insert(k, c)
		}
		return
	case *types.Basic:
		sb, ok := st.Underlying().(*types.Basic)
		if !ok {
			panic(abortPath{fmt.Sprintf("json: cannot decode %s into %s", st, dt)})
		}
		if du.Kind() == sb.Kind() {
			*dst = src
			return
		}
		if isIntKind(du.Kind()) && isIntKind(sb.Kind()) {
			t, _, _ := intTerm(src)
			bits, signed := kindBits(du.Kind())
			// json rejects out-of-range numbers
			if !i.x.branch(sym.InRange(t, bits, signed)) {
				panic(abortPath{"json: number out of range for " + dt.String()})
			}
			*dst = mkInt(t, du.Kind())
			return
		}
		panic(abortPath{fmt.Sprintf("json: cannot decode %s into %s", st, dt)})
	}
	panic(abortPath{fmt.Sprintf("json: cannot decode %s into %s", st, dt)})
}

func (i *interpreter) jsonFields(st *types.Struct, prefix []int, f func(path []int, name string)) {
	for k := 0; k < st.NumFields(); k++ {
		fl := st.Field(k)
		name, skip := jsonFieldName(fl, st.Tag(k))
		if skip {
			continue
		}
		f(append(append([]int(nil), prefix...), k), name)
	}
}

func init() {
	externals["encoding/json.Marshal"] = extJSONMarshal
	externals["encoding/json.MarshalIndent"] = extJSONMarshal
	externals["encoding/json.Unmarshal"] = extJSONUnmarshal
}

func extJSONMarshal(fr *frame, args []value) value {
	fr.i.x.stub("encoding/json.Marshal (blob model)")
	itf := args[0].(iface)
	if itf.t == nil {
		return tuple{bytesValue([]byte("null")), iface{}}
	}
	// a top-level concrete string / number marshals to real bytes
	if s, ok := itf.v.(string); ok && !fr.i.isJSONScalar(itf.t) && !hasSymMarker(s) {
		b, _ := json.Marshal(s)
		return tuple{bytesValue(b), iface{}}
	}
	cp := fr.i.jsonCopy(itf.t, itf.v)
	return tuple{fr.i.newBlob(itf.t, cp), iface{}}
}

func extJSONUnmarshal(fr *frame, args []value) value {
	fr.i.x.stub("encoding/json.Unmarshal (blob model)")
	data, _ := args[0].([]value)
	dst := args[1].(iface)
	if dst.t == nil {
		return fr.i.makeError("json: Unmarshal(nil)")
	}
	dp, ok := dst.t.Underlying().(*types.Pointer)
	if !ok {
		return fr.i.makeError("json: Unmarshal(non-pointer " + dst.t.String() + ")")
	}
	p, _ := dst.v.(*value)
	if p == nil {
		return fr.i.makeError("json: Unmarshal(nil " + dst.t.String() + ")")
	}
	if b := blobOf(data); b != nil {
		fr.i.jsonAssign(dp.Elem(), p, b.t, b.v)
		return iface{}
	}
	// not a blob: concrete bytes, decoded by the real encoding/json
	raw := concreteBytes(data, "json.Unmarshal input")
	var generic interface{}
	if err := json.Unmarshal(raw, &generic); err != nil {
		return fr.i.makeError(err.Error())
	}
	if err := fr.i.jsonFromGeneric(dp.Elem(), p, generic); err != "" {
		return fr.i.makeError(err)
	}
	return iface{}
}

// jsonFromGeneric decodes real JSON (already parsed natively) into simple
// destination types.
func (i *interpreter) jsonFromGeneric(dt types.Type, dst *value, g interface{}) string {
	if i.isJSONScalar(dt) {
		panic(abortPath{"json: decoding concrete bytes into scalar type " + dt.String()})
	}
	switch du := dt.Underlying().(type) {
	case *types.Basic:
		switch v := g.(type) {
		case string:
			if du.Kind() == types.String {
				*dst = v
				return ""
			}
		case bool:
			if du.Kind() == types.Bool {
				*dst = v
				return ""
			}
		case float64:
			if isIntKind(du.Kind()) && v == float64(int64(v)) {
				*dst = concreteInt(new(bigInt).SetInt64(int64(v)), du.Kind())
				return ""
			}
			if du.Kind() == types.Float64 {
				*dst = v
				return ""
			}
		case nil:
			return ""
		}
		return fmt.Sprintf("json: cannot unmarshal %T into Go value of type %s", g, dt)
	case *types.Pointer:
		if g == nil {
			*dst = (*value)(nil)
			return ""
		}
		p, _ := (*dst).(*value)
		if p == nil {
			c := zero(du.Elem())
			p = &c
			*dst = p
		}
		return i.jsonFromGeneric(du.Elem(), p, g)
	case *types.Struct:
		m, ok := g.(map[string]interface{})
		if !ok {
			if g == nil {
				return ""
			}
			return fmt.Sprintf("json: cannot unmarshal %T into Go value of type %s", g, dt)
		}
		ds := (*dst).(structure)
		for k := 0; k < du.NumFields(); k++ {
			name, skip := jsonFieldName(du.Field(k), du.Tag(k))
			if skip {
				continue
			}
			for mk, mv := range m {
				if strings.EqualFold(mk, name) {
					if e := i.jsonFromGeneric(du.Field(k).Type(), &ds[k], mv); e != "" {
						return e
					}
				}
			}
		}
		return ""
	case *types.Slice:
		if g == nil {
			*dst = []value(nil)
			return ""
		}
		arr, ok := g.([]interface{})
		if !ok {
			return fmt.Sprintf("json: cannot unmarshal %T into Go value of type %s", g, dt)
		}
		out := make([]value, len(arr))
		for k := range arr {
			out[k] = zero(du.Elem())
			if e := i.jsonFromGeneric(du.Elem(), &out[k], arr[k]); e != "" {
				return e
			}
		}
		*dst = out
		return ""
	}
	panic(abortPath{"json: decoding concrete bytes into " + dt.String()})
}

// ---- rlp.EncodeToBytes / DecodeBytes (blob model, same-type round trips only) ----

const rlpEnc = 1000 // blob.enc tag of RLP blobs

func init() {
	const rlp = "github.com/ethereum/go-ethereum/rlp"
	externals[rlp+".EncodeToBytes"] = func(fr *frame, args []value) value {
		fr.i.x.stub("rlp.EncodeToBytes / DecodeBytes (blob model; decoded only into the type that was encoded)")
		itf := args[0].(iface)
		if itf.t == nil {
			panic(abortPath{"rlp.EncodeToBytes(nil)"})
		}
		cp := fr.i.jsonCopy(itf.t, itf.v)
		b := fr.i.newBlob(itf.t, cp)
		b[0].(*blob).enc = rlpEnc
		return tuple{b, iface{}}
	}
	externals[rlp+".DecodeBytes"] = func(fr *frame, args []value) value {
		data, _ := args[0].([]value)
		dst := args[1].(iface)
		b := blobOf(data)
		if b == nil || b.enc != rlpEnc || dst.t == nil || !types.Identical(dst.t, b.t) {
			panic(abortPath{"rlp.DecodeBytes of bytes not produced by rlp.EncodeToBytes of the same type"})
		}
		dp := dst.t.Underlying().(*types.Pointer)
		p, _ := dst.v.(*value)
		if p == nil {
			panic(abortPath{"rlp.DecodeBytes into nil"})
		}
		fr.i.jsonAssign(dp.Elem(), p, b.t, b.v)
		return iface{}
	}

	// serialize.msgpackStrategy (vmihailenco/msgpack underneath): blob model, decoded
	// only into the type that was encoded; empty input is a decoding error (EOF)
	const mp = "(*github.com/Oneledger/protocol/serialize.msgpackStrategy)"
	const mpEnc = 1001
	externals[mp+".Serialize"] = func(fr *frame, args []value) value {
		fr.i.x.stub("serialize.msgpackStrategy Serialize / Deserialize (blob model; decoded only into the type that was encoded)")
		itf := args[1].(iface)
		if itf.t == nil {
			panic(abortPath{"msgpack Serialize(nil)"})
		}
		cp := fr.i.jsonCopy(itf.t, itf.v)
		b := fr.i.newBlob(itf.t, cp)
		b[0].(*blob).enc = mpEnc
		return tuple{b, iface{}}
	}
	externals[mp+".Deserialize"] = func(fr *frame, args []value) value {
		data, _ := args[1].([]value)
		dst := args[2].(iface)
		if len(data) == 0 {
			return fr.i.makeError("EOF")
		}
		b := blobOf(data)
		if b == nil || b.enc != mpEnc || dst.t == nil || !types.Identical(dst.t, b.t) {
			panic(abortPath{"msgpack Deserialize of bytes not produced by msgpack Serialize of the same type"})
		}
		dp := dst.t.Underlying().(*types.Pointer)
		p, _ := dst.v.(*value)
		if p == nil {
			panic(abortPath{"msgpack Deserialize into nil"})
		}
		fr.i.jsonAssign(dp.Elem(), p, b.t, b.v)
		return iface{}
	}
}
