package interp

// Path-level state of the symbolic execution: path condition, decisions,
// solver interaction, assertions, covers, observations.

import (
	"fmt"
	"math/big"
	"regexp"
	"sort"
	"strings"

	"gosym/solver"
	"gosym/sym"
)

// Violation is a goal that the solver showed can fail on a feasible path,
// together with the model that makes it fail.
type Violation struct {
	Kind      string            `json:"kind"` // assert | panic | exit | float-undefined
	Label     string            `json:"label"`
	Site      string            `json:"site"`
	Detail    string            `json:"detail,omitempty"`
	Model     map[string]string `json:"model"`
	Choices   map[string]int    `json:"choices"`
	Observed  map[string]string `json:"observations_before_failure,omitempty"`
	Decisions []string          `json:"decisions"`
	Harness   string            `json:"harness"`
	// MapOrder: the path made an environment choice of a Go map iteration
	// order; natively the order is random per run, so the replay is repeated.
	MapOrder bool `json:"map_order_choice,omitempty"`
}

func (v *Violation) Signature() string {
	return v.Harness + "/" + v.Kind + "/" + v.Label + "/" + v.Site
}

type Observation struct {
	Name string
	Term *sym.Term // nil when Conc is set
	Conc string
}

type VarInfo struct {
	Term *sym.Term
	Kind string // int64, uint64, int, big, bool, byte ...
}

type PathResult struct {
	Decisions     []string
	Status        string // completed | panic | exit | aborted | ended
	Detail        string
	Site          string
	Violations    []*Violation
	Covers        map[string]bool
	Steps         int64
	NewPrefixes   [][]string
	Asserts       map[string]int // label -> number of times discharged (unsat or concretely true)
	Witness       *Witness       // path witness for cross-validation (optional)
	Queries       solver.Stats
	Funcs         []string
	Stubs         []string
	Assumptions   []string
	Unknowns      int
	BranchUnknown int
	Recovered     []string
	MaxVars       int
}

// Witness is a concrete model of the final path condition and the values the
// engine predicts for every observation under it.
type Witness struct {
	Model    map[string]string `json:"model"`
	Choices  map[string]int    `json:"choices"`
	Expected map[string]string `json:"expected"`
	Status   string            `json:"status"`
	Detail   string            `json:"detail"`
}

type Exec struct {
	S       *solver.Solver
	Harness string
	prefix  []string
	pos     int
	trace   []string
	pc      []*sym.Term

	vars     map[string]*VarInfo
	varOrder []string
	choices  map[string]int

	res             *PathResult
	obs             []Observation
	crashIsViol     string
	inInit          int
	panicSite       string
	abortSite       string
	haltMsg         string
	blobLen         int
	decTerms        []*sym.Term
	lastRecoverSite string
	recovered       []string
	stubs           map[string]bool
	assumptions     map[string]bool
	maxEnum         int
	repoPrefix      string
	unknownAsSat    bool
	mapOrder        bool // explore map iteration orders as environment choices
	mapOrderMax     int
	mapOrderUsed    bool
	floatStrict     bool
	uniq            int
	wantWitness     bool
	tier            int
	cross           *CrossState
}

func (x *Exec) isRepoPkg(path string) bool {
	return strings.HasPrefix(path, x.repoPrefix)
}

func (x *Exec) stub(name string) { x.stubs[name] = true }

func (x *Exec) fresh(prefix string) string {
	x.uniq++
	return fmt.Sprintf("%s#%d", prefix, x.uniq)
}

// ---- variables ----

func (x *Exec) Var(name string, s sym.Sort, kind string) *sym.Term {
	if v, ok := x.vars[name]; ok {
		return v.Term
	}
	t := sym.Var(name, s)
	x.vars[name] = &VarInfo{Term: t, Kind: kind}
	x.varOrder = append(x.varOrder, name)
	return t
}

// ---- path condition ----

func (x *Exec) addPC(c *sym.Term) {
	if c.IsTrue() {
		return
	}
	x.pc = append(x.pc, c)
	x.S.Assert(c)
}

func (x *Exec) check(extra ...*sym.Term) solver.Result {
	return x.checkT(0, extra...)
}

// feasible is a branch-feasibility query: short timeout; unknown keeps the
// branch (over-approximation, sound for proving goals) and is counted apart.
func (x *Exec) feasible(extra ...*sym.Term) solver.Result {
	for _, e := range extra {
		if e.IsFalse() {
			return solver.Unsat
		}
	}
	x.S.NextTimeout = 8000
	r, _, err := x.S.Check(extra, nil)
	if err != nil || r == solver.Unknown {
		x.res.BranchUnknown++
		return solver.Unknown
	}
	return r
}

func (x *Exec) checkT(timeout int, extra ...*sym.Term) solver.Result {
	for _, e := range extra {
		if e.IsFalse() {
			return solver.Unsat
		}
	}
	x.S.NextTimeout = timeout
	r, _, err := x.S.Check(extra, nil)
	if err != nil {
		x.res.Unknowns++
		return solver.Unknown
	}
	if r == solver.Unknown {
		x.res.Unknowns++
	}
	return r
}

// decide consumes the next recorded decision, if any.
func (x *Exec) next() (string, bool) {
	if x.pos < len(x.prefix) {
		d := x.prefix[x.pos]
		x.pos++
		x.trace = append(x.trace, d)
		return d, true
	}
	return "", false
}

func (x *Exec) record(d string) {
	x.trace = append(x.trace, d)
	x.pos++
}

func (x *Exec) schedule(alt string) {
	p := make([]string, len(x.trace)+1)
	copy(p, x.trace)
	p[len(x.trace)] = alt
	x.res.NewPrefixes = append(x.res.NewPrefixes, p)
}

// branch decides a symbolic condition, forking when both sides are feasible.
func (x *Exec) branch(c *sym.Term) bool {
	if c.IsConst() {
		return c.B
	}
	if d, ok := x.next(); ok {
		switch d {
		case "T":
			x.addPC(c)
			return true
		case "F":
			x.addPC(sym.Not(c))
			return false
		case "t": // forced
			return true
		case "f":
			return false
		}
		panic(fmt.Sprintf("decision mismatch: got %q at a branch (non-deterministic re-execution?)", d))
	}
	rt := x.feasible(c)
	if rt == solver.Unsat {
		x.record("f")
		return false
	}
	rf := x.feasible(sym.Not(c))
	if rf == solver.Unsat {
		x.record("t")
		return true
	}
	// both feasible (or unknown): take true now, schedule false
	x.schedule("F")
	x.record("T")
	x.addPC(c)
	return true
}

// choice forks over n alternatives (harness-level nondeterminism).
func (x *Exec) choice(name string, n int) int {
	if n <= 0 {
		panic(endPath{"empty choice " + name})
	}
	var k int
	// a named choice is one input of the run: asking again gives the same
	// value (as the native implementation reads it from the replay file by name)
	if name != "" {
		if prev, ok := x.choices[name]; ok {
			if prev >= n {
				return 0
			}
			return prev
		}
	}
	if d, ok := x.next(); ok {
		if !strings.HasPrefix(d, "c") {
			panic(fmt.Sprintf("decision mismatch: got %q at choice %s", d, name))
		}
		fmt.Sscanf(d[1:], "%d", &k)
	} else {
		for j := n - 1; j >= 1; j-- {
			x.schedule(fmt.Sprintf("c%d", j))
		}
		x.record("c0")
		k = 0
	}
	if name != "" {
		x.choices[name] = k
	}
	return k
}

// concretize enumerates the feasible values of t (forking), at most maxEnum.
func (x *Exec) concretize(t *sym.Term, what string) *big.Int {
	if t.IsConst() {
		return t.Val
	}
	if d, ok := x.next(); ok {
		if !strings.HasPrefix(d, "=") {
			panic(fmt.Sprintf("decision mismatch: got %q at concretize(%s)", d, what))
		}
		v, _ := new(big.Int).SetString(d[1:], 10)
		x.addPC(sym.Eq(t, sym.Int(v)))
		return v
	}
	var vals []*big.Int
	var block []*sym.Term
	for len(vals) <= x.maxEnum {
		r, out, err := x.S.Check(block, []*sym.Term{t})
		if err != nil || r == solver.Unknown {
			x.res.Unknowns++
			panic(abortPath{"solver unknown while enumerating values for " + what})
		}
		if r == solver.Unsat {
			break
		}
		rat, _, _, perr := solver.ParseValue(out[0])
		if perr != nil || !rat.IsInt() {
			panic(abortPath{"bad model value for " + what + ": " + out[0]})
		}
		v := new(big.Int).Set(rat.Num())
		vals = append(vals, v)
		block = append(block, sym.Ne(t, sym.Int(v)))
	}
	if len(vals) == 0 {
		panic(endPath{"infeasible at concretize " + what})
	}
	if len(vals) > x.maxEnum {
		panic(abortPath{fmt.Sprintf("symbolic %s has more than %d feasible values; bound it in the harness", what, x.maxEnum)})
	}
	for _, v := range vals[1:] {
		x.schedule("=" + v.String())
	}
	x.record("=" + vals[0].String())
	x.addPC(sym.Eq(t, sym.Int(vals[0])))
	return vals[0]
}

// assume restricts the path; an infeasible assumption ends it.
func (x *Exec) assume(c *sym.Term) {
	if c.IsTrue() {
		return
	}
	if c.IsFalse() {
		panic(endPath{"assumption false"})
	}
	if d, ok := x.next(); ok {
		if d == "a0" {
			panic(endPath{"assumption infeasible"})
		}
		x.addPC(c)
		return
	}
	if x.feasible(c) == solver.Unsat {
		x.record("a0")
		panic(endPath{"assumption infeasible"})
	}
	x.record("a1")
	x.addPC(c)
}

func (x *Exec) model() (map[string]string, bool) {
	var want []*sym.Term
	for _, n := range x.varOrder {
		want = append(want, x.vars[n].Term)
	}
	return x.modelWith(nil, want, x.varOrder)
}

func (x *Exec) modelWith(extra []*sym.Term, want []*sym.Term, names []string) (map[string]string, bool) {
	r, vals, err := x.S.Check(extra, want)
	if err != nil || r != solver.Sat {
		return nil, false
	}
	m := map[string]string{}
	for i, n := range names {
		if len(want) == 0 {
			break
		}
		m[n] = normVal(vals[i])
	}
	return m, true
}

func normVal(s string) string {
	if s == "true" || s == "false" {
		return s
	}
	r, _, _, err := solver.ParseValue(s)
	if err != nil {
		return s
	}
	if r.IsInt() {
		return r.Num().String()
	}
	return r.RatString()
}

func (x *Exec) violation(kind, label, site, detail string, extra ...*sym.Term) {
	var want []*sym.Term
	var names []string
	for _, n := range x.varOrder {
		want = append(want, x.vars[n].Term)
		names = append(names, "v:"+n)
	}
	for k, o := range x.obs {
		if o.Term != nil {
			want = append(want, o.Term)
			names = append(names, fmt.Sprintf("o:%d", k))
		}
	}
	m, ok := x.modelWith(extra, want, names)
	if !ok {
		if len(want) == 0 {
			m = map[string]string{}
		} else {
			x.res.Unknowns++
			return
		}
	}
	model := map[string]string{}
	for _, n := range x.varOrder {
		if x.vars[n].Kind == "bloblen" {
			continue // lengths of serialised blobs are not inputs of the native run
		}
		model[n] = m["v:"+n]
	}
	obs := map[string]string{}
	for k, o := range x.obs {
		if o.Term != nil {
			obs[o.Name] = m[fmt.Sprintf("o:%d", k)]
		} else {
			obs[o.Name] = o.Conc
		}
	}
	ch := map[string]int{}
	for k, v := range x.choices {
		ch[k] = v
	}
	x.res.Violations = append(x.res.Violations, &Violation{
		Kind: kind, Label: label, Site: site, Detail: detail, Model: model, Choices: ch, Observed: obs,
		Decisions: append([]string(nil), x.trace...), Harness: x.Harness, MapOrder: x.mapOrderUsed,
	})
}

// assert checks a goal: the solver must show pc ∧ ¬c unsatisfiable. A goal
// that can fail is recorded with its model; the path then continues under c
// (or unconstrained when c fails for every input of the path), so that later
// goals are still examined.
func (x *Exec) assert(c *sym.Term, label string) {
	if c.IsTrue() {
		x.res.Asserts[label]++
		return
	}
	if c.IsFalse() {
		if x.pos >= len(x.prefix) {
			x.violation("assert", label, "", "")
		}
		return
	}
	if d, ok := x.next(); ok {
		// recorded outcome of this assertion on the prefix: v = can be violated, h = holds, e = always violated
		switch d {
		case "h":
			x.res.Asserts[label]++
			return
		case "v":
			x.addPC(c)
			return
		case "e":
			return
		}
		panic(fmt.Sprintf("decision mismatch: got %q at assert %s", d, label))
	}
	r := x.checkT(20000, sym.Not(c))
	switch r {
	case solver.Unsat:
		x.record("h")
		x.res.Asserts[label]++
		x.crossCheck(label, sym.Not(c))
		return
	case solver.Unknown:
		// nonlinear integer arithmetic: try to prove the goal on the real
		// relaxation (sound for unsat only)
		if x.relaxedUnsat(sym.Not(c)) {
			x.res.Unknowns--
			x.record("h")
			x.res.Asserts[label]++
			x.assumptions["goal(s) discharged on the real relaxation of the integer formula (unsat there implies unsat over the integers)"] = true
			return
		}
		x.record("h")
		panic(abortPath{"solver unknown on goal " + label})
	}
	x.violation("assert", label, "", "", sym.Not(c))
	if x.check(c) == solver.Unsat {
		x.record("e")
		return
	}
	x.record("v")
	x.addPC(c)
}

func (x *Exec) cover(c *sym.Term, label string) {
	if x.res.Covers[label] {
		return
	}
	if c.IsTrue() {
		x.res.Covers[label] = true
		return
	}
	if c.IsFalse() {
		return
	}
	if x.pos < len(x.prefix) {
		return // covered (or not) when this prefix was first explored
	}
	if x.feasible(c) == solver.Sat {
		x.res.Covers[label] = true
	}
}

// panicIf forks on a condition under which the target would panic.
func (x *Exec) panicIf(c *sym.Term, msg string) {
	if c.IsFalse() {
		return
	}
	if x.branch(c) {
		panic(targetPanic{msg})
	}
}

// floatEvent raises FLOAT-UNDEFINED when cond is feasible (Go leaves the
// result platform-defined); the path continues under ¬cond.
func (x *Exec) floatEvent(what string, cond *sym.Term) {
	if cond.IsFalse() {
		return
	}
	if x.branch(cond) {
		x.violation("float-undefined", what, "", "")
		panic(endPath{"float-undefined: " + what})
	}
}

// floatAssume records a magnitude assumption under which float == real.
func (x *Exec) floatAssume(what string, cond *sym.Term) {
	x.assumptions["float: "+what] = true
	if x.floatStrict {
		x.assume(cond)
	}
}

func (x *Exec) observe(name string, v value) {
	switch s := v.(type) {
	case symInt:
		x.obs = append(x.obs, Observation{Name: name, Term: s.t})
	case symBool:
		x.obs = append(x.obs, Observation{Name: name, Term: s.t})
	case bigv:
		x.obs = append(x.obs, Observation{Name: name, Term: s.t})
	default:
		x.obs = append(x.obs, Observation{Name: name, Conc: toString(v)})
	}
}

func (x *Exec) witness(status, detail string) *Witness {
	var want []*sym.Term
	var names []string
	for _, n := range x.varOrder {
		want = append(want, x.vars[n].Term)
		names = append(names, "v:"+n)
	}
	for i, o := range x.obs {
		if o.Term != nil {
			want = append(want, o.Term)
			names = append(names, fmt.Sprintf("o:%d", i))
		}
	}
	m, ok := x.modelWith(nil, want, names)
	if !ok {
		return nil
	}
	w := &Witness{Model: map[string]string{}, Choices: map[string]int{}, Expected: map[string]string{}, Status: status, Detail: detail}
	for _, n := range x.varOrder {
		if x.vars[n].Kind == "bloblen" {
			continue
		}
		w.Model[n] = m["v:"+n]
	}
	for k, v := range x.choices {
		w.Choices[k] = v
	}
	for i, o := range x.obs {
		if o.Term != nil {
			w.Expected[o.Name] = m[fmt.Sprintf("o:%d", i)]
		} else {
			w.Expected[o.Name] = o.Conc
		}
	}
	return w
}

func sortedKeys(m map[string]bool) []string {
	var ks []string
	for k := range m {
		ks = append(ks, k)
	}
	sort.Strings(ks)
	return ks
}

// decMarker returns the opaque string standing for the decimal text of t.
func (x *Exec) decMarker(t *sym.Term) string {
	if t.IsConst() {
		return t.Val.String()
	}
	x.decTerms = append(x.decTerms, t)
	return fmt.Sprintf("%sdec:%d%s", symMarker, len(x.decTerms)-1, symMarkerEnd)
}

var decRe = regexp.MustCompile("^(-?)" + symMarker + "dec:([0-9]+)" + symMarkerEnd + "(0*)$")

// parseDec recognises a decimal marker followed by zeros (PadZero) and returns
// the denoted integer term.
func (x *Exec) parseDec(s string) (*sym.Term, bool) {
	m := decRe.FindStringSubmatch(s)
	if m == nil {
		return nil, false
	}
	var n int
	fmt.Sscanf(m[2], "%d", &n)
	if n < 0 || n >= len(x.decTerms) {
		return nil, false
	}
	t := x.decTerms[n]
	if k := len(m[3]); k > 0 {
		t = sym.Mul(t, sym.Int(new(big.Int).Exp(big.NewInt(10), big.NewInt(int64(k)), nil)))
	}
	if m[1] == "-" {
		t = sym.Neg(t)
	}
	return t, true
}

// relaxedUnsat decides pc ∧ extra on the real relaxation with a second solver
// process; true means proved unsatisfiable.
func (x *Exec) relaxedUnsat(extra *sym.Term) bool {
	// z3 first, then cvc5 on the same relaxed formula (different nonlinear
	// real procedures; unsat from either is a proof)
	for _, kind := range []string{x.S.Kind, "cvc5"} {
		if x.relaxedUnsatWith(kind, extra) {
			if kind != x.S.Kind {
				x.assumptions["some relaxed goals were discharged by cvc5 after z3 answered unknown"] = true
			}
			return true
		}
	}
	return false
}

func (x *Exec) relaxedUnsatWith(kind string, extra *sym.Term) bool {
	s, err := solver.New(kind, x.S.Timeout)
	if err != nil {
		return false
	}
	defer s.Close()
	r := sym.NewRelaxer()
	var fs []*sym.Term
	for _, p := range x.pc {
		fs = append(fs, r.Relax(p))
	}
	fs = append(fs, r.Relax(extra))
	fs = append(fs, r.Side...)
	for _, f := range fs {
		s.Assert(f)
	}
	res, _, err := s.Check(nil, nil)
	x.S.Stats.Wall += s.Stats.Wall
	if err == nil && res == solver.Unsat {
		x.S.Stats.Unsat++
		return true
	}
	return false
}
