package interp

// Library cryptography and hashing as stubs (DESIGN §2.3).
//
// Signatures are modelled functionally: Sign(priv, m) returns a tagged value
// carrying (public key, m); Verify(pub, m', sig) is true iff sig is such a tag
// for the same public key and m' has the same content as m (decided by the
// solver when the messages contain symbolic fields). Bytes that were not
// produced by Sign never verify (unforgeability is assumed, not checked).
// Hashes of concrete input are computed natively; hashes of blobs are an
// injective function of the blob's rendered content.

import (
	"crypto/sha256"
	"crypto/sha512"

	"fmt"
	"go/types"
	"golang.org/x/crypto/ed25519"
	"golang.org/x/crypto/ripemd160"
	"golang.org/x/crypto/sha3"
	"math/big"

	"gosym/sym"
)

type sigv struct {
	pub string  // public key bytes
	msg []value // signed message (bytes or blob)
	id  int     // identity token of this Sign call (see the []byte -> string conversion)
}

func sigOf(s []value) *sigv {
	if len(s) == 1 {
		if g, ok := s[0].(*sigv); ok {
			return g
		}
	}
	return nil
}

// deepEqTerm compares two interpreter values structurally (through pointers,
// slices and maps), producing a Bool term.
func deepEqTerm(a, b value, depth int) *sym.Term {
	if depth > 60 {
		panic(abortPath{"deepEq: too deep"})
	}
	switch x := a.(type) {
	case structure:
		y, ok := b.(structure)
		if !ok || len(x) != len(y) {
			return sym.False
		}
		if len(x) == 2 {
			_, xb := x[1].(bigv)
			_, yb := y[1].(bigv)
			if xb || yb {
				return sym.Eq(bigOf(x), bigOf(y))
			}
		}
		var cs []*sym.Term
		for k := range x {
			cs = append(cs, deepEqTerm(x[k], y[k], depth+1))
		}
		return sym.And(cs...)
	case array:
		y, ok := b.(array)
		if !ok || len(x) != len(y) {
			return sym.False
		}
		var cs []*sym.Term
		for k := range x {
			cs = append(cs, deepEqTerm(x[k], y[k], depth+1))
		}
		return sym.And(cs...)
	case []value:
		y, ok := b.([]value)
		if !ok {
			return sym.False
		}
		bx, by := blobOf(x), blobOf(y)
		if bx != nil || by != nil {
			if bx == nil || by == nil {
				return sym.False
			}
			if bx == by {
				return sym.True
			}
			if !types.Identical(bx.t, by.t) || bx.enc != by.enc {
				return sym.False
			}
			return deepEqTerm(bx.v, by.v, depth+1)
		}
		sx, sy := sigOf(x), sigOf(y)
		if sx != nil || sy != nil {
			if sx == nil || sy == nil || sx.pub != sy.pub {
				return sym.False
			}
			return deepEqTerm(sx.msg, sy.msg, depth+1)
		}
		// JSON does not distinguish nil from empty for the purposes of equality of content
		if len(x) != len(y) {
			return sym.False
		}
		var cs []*sym.Term
		for k := range x {
			cs = append(cs, deepEqTerm(x[k], y[k], depth+1))
		}
		return sym.And(cs...)
	case *value:
		y, ok := b.(*value)
		if !ok {
			return sym.False
		}
		if x == nil || y == nil {
			return sym.Bool(x == y)
		}
		if x == y {
			return sym.True
		}
		return deepEqTerm(*x, *y, depth+1)
	case *omap:
		y, ok := b.(*omap)
		if !ok {
			return sym.False
		}
		if x.len() != y.len() {
			return sym.False
		}
		var cs []*sym.Term
		for _, k := range x.liveKeys() {
			xv, _ := x.lookup(k)
			yv, ok := y.lookup(k)
			if !ok {
				return sym.False
			}
			cs = append(cs, deepEqTerm(xv, yv, depth+1))
		}
		return sym.And(cs...)
	case iface:
		y, ok := b.(iface)
		if !ok {
			return sym.False
		}
		if !sameType(x.t, y.t) {
			return sym.False
		}
		if x.t == nil {
			return sym.True
		}
		return deepEqTerm(x.v, y.v, depth+1)
	case bool, symBool:
		if !isBoolV(b) {
			return sym.False
		}
		return sym.Eq(boolTerm(x), boolTerm(b))
	case string:
		y, ok := b.(string)
		return sym.Bool(ok && x == y)
	case bigv:
		if y, ok := b.(bigv); ok {
			return sym.Eq(x.t, y.t)
		}
		return sym.Eq(x.t, sym.Int64(0))
	}
	if ta, _, ok := intTerm(a); ok {
		tb, _, ok2 := intTerm(b)
		if !ok2 {
			return sym.False
		}
		return sym.Eq(ta, tb)
	}
	if fa, _, ok := floatTerm(a); ok {
		if fb, _, ok := floatTerm(b); ok {
			return sym.Eq(fa, fb)
		}
		return sym.False
	}
	if a == nil || b == nil {
		return sym.Bool(a == nil && b == nil)
	}
	panic(abortPath{fmt.Sprintf("deepEq on %T", a)})
}

// hashBytes: native sha256 on concrete bytes, otherwise a digest of the
// rendered content (injective up to rendering).
func hashBytes(in []value) [32]byte {
	if b := blobOf(in); b != nil {
		return sha256.Sum256([]byte(fmt.Sprintf("blob/%d:", b.enc) + renderDeep(b.v)))
	}
	if s := sigOf(in); s != nil {
		return sha256.Sum256([]byte("sig:" + s.pub + renderVal(s.msg)))
	}
	for _, e := range in {
		if _, ok := e.(byte); !ok {
			return sha256.Sum256([]byte("sym:" + renderVal(in)))
		}
	}
	return sha256.Sum256(concreteBytes(in, "hash"))
}

func arrayBytes(v value) []byte {
	a := v.(array)
	out := make([]byte, len(a))
	for k, e := range a {
		c, ok := e.(byte)
		if !ok {
			panic(abortPath{"symbolic key material"})
		}
		out[k] = c
	}
	return out
}

func init() {
	const ed = "github.com/tendermint/tendermint/crypto/ed25519"
	const tmhash = "github.com/tendermint/tendermint/crypto/tmhash"
	edPub := func(fr *frame) types.Type {
		return fr.i.prog.ImportedPackage(ed).Type("PubKeyEd25519").Type()
	}
	for k, v := range map[string]externalFn{
		tmhash + ".Sum": func(fr *frame, args []value) value {
			fr.i.x.stub("tmhash/sha256 (native on concrete bytes; injective digest of content otherwise)")
			h := hashBytes(args[0].([]value))
			return bytesValue(h[:])
		},
		tmhash + ".SumTruncated": func(fr *frame, args []value) value {
			fr.i.x.stub("tmhash/sha256 (native on concrete bytes; injective digest of content otherwise)")
			h := hashBytes(args[0].([]value))
			return bytesValue(h[:20])
		},
		"crypto/sha256.Sum256": func(fr *frame, args []value) value {
			fr.i.x.stub("tmhash/sha256 (native on concrete bytes; injective digest of content otherwise)")
			h := hashBytes(args[0].([]value))
			out := make(array, 32)
			for k := range out {
				out[k] = h[k]
			}
			return out
		},
		"(" + ed + ".PubKeyEd25519).Address": func(fr *frame, args []value) value {
			h := sha256.Sum256(arrayBytes(args[0]))
			return bytesValue(h[:20])
		},
		"(" + ed + ".PubKeyEd25519).Bytes": func(fr *frame, args []value) value {
			return bytesValue(append([]byte{0x16, 0x24, 0xDE, 0x64, 0x20}, arrayBytes(args[0])...))
		},
		"(" + ed + ".PubKeyEd25519).String": func(fr *frame, args []value) value {
			return fmt.Sprintf("PubKeyEd25519{%X}", arrayBytes(args[0]))
		},
		"(" + ed + ".PubKeyEd25519).VerifyBytes": func(fr *frame, args []value) value {
			fr.i.x.stub("ed25519 Sign/Verify (functional signature model, unforgeability assumed)")
			pub := string(arrayBytes(args[0]))
			msg, _ := args[1].([]value)
			sig, _ := args[2].([]value)
			s := sigOf(sig)
			if s == nil || s.pub != pub {
				return false
			}
			return mkBool(deepEqTerm(s.msg, msg, 0))
		},
		"(" + ed + ".PrivKeyEd25519).Sign": func(fr *frame, args []value) value {
			fr.i.x.stub("ed25519 Sign/Verify (functional signature model, unforgeability assumed)")
			priv := arrayBytes(args[0])
			msg, _ := args[1].([]value)
			fr.i.x.uniq++
			return tuple{[]value{&sigv{pub: string(priv[32:]), msg: msg, id: fr.i.x.uniq}}, iface{}}
		},
		ed + ".GenPrivKeyFromSecret": func(fr *frame, args []value) value {
			seed := sha256.Sum256(concreteBytes(args[0].([]value), "key secret"))
			priv := ed25519.NewKeyFromSeed(seed[:])
			out := make(array, 64)
			for k := range out {
				out[k] = priv[k]
			}
			return out
		},
		"(" + ed + ".PrivKeyEd25519).PubKey": func(fr *frame, args []value) value {
			priv := args[0].(array)
			pub := make(array, 32)
			copy(pub, priv[32:])
			return iface{t: edPub(fr), v: pub}
		},
	} {
		externals[k] = v
	}
}

func keccak256(parts ...[]byte) []byte {
	h := sha3.NewLegacyKeccak256()
	for _, p := range parts {
		h.Write(p)
	}
	return h.Sum(nil)
}

func init() {
	const gcrypto = "github.com/ethereum/go-ethereum/crypto"
	keccakOf := func(fr *frame, args []value) []byte {
		fr.i.x.stub("keccak256 (native on concrete bytes)")
		var parts [][]byte
		for _, p := range args[0].([]value) {
			parts = append(parts, concreteBytes(p.([]value), "keccak input"))
		}
		return keccak256(parts...)
	}
	externals[gcrypto+".Keccak256"] = func(fr *frame, args []value) value {
		return bytesValue(keccakOf(fr, args))
	}
	externals[gcrypto+".Keccak256Hash"] = func(fr *frame, args []value) value {
		h := keccakOf(fr, args)
		out := make(array, 32)
		for k := range out {
			out[k] = h[k]
		}
		return out
	}
}

func init() {
	const gcommon = "github.com/ethereum/go-ethereum/common"
	const gcrypto = "github.com/ethereum/go-ethereum/crypto"
	addrBytes := func(v value) []byte {
		a := v.(array)
		b := make([]byte, len(a))
		for k := range a {
			c, ok := a[k].(uint8)
			if !ok {
				panic(abortPath{"symbolic byte in an ethereum address"})
			}
			b[k] = c
		}
		return b
	}
	// EIP-55 checksum hex (native on the concrete address)
	hexOf := func(fr *frame, args []value) value {
		b := addrBytes(args[0])
		buf := []byte(fmt.Sprintf("%x", b))
		h := keccak256(buf)
		for i := 0; i < len(buf); i++ {
			hb := h[i/2]
			if i%2 == 0 {
				hb = hb >> 4
			} else {
				hb &= 0xf
			}
			if buf[i] > '9' && hb > 7 {
				buf[i] -= 32
			}
		}
		return "0x" + string(buf)
	}
	externals["("+gcommon+".Address).Hex"] = hexOf
	externals["("+gcommon+".Address).String"] = hexOf
	// CreateAddress(b, nonce) = keccak(rlp([b, nonce]))[12:]
	externals[gcrypto+".CreateAddress"] = func(fr *frame, args []value) value {
		fr.i.x.stub("crypto.CreateAddress (native rlp+keccak on concrete sender and nonce)")
		b := addrBytes(args[0])
		n := fr.i.concreteInt64(args[1], "create-address nonce")
		var enc []byte
		enc = append(enc, 0x80+20)
		enc = append(enc, b...)
		un := uint64(n)
		switch {
		case un == 0:
			enc = append(enc, 0x80)
		case un < 0x80:
			enc = append(enc, byte(un))
		default:
			var nb []byte
			for v := un; v > 0; v >>= 8 {
				nb = append([]byte{byte(v)}, nb...)
			}
			enc = append(enc, 0x80+byte(len(nb)))
			enc = append(enc, nb...)
		}
		enc = append([]byte{0xc0 + byte(len(enc))}, enc...)
		h := keccak256(enc)[12:]
		out := make(array, 20)
		for k := range out {
			out[k] = h[k]
		}
		return out
	}
}

// ---- Keccak state objects (sha3.NewLegacyKeccak256): native on concrete bytes ----

type kstate struct {
	sum         func([]byte) []byte // nil: keccak256
	size, block int
	in          []byte
	out         []byte // squeezed output so far consumed
	pos         int
}

func init() {
	const sha = "golang.org/x/crypto/sha3"
	get := func(fr *frame, v value) *kstate {
		p := v.(*value)
		k, _ := fr.i.side[p].(*kstate)
		if k == nil {
			panic(abortPath{"keccak state not created by NewLegacyKeccak256"})
		}
		return k
	}
	externals[sha+".NewLegacyKeccak256"] = func(fr *frame, args []value) value {
		fr.i.x.stub("keccak256 (native on concrete bytes)")
		pkg := fr.i.prog.ImportedPackage(sha)
		st := pkg.Type("state").Type()
		c := zero(st)
		p := &c
		fr.i.side[p] = &kstate{}
		return iface{t: types.NewPointer(st), v: p}
	}
	externals["(*"+sha+".state).Reset"] = func(fr *frame, args []value) value {
		k := get(fr, args[0])
		k.in, k.out, k.pos = nil, nil, 0
		return nil
	}
	externals["(*"+sha+".state).Write"] = func(fr *frame, args []value) value {
		k := get(fr, args[0])
		b := concreteBytes(args[1].([]value), "keccak input")
		k.in = append(k.in, b...)
		return tuple{len(b), iface{}}
	}
	squeeze := func(k *kstate, n int) []byte {
		if k.out == nil {
			k.out = keccak256(k.in)
		}
		if k.pos+n > len(k.out) {
			panic(abortPath{"keccak: more than 32 bytes squeezed"})
		}
		o := k.out[k.pos : k.pos+n]
		k.pos += n
		return o
	}
	externals["(*"+sha+".state).Read"] = func(fr *frame, args []value) value {
		k := get(fr, args[0])
		dst := args[1].([]value)
		o := squeeze(k, len(dst))
		for i := range dst {
			dst[i] = o[i]
		}
		return tuple{len(dst), iface{}}
	}
	externals["(*"+sha+".state).Sum"] = func(fr *frame, args []value) value {
		k := get(fr, args[0])
		h := keccak256(k.in)
		pre, _ := args[1].([]value)
		out := append([]value{}, pre...)
		for _, b := range h {
			out = append(out, b)
		}
		return out
	}
	externals["(*"+sha+".state).Size"] = func(fr *frame, args []value) value { return 32 }
	externals["(*"+sha+".state).BlockSize"] = func(fr *frame, args []value) value { return 136 }

	// crypto/sha256 and crypto/sha512 state objects: native on concrete bytes
	type hkind struct {
		pkg, ctor, typ string
		size, block    int
		sum            func([]byte) []byte
	}
	for _, hk := range []hkind{
		{"crypto/sha256", "New", "digest", 32, 64, func(b []byte) []byte { h := sha256.Sum256(b); return h[:] }},
		{"crypto/sha256", "New224", "digest", 28, 64, func(b []byte) []byte { h := sha256.Sum224(b); return h[:] }},
		{"crypto/sha512", "New", "digest", 64, 128, func(b []byte) []byte { h := sha512.Sum512(b); return h[:] }},
		{"crypto/sha512", "New384", "digest", 48, 128, func(b []byte) []byte { h := sha512.Sum384(b); return h[:] }},
	} {
		hk := hk
		externals[hk.pkg+"."+hk.ctor] = func(fr *frame, args []value) value {
			fr.i.x.stub("sha256 / sha512 state objects (native on concrete bytes)")
			pkg := fr.i.prog.ImportedPackage(hk.pkg)
			st := pkg.Type(hk.typ).Type()
			c := zero(st)
			p := &c
			fr.i.side[p] = &kstate{sum: hk.sum, size: hk.size, block: hk.block}
			return iface{t: types.NewPointer(st), v: p}
		}
		recv := "(*" + hk.pkg + "." + hk.typ + ")"
		externals[recv+".Reset"] = externals["(*"+sha+".state).Reset"]
		externals[recv+".Write"] = func(fr *frame, args []value) value {
			k := get(fr, args[0])
			in := args[1].([]value)
			concrete := true
			for _, e := range in {
				if _, ok := e.(byte); !ok {
					concrete = false
				}
			}
			if concrete {
				k.in = append(k.in, concreteBytes(in, "hash input")...)
			} else {
				// a blob / symbolic chunk enters as the injective digest of its content
				d := hashBytes(in)
				k.in = append(append(k.in, []byte("\x00chunk:")...), d[:]...)
			}
			return tuple{len(in), iface{}}
		}
		externals[recv+".Sum"] = func(fr *frame, args []value) value {
			k := get(fr, args[0])
			h := k.sum(k.in)
			pre, _ := args[1].([]value)
			out := append([]value{}, pre...)
			for _, b := range h {
				out = append(out, b)
			}
			return out
		}
		externals[recv+".Size"] = func(fr *frame, args []value) value { return get(fr, args[0]).size }
		externals[recv+".BlockSize"] = func(fr *frame, args []value) value { return get(fr, args[0]).block }
	}

	// tendermint secp256k1 public keys: address derivation is native; verification
	// refuses what the real parser refuses without looking at the message (a length
	// other than 64, r = s = 0); anything else would need the curve
	const tmsecp = "(github.com/tendermint/tendermint/crypto/secp256k1.PubKeySecp256k1)"
	externals[tmsecp+".Address"] = func(fr *frame, args []value) value {
		fr.i.x.stub("secp256k1 address derivation (native ripemd160(sha256(key)))")
		h := sha256.Sum256(arrayBytes(args[0]))
		r := ripemd160.New()
		r.Write(h[:])
		return bytesValue(r.Sum(nil))
	}
	externals[tmsecp+".String"] = func(fr *frame, args []value) value {
		return fmt.Sprintf("PubKeySecp256k1{%X}", arrayBytes(args[0]))
	}
	externals[tmsecp+".VerifyBytes"] = func(fr *frame, args []value) value {
		fr.i.x.stub("secp256k1 verification (only signatures the parser refuses: wrong length or all zero; genuine ones are not modelled)")
		sig, _ := args[2].([]value)
		if len(sig) != 64 {
			return false
		}
		for _, b := range sig {
			if c, ok := b.(byte); !ok || c != 0 {
				panic(abortPath{"secp256k1 verification of a non-zero signature is not modelled"})
			}
		}
		return false
	}
	// btcec: compressed serialisation of a public key with concrete coordinates;
	// DER parsing of bytes the real parser refuses
	const btcecPkg = "github.com/btcsuite/btcd/btcec"
	externals["(*"+btcecPkg+".PublicKey).SerializeCompressed"] = func(fr *frame, args []value) value {
		p, _ := args[0].(*value)
		if p == nil {
			panic(nilDeref())
		}
		st := (*p).(structure)
		coord := func(v value) *big.Int {
			t := bigGet(v)
			if !t.IsConst() {
				panic(abortPath{"symbolic curve point"})
			}
			return t.Val
		}
		x, y := coord(st[1]), coord(st[2])
		out := make([]byte, 33)
		out[0] = 2 + byte(y.Bit(0))
		xb := x.Bytes()
		copy(out[33-len(xb):], xb)
		return bytesValue(out)
	}
	externals[btcecPkg+".S256"] = func(fr *frame, args []value) value {
		return (*value)(nil)
	}
	externals[btcecPkg+".ParseDERSignature"] = func(fr *frame, args []value) value {
		fr.i.x.stub("btcec DER signature parsing (only byte strings without the DER header: refused as the real parser refuses them)")
		sig := concreteBytes(args[0].([]value), "DER signature")
		if len(sig) >= 8 && sig[0] == 0x30 {
			panic(abortPath{"btcec.ParseDERSignature of a DER-shaped signature is not modelled"})
		}
		return tuple{(*value)(nil), fr.i.makeError("malformed signature")}
	}

	// (*types.Transaction).Size: rlp length of the inner transaction; only
	// compared with the 128 KB cap by the code under analysis
	const gtypes = "github.com/ethereum/go-ethereum/core/types"
	externals["(*"+gtypes+".Transaction).Size"] = func(fr *frame, args []value) value {
		fr.i.x.stub("types.Transaction.Size (constant 200: harness payloads are a few bytes, far below the 128 KB cap)")
		return float64(200)
	}
}
