package interp

// github.com/tendermint/iavl modelled as a versioned ordered map (DESIGN §2.3).
// Contract assumed: Set/Remove/Get/Has/Iterate* act on the working copy;
// SaveVersion atomically snapshots it as version+1; Load returns the last
// saved version; GetVersioned/GetImmutable read snapshots; the hash is an
// (injective) function of the whole write history.

import (
	"crypto/sha256"
	"fmt"
	"go/types"
	"sort"
	"strings"

	"golang.org/x/tools/go/ssa"
)

type treeSnap struct {
	keys []string
	vals map[string][]value
	hash []byte
	hist int // length of the write history at the snapshot
}

// treeStore is what survives a "process restart": the saved versions.
type treeStore struct {
	versions map[int64]*treeSnap
	order    []int64
	history  []string // write history (version, op, key, value rendering)
}

type treeModel struct {
	store   *treeStore
	work    map[string][]value
	version int64
	ops     []treeOp // ops applied to the working copy since the last save/load
}

type treeOp struct {
	Kind       string // set | remove
	Key        string
	Val        []value
	Structural bool // first insertion of an absent key / removal of a present key
}

type treeView struct {
	m    *treeModel // working copy when snap == nil
	snap *treeSnap
	ver  int64
}

func (i *interpreter) iavlType(name string) types.Type {
	pkg := i.prog.ImportedPackage("github.com/tendermint/iavl")
	if pkg == nil {
		panic(abortPath{"iavl package not loaded"})
	}
	return pkg.Type(name).Type()
}

func (i *interpreter) dbStore(db value) *treeStore {
	var key *value
	switch d := db.(type) {
	case iface:
		if d.t == nil {
			panic(targetPanic{"iavl: nil db"})
		}
		key, _ = d.v.(*value)
	case *value:
		key = d
	}
	if key == nil {
		panic(abortPath{"iavl: unsupported db value"})
	}
	if s, ok := i.side[key].(*treeStore); ok {
		return s
	}
	s := &treeStore{versions: map[int64]*treeSnap{}}
	i.side[key] = s
	return s
}

func (i *interpreter) viewOf(p value) *treeView {
	ptr, _ := p.(*value)
	if ptr == nil {
		panic(nilDeref())
	}
	if v, ok := i.side[ptr].(*treeView); ok {
		return v
	}
	panic(abortPath{"iavl: tree object not created by NewMutableTree"})
}

func (i *interpreter) modelOf(p value) *treeModel {
	ptr, _ := p.(*value)
	if ptr == nil {
		panic(nilDeref())
	}
	if v, ok := i.side[ptr].(*treeModel); ok {
		return v
	}
	panic(abortPath{"iavl: tree object not created by NewMutableTree"})
}

func keyOf(v value, what string) string {
	k, _ := v.([]value)
	if blobOf(k) != nil {
		panic(abortPath{"iavl: blob used as key"})
	}
	s := string(concreteBytes(k, what+" key"))
	if hasSymMarker(s) {
		panic(abortPath{"iavl: key embeds a symbolic number: " + s})
	}
	return s
}

func (v *treeView) get(k string) ([]value, bool) {
	if v.snap != nil {
		x, ok := v.snap.vals[k]
		return x, ok
	}
	x, ok := v.m.work[k]
	return x, ok
}

func (v *treeView) sortedKeys() []string {
	if v.snap != nil {
		return v.snap.keys
	}
	ks := make([]string, 0, len(v.m.work))
	for k := range v.m.work {
		ks = append(ks, k)
	}
	sort.Strings(ks)
	return ks
}

func renderVal(v []value) string {
	if b := blobOf(v); b != nil {
		return "J(" + renderDeep(b.v) + ")"
	}
	var sb strings.Builder
	for _, e := range v {
		switch c := e.(type) {
		case byte:
			fmt.Fprintf(&sb, "%02x", c)
		case symInt:
			sb.WriteString("<" + c.t.String() + ">")
		default:
			fmt.Fprintf(&sb, "<%T>", e)
		}
	}
	return sb.String()
}

// renderDeep renders a value tree with symbolic leaves as term strings.
func renderDeep(v value) string {
	var sb strings.Builder
	var walk func(v value, d int)
	walk = func(v value, d int) {
		if d > 40 {
			sb.WriteString("…")
			return
		}
		switch x := v.(type) {
		case structure:
			sb.WriteString("{")
			for _, f := range x {
				walk(f, d+1)
				sb.WriteString(",")
			}
			sb.WriteString("}")
		case array:
			sb.WriteString("[")
			for _, f := range x {
				walk(f, d+1)
				sb.WriteString(",")
			}
			sb.WriteString("]")
		case []value:
			if x == nil {
				sb.WriteString("nil")
				return
			}
			if b := blobOf(x); b != nil {
				sb.WriteString("J(")
				walk(b.v, d+1)
				sb.WriteString(")")
				return
			}
			sb.WriteString("[")
			for _, f := range x {
				walk(f, d+1)
				sb.WriteString(",")
			}
			sb.WriteString("]")
		case *value:
			if x == nil {
				sb.WriteString("nil")
				return
			}
			sb.WriteString("&")
			walk(*x, d+1)
		case *omap:
			if x == nil {
				sb.WriteString("nilmap")
				return
			}
			keys := x.liveKeys()
			sortValues(keys)
			sb.WriteString("map{")
			for _, k := range keys {
				walk(k, d+1)
				sb.WriteString(":")
				e, _ := x.lookup(k)
				walk(e, d+1)
				sb.WriteString(",")
			}
			sb.WriteString("}")
		case iface:
			if x.t == nil {
				sb.WriteString("nil")
				return
			}
			sb.WriteString(x.t.String() + ":")
			walk(x.v, d+1)
		case symInt:
			sb.WriteString(x.t.String())
		case symBool:
			sb.WriteString(x.t.String())
		case symFloat:
			sb.WriteString(x.t.String())
		case bigv:
			sb.WriteString(x.t.String())
		case *ssa.Function, *closure:
			sb.WriteString("func")
		default:
			fmt.Fprintf(&sb, "%v", x)
		}
	}
	walk(v, 0)
	return sb.String()
}

func (m *treeModel) apply(kind, k string, val []value) (old []value, existed bool) {
	old, existed = m.work[k]
	switch kind {
	case "set":
		m.work[k] = val
		m.ops = append(m.ops, treeOp{Kind: "set", Key: k, Val: val, Structural: !existed})
	case "remove":
		if existed {
			delete(m.work, k)
			m.ops = append(m.ops, treeOp{Kind: "remove", Key: k, Structural: true})
		}
	}
	return
}

func (m *treeModel) loadSnap(ver int64) {
	m.work = map[string][]value{}
	m.ops = nil
	m.version = ver
	if s, ok := m.store.versions[ver]; ok {
		for k, v := range s.vals {
			m.work[k] = v
		}
		// writes after this version are forgotten by a reload of the latest
		// version only; history is cut when overwriting
	}
}

func (m *treeModel) currentHash() []byte {
	if len(m.work) == 0 && len(m.store.history) == 0 {
		return []byte(nil)
	}
	h := sha256.New()
	for _, l := range m.store.history {
		h.Write([]byte(l))
		h.Write([]byte{0})
	}
	for _, op := range m.ops {
		h.Write([]byte(fmt.Sprintf("%d|%s|%x|%s", m.version+1, op.Kind, op.Key, renderVal(op.Val))))
		h.Write([]byte{0})
	}
	return h.Sum(nil)
}

func iterate(fr *frame, view *treeView, start, end []value, asc bool, fn value) bool {
	keys := view.sortedKeys()
	var lo, hi string
	hasLo, hasHi := start != nil, end != nil
	if hasLo {
		lo = string(concreteBytes(start, "iterate start"))
	}
	if hasHi {
		hi = string(concreteBytes(end, "iterate end"))
	}
	var sel []string
	for _, k := range keys {
		if hasLo && k < lo {
			continue
		}
		if hasHi && k >= hi {
			continue
		}
		sel = append(sel, k)
	}
	if !asc {
		for a, b := 0, len(sel)-1; a < b; a, b = a+1, b-1 {
			sel[a], sel[b] = sel[b], sel[a]
		}
	}
	for _, k := range sel {
		v, ok := view.get(k)
		if !ok {
			continue
		}
		r := call(fr.i, fr, 0, fn, []value{bytesValue([]byte(k)), v})
		switch stop := r.(type) {
		case bool:
			if stop {
				return true
			}
		case symBool:
			if fr.i.x.branch(stop.t) {
				return true
			}
		}
	}
	return false
}

func init() {
	noErr := iface{}
	for k, v := range map[string]externalFn{
		"github.com/tendermint/tm-db.NewMemDB": func(fr *frame, args []value) value {
			fr.i.x.stub("tm-db MemDB (opaque handle for the iavl model)")
			pkg := fr.i.prog.ImportedPackage("github.com/tendermint/tm-db")
			c := zero(pkg.Type("MemDB").Type())
			return &c
		},
		"github.com/tendermint/tm-db.NewDB": func(fr *frame, args []value) value {
			fr.i.x.stub("tm-db NewDB (opaque handle for the iavl model)")
			pkg := fr.i.prog.ImportedPackage("github.com/tendermint/tm-db")
			t := pkg.Type("MemDB").Type()
			c := zero(t)
			return iface{t: types.NewPointer(t), v: &c}
		},
		"github.com/tendermint/iavl.NewMutableTree": func(fr *frame, args []value) value {
			fr.i.x.stub("iavl.MutableTree (versioned ordered-map model)")
			st := fr.i.dbStore(args[0])
			m := &treeModel{store: st, work: map[string][]value{}}
			mt := zero(fr.i.iavlType("MutableTree")).(structure)
			it := zero(fr.i.iavlType("ImmutableTree"))
			itp := &it
			mt[0] = itp
			var mcell value = mt
			mp := &mcell
			fr.i.side[mp] = m
			fr.i.side[itp] = &treeView{m: m}
			return tuple{mp, noErr}
		},
		"(*github.com/tendermint/iavl.MutableTree).Load": func(fr *frame, args []value) value {
			m := fr.i.modelOf(args[0])
			var last int64
			for _, v := range m.store.order {
				if v > last {
					last = v
				}
			}
			m.loadSnap(last)
			return tuple{last, noErr}
		},
		"(*github.com/tendermint/iavl.MutableTree).LoadVersion": func(fr *frame, args []value) value {
			m := fr.i.modelOf(args[0])
			target := fr.i.concreteInt64(args[1], "LoadVersion")
			var last int64
			for _, v := range m.store.order {
				if v > last && (target == 0 || v <= target) {
					last = v
				}
			}
			if target != 0 && last != target {
				return tuple{last, fr.i.makeError(fmt.Sprintf("wanted to load target %d but only found up to %d", target, last))}
			}
			m.loadSnap(last)
			return tuple{last, noErr}
		},
		"(*github.com/tendermint/iavl.MutableTree).Set": func(fr *frame, args []value) value {
			m := fr.i.modelOf(args[0])
			k := keyOf(args[1], "Set")
			val, _ := args[2].([]value)
			if val == nil {
				panic(targetPanic{"Attempt to store nil value at key '" + k + "'"})
			}
			_, existed := m.apply("set", k, val)
			return existed
		},
		"(*github.com/tendermint/iavl.MutableTree).Remove": func(fr *frame, args []value) value {
			m := fr.i.modelOf(args[0])
			k := keyOf(args[1], "Remove")
			old, existed := m.apply("remove", k, nil)
			if !existed {
				return tuple{[]value(nil), false}
			}
			return tuple{old, true}
		},
		"(*github.com/tendermint/iavl.MutableTree).SaveVersion": func(fr *frame, args []value) value {
			m := fr.i.modelOf(args[0])
			ver := m.version + 1
			if _, exists := m.store.versions[ver]; exists {
				return tuple{[]value(nil), ver, fr.i.makeError(fmt.Sprintf("version %d was already saved to different hash", ver))}
			}
			h := m.currentHash()
			for _, op := range m.ops {
				m.store.history = append(m.store.history, fmt.Sprintf("%d|%s|%x|%s", ver, op.Kind, op.Key, renderVal(op.Val)))
			}
			snap := &treeSnap{vals: map[string][]value{}, hash: h, hist: len(m.store.history)}
			for k, v := range m.work {
				snap.vals[k] = v
				snap.keys = append(snap.keys, k)
			}
			sort.Strings(snap.keys)
			m.store.versions[ver] = snap
			m.store.order = append(m.store.order, ver)
			m.version = ver
			m.ops = nil
			return tuple{bytesValue(h), ver, noErr}
		},
		"(*github.com/tendermint/iavl.MutableTree).DeleteVersion": func(fr *frame, args []value) value {
			m := fr.i.modelOf(args[0])
			ver := fr.i.concreteInt64(args[1], "DeleteVersion")
			if ver == 0 {
				return fr.i.makeError("version must be greater than 0")
			}
			if ver == m.version {
				return fr.i.makeError(fmt.Sprintf("cannot delete latest saved version (%d)", ver))
			}
			if _, ok := m.store.versions[ver]; !ok {
				return fr.i.makeError("version does not exist")
			}
			delete(m.store.versions, ver)
			for k, v := range m.store.order {
				if v == ver {
					m.store.order = append(m.store.order[:k:k], m.store.order[k+1:]...)
					break
				}
			}
			return noErr
		},
		"(*github.com/tendermint/iavl.MutableTree).GetVersioned": func(fr *frame, args []value) value {
			m := fr.i.modelOf(args[0])
			k := keyOf(args[1], "GetVersioned")
			ver := fr.i.concreteInt64(args[2], "GetVersioned version")
			if s, ok := m.store.versions[ver]; ok {
				if v, ok := s.vals[k]; ok {
					return tuple{int64(sort.SearchStrings(s.keys, k)), v}
				}
				return tuple{int64(sort.SearchStrings(s.keys, k)), []value(nil)}
			}
			return tuple{int64(-1), []value(nil)}
		},
		"(*github.com/tendermint/iavl.MutableTree).GetImmutable": func(fr *frame, args []value) value {
			m := fr.i.modelOf(args[0])
			ver := fr.i.concreteInt64(args[1], "GetImmutable version")
			s, ok := m.store.versions[ver]
			if !ok {
				return tuple{(*value)(nil), fr.i.makeError("version does not exist")}
			}
			it := zero(fr.i.iavlType("ImmutableTree"))
			itp := &it
			fr.i.side[itp] = &treeView{m: m, snap: s, ver: ver}
			return tuple{itp, noErr}
		},
		"(*github.com/tendermint/iavl.MutableTree).Hash": func(fr *frame, args []value) value {
			m := fr.i.modelOf(args[0])
			if s, ok := m.store.versions[m.version]; ok {
				return bytesValue(s.hash)
			}
			return []value(nil)
		},
		"(*github.com/tendermint/iavl.MutableTree).WorkingHash": func(fr *frame, args []value) value {
			return bytesValue(fr.i.modelOf(args[0]).currentHash())
		},
		"(*github.com/tendermint/iavl.MutableTree).VersionExists": func(fr *frame, args []value) value {
			m := fr.i.modelOf(args[0])
			_, ok := m.store.versions[fr.i.concreteInt64(args[1], "VersionExists")]
			return ok
		},
		"(*github.com/tendermint/iavl.MutableTree).IsEmpty": func(fr *frame, args []value) value {
			return len(fr.i.modelOf(args[0]).work) == 0
		},
		"(*github.com/tendermint/iavl.MutableTree).LoadVersionForOverwriting": func(fr *frame, args []value) value {
			panic(abortPath{"iavl LoadVersionForOverwriting not modelled"})
		},
		"(*github.com/tendermint/iavl.ImmutableTree).Get": func(fr *frame, args []value) value {
			v := fr.i.viewOf(args[0])
			k := keyOf(args[1], "Get")
			keys := v.sortedKeys()
			idx := int64(sort.SearchStrings(keys, k))
			if val, ok := v.get(k); ok {
				return tuple{idx, val}
			}
			return tuple{idx, []value(nil)}
		},
		"(*github.com/tendermint/iavl.ImmutableTree).Has": func(fr *frame, args []value) value {
			v := fr.i.viewOf(args[0])
			_, ok := v.get(keyOf(args[1], "Has"))
			return ok
		},
		"(*github.com/tendermint/iavl.ImmutableTree).Size": func(fr *frame, args []value) value {
			return int64(len(fr.i.viewOf(args[0]).sortedKeys()))
		},
		"(*github.com/tendermint/iavl.ImmutableTree).Version": func(fr *frame, args []value) value {
			v := fr.i.viewOf(args[0])
			if v.snap != nil {
				return v.ver
			}
			return v.m.version
		},
		"(*github.com/tendermint/iavl.ImmutableTree).Height": func(fr *frame, args []value) value {
			fr.i.x.stub("iavl tree height (reported as 0; informational only)")
			return int8(0)
		},
		"(*github.com/tendermint/iavl.ImmutableTree).Hash": func(fr *frame, args []value) value {
			v := fr.i.viewOf(args[0])
			if v.snap != nil {
				return bytesValue(v.snap.hash)
			}
			if s, ok := v.m.store.versions[v.m.version]; ok && len(v.m.ops) == 0 {
				return bytesValue(s.hash)
			}
			return bytesValue(v.m.currentHash())
		},
		"(*github.com/tendermint/iavl.ImmutableTree).GetByIndex": func(fr *frame, args []value) value {
			v := fr.i.viewOf(args[0])
			keys := v.sortedKeys()
			idx := fr.i.concreteInt64(args[1], "GetByIndex")
			if idx < 0 || idx >= int64(len(keys)) {
				return tuple{[]value(nil), []value(nil)}
			}
			val, _ := v.get(keys[idx])
			return tuple{bytesValue([]byte(keys[idx])), val}
		},
		"(*github.com/tendermint/iavl.ImmutableTree).Iterate": func(fr *frame, args []value) value {
			return iterate(fr, fr.i.viewOf(args[0]), nil, nil, true, args[1])
		},
		"(*github.com/tendermint/iavl.ImmutableTree).IterateRange": func(fr *frame, args []value) value {
			s, _ := args[1].([]value)
			e, _ := args[2].([]value)
			asc := args[3].(bool)
			return iterate(fr, fr.i.viewOf(args[0]), s, e, asc, args[4])
		},
	} {
		externals[k] = v
	}
}
