package interp

import (
	"fmt"
	"go/types"
	"math/big"
	"strings"
)

type bigInt = big.Int

// fmtStr formats as its text under every verb.
type fmtStr string

func (s fmtStr) Format(f fmt.State, c rune) {
	if c == 'q' {
		fmt.Fprintf(f, "%q", string(s))
		return
	}
	if w, ok := f.Width(); ok {
		if f.Flag('-') {
			fmt.Fprintf(f, "%-*s", w, string(s))
		} else {
			fmt.Fprintf(f, "%*s", w, string(s))
		}
		return
	}
	f.Write([]byte(s))
}

// nativeFmtArg converts an interface-typed interpreter value to something the
// native fmt package renders like the real program would.
func (i *interpreter) nativeFmtArg(v value) interface{} {
	itf, ok := v.(iface)
	if !ok {
		return i.nativeFmtVal(nil, v)
	}
	if itf.t == nil {
		return nil
	}
	return i.nativeFmtVal(itf.t, itf.v)
}

func (i *interpreter) nativeFmtVal(t types.Type, v value) interface{} {
	switch x := v.(type) {
	case symInt:
		return fmtStr(i.x.decMarker(x.t))
	case symBool:
		return fmtStr(symMarker + x.t.String() + symMarkerEnd)
	case symFloat:
		return fmtStr(symMarker + x.t.String() + symMarkerEnd)
	}
	if t != nil {
		// error / Stringer first (as fmt does), by interpreting the method
		if hasMethod(i, t, "Error") || hasMethod(i, t, "String") {
			if p, ok := v.(*value); ok && p == nil {
				if _, isPtr := t.Underlying().(*types.Pointer); isPtr {
					return fmtStr("<nil>")
				}
			}
			if s, ok := i.tryErrorString(iface{t, v}); ok {
				return fmtStr(s)
			}
		}
		if isBigIntStruct(t) {
			return i.bigFmt(bigOf(v.(structure)))
		}
		if pt, ok := t.Underlying().(*types.Pointer); ok && isBigIntStruct(pt.Elem()) {
			p := v.(*value)
			if p == nil {
				return fmtStr("<nil>")
			}
			return i.bigFmt(bigOf((*p).(structure)))
		}
	}
	switch x := v.(type) {
	case bool, int, int8, int16, int32, int64, uint, uint8, uint16, uint32, uint64, uintptr, float32, float64, string, complex64, complex128:
		return x
	case []value:
		if t != nil {
			if st, ok := t.Underlying().(*types.Slice); ok {
				if b, ok := st.Elem().Underlying().(*types.Basic); ok && b.Kind() == types.Uint8 {
					if bl := blobOf(x); bl != nil {
						return fmtStr(symMarker + "blob" + symMarkerEnd)
					}
					allc := true
					for _, e := range x {
						if _, ok := e.(byte); !ok {
							allc = false
						}
					}
					if allc {
						return concreteBytes(x, "fmt")
					}
				}
				out := make([]interface{}, len(x))
				for k, e := range x {
					out[k] = i.nativeFmtVal(st.Elem(), e)
				}
				return out
			}
		}
		out := make([]interface{}, len(x))
		for k, e := range x {
			out[k] = i.nativeFmtVal(nil, e)
		}
		return out
	case iface:
		return i.nativeFmtArg(x)
	case *value:
		if x == nil {
			return fmtStr("<nil>")
		}
		return fmtStr(fmt.Sprintf("0xc%09x", ptrID(x)))
	case structure:
		if t != nil {
			if st, ok := t.Underlying().(*types.Struct); ok {
				var parts []string
				for k := 0; k < st.NumFields(); k++ {
					parts = append(parts, fmt.Sprint(i.nativeFmtVal(st.Field(k).Type(), x[k])))
				}
				return fmtStr("{" + strings.Join(parts, " ") + "}")
			}
		}
		return fmtStr(toString(x))
	case array:
		if t != nil {
			if at, ok := t.Underlying().(*types.Array); ok {
				if b, ok := at.Elem().Underlying().(*types.Basic); ok && b.Kind() == types.Uint8 {
					bs := make([]byte, len(x))
					okc := true
					for k, e := range x {
						c, ok := e.(byte)
						if !ok {
							okc = false
							break
						}
						bs[k] = c
					}
					if okc {
						// an array of bytes prints like a slice of numbers under %v, as hex under %x
						return byteArray(bs)
					}
				}
			}
		}
		return fmtStr(toString(x))
	}
	return fmtStr(toString(v))
}

type byteArray []byte

func (b byteArray) Format(f fmt.State, c rune) {
	switch c {
	case 'x':
		fmt.Fprintf(f, "%x", []byte(b))
	case 'X':
		fmt.Fprintf(f, "%X", []byte(b))
	case 's':
		f.Write(b)
	default:
		fmt.Fprintf(f, "%v", []byte(b))
	}
}

func ptrID(p *value) uintptr { return uintptrOf(p) }

func hasMethod(i *interpreter, t types.Type, name string) bool {
	ms := i.prog.MethodSets.MethodSet(t)
	for k := 0; k < ms.Len(); k++ {
		sel := ms.At(k)
		if sel.Obj().Name() != name {
			continue
		}
		sig := sel.Type().(*types.Signature)
		if sig.Params().Len() == 0 && sig.Results().Len() == 1 {
			if b, ok := sig.Results().At(0).Type().Underlying().(*types.Basic); ok && b.Kind() == types.String {
				return true
			}
		}
	}
	return false
}

func (i *interpreter) fmtArgs(v value) []interface{} {
	sl, _ := v.([]value)
	out := make([]interface{}, len(sl))
	for k, a := range sl {
		out[k] = i.nativeFmtArg(a)
	}
	return out
}

func extSprintf(fr *frame, args []value) value {
	return fmt.Sprintf(args[0].(string), fr.i.fmtArgs(args[1])...)
}

func extSprint(fr *frame, args []value) value {
	return fmt.Sprint(fr.i.fmtArgs(args[0])...)
}

func extSprintln(fr *frame, args []value) value {
	return fmt.Sprintln(fr.i.fmtArgs(args[0])...)
}

func extErrorf(fr *frame, args []value) value {
	format := args[0].(string)
	msg := fmt.Sprintf(strings.ReplaceAll(format, "%w", "%v"), fr.i.fmtArgs(args[1])...)
	return fr.i.makeError(msg)
}
