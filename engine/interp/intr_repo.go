package interp

import (
	"fmt"
	"go/types"
	"net/url"
	"regexp"

	"gosym/sym"
)

// Intrinsics for functions of the repository itself and of its direct
// environment (logging, clocks, ids). Each one is an explicit stub.

func init() {
	const logp = "github.com/Oneledger/protocol/log"
	for k, v := range map[string]externalFn{
		logp + ".newSyncWriter": func(fr *frame, args []value) value { return args[0] },
		"(*" + logp + ".Logger).fprintln": func(fr *frame, args []value) value {
			fr.i.x.stub("log.Logger output (no-op; Fatal still exits)")
			return nil
		},
		"(*" + logp + ".Logger).fprintf": func(fr *frame, args []value) value {
			fr.i.x.stub("log.Logger output (no-op; Fatal still exits)")
			return nil
		},
		"(*" + logp + ".Logger).Dump":                               extNop,
		"github.com/davecgh/go-spew/spew.Fdump":                     extNop,
		"github.com/tendermint/go-amino.NewCodec":                   func(fr *frame, args []value) value { return (*value)(nil) },
		"github.com/Oneledger/protocol/serialize.RegisterConcrete":  extNop,
		"github.com/Oneledger/protocol/serialize.RegisterInterface": extNop,
		"github.com/Oneledger/protocol/serialize.msgpackRegConc":    extNop,
		// balance.Amount's JSON form is the decimal text of the integer; the pair
		// below is the blob-model rendering of that custom marshaller (identity
		// round trip on the integer), used when repo code calls it directly
		"(github.com/Oneledger/protocol/data/balance.Amount).MarshalJSON": func(fr *frame, args []value) value {
			fr.i.x.stub("balance.Amount.MarshalJSON/UnmarshalJSON (scalar blob, identity round trip)")
			t := fr.fn.Signature.Recv().Type()
			return tuple{fr.i.newBlob(t, fr.i.deepCopyAll(t, args[0])), iface{}}
		},
		"(*github.com/Oneledger/protocol/data/balance.Amount).UnmarshalJSON": func(fr *frame, args []value) value {
			data, _ := args[1].([]value)
			b := blobOf(data)
			if b == nil || !isBigIntStruct(b.t) {
				return declined{}
			}
			p := args[0].(*value)
			if p == nil {
				panic(nilDeref())
			}
			store(b.t, p, fr.i.deepCopyAll(b.t, b.v))
			return iface{}
		},
		// handlePanic() recovers a panic in an ABCI call and then closes the
		// application (databases, wallet, RPC, job bus): the node stops serving.
		// Modelled as a halt outcome carrying the recovered panic.
		"(*github.com/Oneledger/protocol/app.context).Close": func(fr *frame, args []value) value {
			fr.i.x.stub("app.context.Close (halt outcome: application closed after a recovered panic)")
			msg := "application closed"
			if n := len(fr.i.x.recovered); n > 0 {
				msg += " after recovered panic: " + fr.i.x.recovered[n-1]
			}
			fr.i.x.haltMsg = msg
			if fr.i.x.panicSite == "" {
				fr.i.x.panicSite = fr.i.x.lastRecoverSite
			}
			panic(exitPanic(70))
		},
		"reflect.TypeOf":   func(fr *frame, args []value) value { return iface{} },
		"time.runtimeNano": func(fr *frame, args []value) value { return int64(1) },
		"time.now":         func(fr *frame, args []value) value { return tuple{int64(0), int32(0), int64(0)} },
		"time.Now": func(fr *frame, args []value) value {
			fr.i.x.stub("time.Now (environment: fixed zero instant; must not reach consensus outputs)")
			return zero(fr.fn.Signature.Results().At(0).Type())
		},
	} {
		externals[k] = v
	}
}

// ---- Tendermint BlockStore (block header times) ----

type blockTimes struct{ unix map[int64]value }

func init() {
	const tmstore = "github.com/tendermint/tendermint/store"
	externals["github.com/Oneledger/protocol/zz_sv.BlockStore"] = func(fr *frame, args []value) value {
		fr.i.x.stub("tendermint BlockStore.LoadBlockMeta (header times supplied by the harness)")
		hs, _ := args[0].([]value)
		us, _ := args[1].([]value)
		bt := &blockTimes{unix: map[int64]value{}}
		for k := range hs {
			bt.unix[asInt64(hs[k])] = us[k]
		}
		pkg := fr.i.prog.ImportedPackage(tmstore)
		c := zero(pkg.Type("BlockStore").Type())
		p := &c
		fr.i.side[p] = bt
		return p
	}
	externals["(*"+tmstore+".BlockStore).LoadBlockMeta"] = func(fr *frame, args []value) value {
		p, _ := args[0].(*value)
		if p == nil {
			panic(nilDeref())
		}
		bt, ok := fr.i.side[p].(*blockTimes)
		if !ok {
			panic(abortPath{"BlockStore not created by sv.BlockStore"})
		}
		h := fr.i.concreteInt64(args[1], "LoadBlockMeta height")
		u, ok := bt.unix[h]
		if !ok {
			return (*value)(nil)
		}
		mt := fr.fn.Signature.Results().At(0).Type() // *types.BlockMeta
		meta := zero(mustDeref(mt)).(structure)
		// Header is field 2; Header.Time is field 3 of Header (Version, ChainID, Height, Time, ...)
		hdr := meta[2].(structure)
		hst := mustDeref(mt).Underlying().(*types.Struct).Field(2).Type().Underlying().(*types.Struct)
		for k := 0; k < hst.NumFields(); k++ {
			switch hst.Field(k).Name() {
			case "Height":
				hdr[k] = h
			case "Time":
				// time.Time{wall: 0, ext: unix + 62135596800 (seconds since year 1), loc: nil (UTC)}
				ut, _, _ := intTerm(u)
				hdr[k] = structure{uint64(0), mkInt(sym.Add(ut, sym.Int64(62135596800)), types.Int64), (*value)(nil)}
			}
		}
		var cell value = meta
		return &cell
	}
}

// ---- regexp and net/url: native on concrete text ----

func init() {
	externals["regexp.MustCompile"] = func(fr *frame, args []value) value {
		re := regexp.MustCompile(args[0].(string))
		c := zero(mustDeref(fr.fn.Signature.Results().At(0).Type()))
		p := &c
		fr.i.side[p] = re
		return p
	}
	externals["regexp.Compile"] = func(fr *frame, args []value) value {
		re, err := regexp.Compile(args[0].(string))
		if err != nil {
			return tuple{(*value)(nil), fr.i.makeError(err.Error())}
		}
		c := zero(mustDeref(fr.fn.Signature.Results().At(0).Type()))
		p := &c
		fr.i.side[p] = re
		return tuple{p, iface{}}
	}
	reOf := func(fr *frame, v value) *regexp.Regexp {
		p, _ := v.(*value)
		if p == nil {
			panic(nilDeref())
		}
		re, ok := fr.i.side[p].(*regexp.Regexp)
		if !ok {
			panic(abortPath{"regexp object not created by the Compile intrinsic"})
		}
		return re
	}
	externals["(*regexp.Regexp).Match"] = func(fr *frame, args []value) value {
		return reOf(fr, args[0]).Match(concreteBytes(args[1].([]value), "regexp input"))
	}
	externals["(*regexp.Regexp).MatchString"] = func(fr *frame, args []value) value {
		s := args[1].(string)
		if hasSymMarker(s) {
			panic(abortPath{"regexp on a symbolic string"})
		}
		return reOf(fr, args[0]).MatchString(s)
	}
	externals["net/url.Parse"] = func(fr *frame, args []value) value {
		s := args[0].(string)
		u, err := url.Parse(s)
		rt := fr.fn.Signature.Results().At(0).Type() // *url.URL
		if err != nil {
			return tuple{(*value)(nil), fr.i.makeError(err.Error())}
		}
		st := mustDeref(rt).Underlying().(*types.Struct)
		c := zero(mustDeref(rt)).(structure)
		for k := 0; k < st.NumFields(); k++ {
			switch st.Field(k).Name() {
			case "Scheme":
				c[k] = u.Scheme
			case "Host":
				c[k] = u.Host
			case "Path":
				c[k] = u.Path
			case "Opaque":
				c[k] = u.Opaque
			case "RawQuery":
				c[k] = u.RawQuery
			case "Fragment":
				c[k] = u.Fragment
			}
		}
		var cell value = c
		return tuple{&cell, iface{}}
	}
}

// uuid.NewUUID / uuid.New: an environment value that differs on every call (and
// therefore between replicas): consensus results must not depend on it.
func init() {
	const u = "github.com/google/uuid"
	fresh := func(fr *frame) array {
		fr.i.x.stub("uuid.NewUUID / uuid.New (environment: a different value on every call)")
		fr.i.x.uniq++
		n := fr.i.x.uniq
		out := make(array, 16)
		for k := range out {
			out[k] = uint8(0)
		}
		out[0], out[1], out[14], out[15] = uint8(0xee), uint8(0x1d), uint8(n>>8), uint8(n)
		return out
	}
	externals[u+".NewUUID"] = func(fr *frame, args []value) value { return tuple{fresh(fr), iface{}} }
	externals[u+".New"] = func(fr *frame, args []value) value { return fresh(fr) }
	externals[u+".NewRandom"] = func(fr *frame, args []value) value { return tuple{fresh(fr), iface{}} }
	// go-cmp's Equal on two strings (the only use in the repository)
	externals["github.com/google/go-cmp/cmp.Equal"] = func(fr *frame, args []value) value {
		a, aok := args[0].(iface)
		b, bok := args[1].(iface)
		if aok && bok {
			as, ok1 := a.v.(string)
			bs, ok2 := b.v.(string)
			if ok1 && ok2 && !hasSymMarker(as) && !hasSymMarker(bs) {
				return as == bs
			}
		}
		panic(abortPath{"cmp.Equal on values other than concrete strings"})
	}
	externals["("+u+".UUID).String"] = func(fr *frame, args []value) value {
		a := args[0].(array)
		b := make([]byte, 16)
		for k := range a {
			b[k], _ = a[k].(uint8)
		}
		return fmt.Sprintf("%x-%x-%x-%x-%x", b[0:4], b[4:6], b[6:8], b[8:10], b[10:16])
	}
}

// reflect.DeepEqual: structural equality with Go's rules for nil versus empty
// slices and maps (nilShapeDiffers), then the content comparison of deepEqTerm.
func nilShapeDiffers(a, b value, depth int) bool {
	if depth > 60 {
		return false
	}
	switch x := a.(type) {
	case []value:
		y, ok := b.([]value)
		if !ok {
			return false
		}
		if (x == nil) != (y == nil) {
			return true
		}
		if blobOf(x) != nil || blobOf(y) != nil || sigOf(x) != nil || sigOf(y) != nil || len(x) != len(y) {
			return false
		}
		for k := range x {
			if nilShapeDiffers(x[k], y[k], depth+1) {
				return true
			}
		}
	case structure:
		if y, ok := b.(structure); ok && len(x) == len(y) {
			for k := range x {
				if nilShapeDiffers(x[k], y[k], depth+1) {
					return true
				}
			}
		}
	case array:
		if y, ok := b.(array); ok && len(x) == len(y) {
			for k := range x {
				if nilShapeDiffers(x[k], y[k], depth+1) {
					return true
				}
			}
		}
	case *value:
		if y, ok := b.(*value); ok && x != nil && y != nil && x != y {
			return nilShapeDiffers(*x, *y, depth+1)
		}
	case *omap:
		if y, ok := b.(*omap); ok {
			if (x == nil) != (y == nil) {
				return true
			}
		}
	case iface:
		if y, ok := b.(iface); ok && x.t != nil && y.t != nil {
			return nilShapeDiffers(x.v, y.v, depth+1)
		}
	}
	return false
}

func init() {
	externals["reflect.DeepEqual"] = func(fr *frame, args []value) value {
		fr.i.x.stub("reflect.DeepEqual (structural equality of interpreter values, nil and empty slices distinguished)")
		if nilShapeDiffers(args[0], args[1], 0) {
			return false
		}
		return mkBool(deepEqTerm(args[0], args[1], 0))
	}
}
