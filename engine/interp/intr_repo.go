package interp

// Intrinsics for functions of the repository itself and of its direct
// environment (logging, clocks, ids). Each one is an explicit stub.

func init() {
	const logp = "github.com/Oneledger/protocol/log"
	for k, v := range map[string]externalFn{
		logp + ".newSyncWriter":      func(fr *frame, args []value) value { return args[0] },
		"(*" + logp + ".Logger).fprintln": func(fr *frame, args []value) value { fr.i.x.stub("log.Logger output (no-op; Fatal still exits)"); return nil },
		"(*" + logp + ".Logger).fprintf":  func(fr *frame, args []value) value { fr.i.x.stub("log.Logger output (no-op; Fatal still exits)"); return nil },
		"(*" + logp + ".Logger).Dump":     extNop,
		"github.com/davecgh/go-spew/spew.Fdump": extNop,
		"github.com/tendermint/go-amino.NewCodec":                  func(fr *frame, args []value) value { return (*value)(nil) },
		"github.com/Oneledger/protocol/serialize.RegisterConcrete":  extNop,
		"github.com/Oneledger/protocol/serialize.RegisterInterface": extNop,
		"github.com/Oneledger/protocol/serialize.msgpackRegConc":    extNop,
		"time.Now": func(fr *frame, args []value) value {
			fr.i.x.stub("time.Now (environment: fixed zero instant; must not reach consensus outputs)")
			return zero(fr.fn.Signature.Results().At(0).Type())
		},
	} {
		externals[k] = v
	}
}
