package interp

// Intrinsics for functions of the repository itself and of its direct
// environment (logging, clocks, ids). Each one is an explicit stub.

func init() {
	const logp = "github.com/Oneledger/protocol/log"
	for k, v := range map[string]externalFn{
		logp + ".newSyncWriter":      func(fr *frame, args []value) value { return args[0] },
		"(*" + logp + ".Logger).fprintln": func(fr *frame, args []value) value { fr.i.x.stub("log.Logger output (no-op; Fatal still exits)"); return nil },
		"(*" + logp + ".Logger).fprintf":  func(fr *frame, args []value) value { fr.i.x.stub("log.Logger output (no-op; Fatal still exits)"); return nil },
		"(*" + logp + ".Logger).Dump":     extNop,
		"github.com/davecgh/go-spew/spew.Fdump": extNop,
		"github.com/tendermint/go-amino.NewCodec":                  func(fr *frame, args []value) value { return (*value)(nil) },
		"github.com/Oneledger/protocol/serialize.RegisterConcrete":  extNop,
		"github.com/Oneledger/protocol/serialize.RegisterInterface": extNop,
		"github.com/Oneledger/protocol/serialize.msgpackRegConc":    extNop,
		// balance.Amount's JSON form is the decimal text of the integer; the pair
		// below is the blob-model rendering of that custom marshaller (identity
		// round trip on the integer), used when repo code calls it directly
		"(github.com/Oneledger/protocol/data/balance.Amount).MarshalJSON": func(fr *frame, args []value) value {
			fr.i.x.stub("balance.Amount.MarshalJSON/UnmarshalJSON (scalar blob, identity round trip)")
			t := fr.fn.Signature.Recv().Type()
			return tuple{fr.i.newBlob(t, fr.i.deepCopyAll(t, args[0])), iface{}}
		},
		"(*github.com/Oneledger/protocol/data/balance.Amount).UnmarshalJSON": func(fr *frame, args []value) value {
			data, _ := args[1].([]value)
			b := blobOf(data)
			if b == nil || !isBigIntStruct(b.t) {
				return declined{}
			}
			p := args[0].(*value)
			if p == nil {
				panic(nilDeref())
			}
			store(b.t, p, fr.i.deepCopyAll(b.t, b.v))
			return iface{}
		},
		// handlePanic() recovers a panic in an ABCI call and then closes the
		// application (databases, wallet, RPC, job bus): the node stops serving.
		// Modelled as a halt outcome carrying the recovered panic.
		"(*github.com/Oneledger/protocol/app.context).Close": func(fr *frame, args []value) value {
			fr.i.x.stub("app.context.Close (halt outcome: application closed after a recovered panic)")
			msg := "application closed"
			if n := len(fr.i.x.recovered); n > 0 {
				msg += " after recovered panic: " + fr.i.x.recovered[n-1]
			}
			fr.i.x.haltMsg = msg
			if fr.i.x.panicSite == "" {
				fr.i.x.panicSite = fr.i.x.lastRecoverSite
			}
			panic(exitPanic(70))
		},
		"reflect.TypeOf": func(fr *frame, args []value) value { return iface{} },
		"time.Now": func(fr *frame, args []value) value {
			fr.i.x.stub("time.Now (environment: fixed zero instant; must not reach consensus outputs)")
			return zero(fr.fn.Signature.Results().At(0).Type())
		},
	} {
		externals[k] = v
	}
}
