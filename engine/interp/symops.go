package interp

import (
	"fmt"
	"go/token"
	"go/types"
	"math/big"

	"golang.org/x/tools/go/ssa"

	"gosym/sym"
)

func mustDeref(t types.Type) types.Type {
	if p, ok := types.Unalias(t).Underlying().(*types.Pointer); ok {
		return p.Elem()
	}
	if p, ok := coreType(t).(*types.Pointer); ok {
		return p.Elem()
	}
	panic(fmt.Sprintf("mustDeref: %v is not a pointer", t))
}

func coreType(t types.Type) types.Type {
	return t.Underlying()
}

// symBinop implements binary operators when an operand is symbolic.
func symBinop(i *interpreter, op token.Token, t types.Type, x, y value) value {
	// booleans
	if _, ok := x.(symBool); ok || isBoolV(x) && isBoolV(y) {
		a, b := boolTerm(x), boolTerm(y)
		switch op {
		case token.EQL:
			return mkBool(sym.Eq(a, b))
		case token.NEQ:
			return mkBool(sym.Not(sym.Eq(a, b)))
		case token.AND, token.LAND:
			return mkBool(sym.And(a, b))
		case token.OR, token.LOR:
			return mkBool(sym.Or(a, b))
		}
		panic(abortPath{fmt.Sprintf("symbolic bool op %s", op)})
	}
	if fa, fk, ok := floatTerm(x); ok {
		fb, _, ok2 := floatTerm(y)
		if !ok2 {
			panic(abortPath{fmt.Sprintf("symbolic float op %s on %T,%T", op, x, y)})
		}
		switch op {
		case token.ADD:
			return symFloat{sym.Add(fa, fb), fk}
		case token.SUB:
			return symFloat{sym.Sub(fa, fb), fk}
		case token.MUL:
			return symFloat{sym.Mul(fa, fb), fk}
		case token.QUO:
			i.x.floatEvent("float division", sym.Eq(fb, sym.Rat(new(big.Rat))))
			return symFloat{sym.RDiv(fa, fb), fk}
		case token.EQL:
			return mkBool(sym.Eq(fa, fb))
		case token.NEQ:
			return mkBool(sym.Ne(fa, fb))
		case token.LSS:
			return mkBool(sym.Lt(fa, fb))
		case token.LEQ:
			return mkBool(sym.Le(fa, fb))
		case token.GTR:
			return mkBool(sym.Gt(fa, fb))
		case token.GEQ:
			return mkBool(sym.Ge(fa, fb))
		}
		panic(abortPath{fmt.Sprintf("symbolic float op %s", op)})
	}
	a, ka, ok1 := intTerm(x)
	b, kb, ok2 := intTerm(y)
	if !ok1 || !ok2 {
		panic(abortPath{fmt.Sprintf("symbolic binop %s on %T, %T", op, x, y)})
	}
	k := ka
	if _, isSym := x.(symInt); !isSym && op != token.SHL && op != token.SHR {
		k = kb
		if _, ysym := y.(symInt); !ysym {
			k = ka
		}
	}
	if bk, ok := basicKind(t); ok && isIntKind(bk) && op != token.SHL && op != token.SHR {
		if bk != types.UntypedInt && bk != types.UntypedRune {
			k = bk
		}
	}
	switch op {
	case token.ADD:
		return wrapInt(sym.Add(a, b), k)
	case token.SUB:
		return wrapInt(sym.Sub(a, b), k)
	case token.MUL:
		return wrapInt(sym.Mul(a, b), k)
	case token.QUO:
		i.x.panicIf(sym.Eq(b, sym.Int64(0)), "runtime error: integer divide by zero")
		return wrapInt(sym.TDiv(a, b), k)
	case token.REM:
		i.x.panicIf(sym.Eq(b, sym.Int64(0)), "runtime error: integer divide by zero")
		return wrapInt(sym.TRem(a, b), k)
	case token.EQL:
		return mkBool(sym.Eq(a, b))
	case token.NEQ:
		return mkBool(sym.Ne(a, b))
	case token.LSS:
		return mkBool(sym.Lt(a, b))
	case token.LEQ:
		return mkBool(sym.Le(a, b))
	case token.GTR:
		return mkBool(sym.Gt(a, b))
	case token.GEQ:
		return mkBool(sym.Ge(a, b))
	case token.SHL:
		if b.IsConst() {
			if b.Val.Sign() < 0 {
				panic(targetPanic{"runtime error: negative shift amount"})
			}
			n := uint(b.Val.Uint64())
			bits, _ := kindBits(ka)
			if n >= bits {
				return concreteInt(new(big.Int), ka)
			}
			return wrapInt(sym.Mul(a, sym.Int(sym.Pow2(n))), ka)
		}
	case token.SHR:
		if b.IsConst() {
			if b.Val.Sign() < 0 {
				panic(targetPanic{"runtime error: negative shift amount"})
			}
			n := uint(b.Val.Uint64())
			bits, signed := kindBits(ka)
			if n >= bits {
				if signed {
					return mkInt(sym.Ite(sym.Lt(a, sym.Int64(0)), sym.Int64(-1), sym.Int64(0)), ka)
				}
				return concreteInt(new(big.Int), ka)
			}
			// floor division by 2^n is arithmetic shift for signed, logical for unsigned
			return mkInt(sym.EDiv(a, sym.Int(sym.Pow2(n))), ka)
		}
	case token.AND:
		// x & (2^n - 1) with constant mask
		if b.IsConst() && b.Val.Sign() >= 0 {
			m := new(big.Int).Add(b.Val, big.NewInt(1))
			if m.BitLen() > 0 && new(big.Int).And(m, b.Val).Sign() == 0 {
				return mkInt(sym.EMod(a, sym.Int(m)), k)
			}
		}
		if a.IsConst() && a.Val.Sign() >= 0 {
			m := new(big.Int).Add(a.Val, big.NewInt(1))
			if new(big.Int).And(m, a.Val).Sign() == 0 {
				return mkInt(sym.EMod(b, sym.Int(m)), k)
			}
		}
	}
	panic(abortPath{fmt.Sprintf("unsupported symbolic integer op %s (bit-level operation on a symbolic operand)", op)})
}

func isBoolV(v value) bool {
	switch v.(type) {
	case bool, symBool:
		return true
	}
	return false
}

func symUnop(i *interpreter, instr *ssa.UnOp, x value) value {
	switch x := x.(type) {
	case symBool:
		if instr.Op == token.NOT {
			return mkBool(sym.Not(x.t))
		}
	case symInt:
		switch instr.Op {
		case token.SUB:
			return wrapInt(sym.Neg(x.t), x.k)
		case token.XOR:
			// ^x = -x-1 (signed) ; 2^n-1-x (unsigned)
			bits, signed := kindBits(x.k)
			if signed {
				return wrapInt(sym.Sub(sym.Neg(x.t), sym.Int64(1)), x.k)
			}
			return mkInt(sym.Sub(sym.Int(new(big.Int).Sub(sym.Pow2(bits), big.NewInt(1))), x.t), x.k)
		}
	case symFloat:
		if instr.Op == token.SUB {
			return symFloat{sym.Neg(x.t), x.k}
		}
	}
	panic(abortPath{fmt.Sprintf("unsupported symbolic unary op %s on %T", instr.Op, x)})
}

// symConv converts a symbolic scalar between basic types.
func symConv(i *interpreter, ut_dst, ut_src types.Type, x value) value {
	db, ok := ut_dst.(*types.Basic)
	if !ok {
		panic(abortPath{fmt.Sprintf("conversion of symbolic %T to %s", x, ut_dst)})
	}
	switch x := x.(type) {
	case symBool:
		if db.Kind() == types.Bool {
			return x
		}
	case symInt:
		switch {
		case isIntKind(db.Kind()):
			return wrapInt(x.t, db.Kind())
		case db.Kind() == types.Float64 || db.Kind() == types.Float32:
			// exact while |x| < 2^53; recorded as a magnitude assumption
			i.x.floatAssume("int->float exact (|x| < 2^53)", sym.And(sym.Lt(sym.Int(new(big.Int).Neg(sym.Pow2(53))), x.t), sym.Lt(x.t, sym.Int(sym.Pow2(53)))))
			return symFloat{sym.ToReal(x.t), db.Kind()}
		case db.Kind() == types.String:
			panic(abortPath{"string(symbolic integer)"})
		}
	case symFloat:
		switch {
		case db.Kind() == types.Float64 || db.Kind() == types.Float32:
			return symFloat{x.t, db.Kind()}
		case isIntKind(db.Kind()):
			// Go truncates toward zero; out-of-range is implementation-defined
			bits, signed := kindBits(db.Kind())
			zero := sym.Rat(new(big.Rat))
			tr := sym.Ite(sym.Le(zero, x.t), sym.ToInt(x.t), sym.Neg(sym.ToInt(sym.Neg(x.t))))
			i.x.floatEvent("float->int out of range", sym.Not(sym.InRange(tr, bits, signed)))
			return wrapInt(tr, db.Kind())
		}
	}
	panic(abortPath{fmt.Sprintf("conversion of symbolic %T to %s", x, ut_dst)})
}

// concreteBytes extracts concrete bytes from a []byte value.
func concreteBytes(x []value, what string) []byte {
	b := make([]byte, len(x))
	for i := range x {
		c, ok := x[i].(byte)
		if !ok {
			panic(abortPath{fmt.Sprintf("%s needs concrete bytes, got %T", what, x[i])})
		}
		b[i] = c
	}
	return b
}

func bytesValue(b []byte) []value {
	if b == nil {
		return []value(nil)
	}
	out := make([]value, len(b))
	for i, c := range b {
		out[i] = c
	}
	return out
}
