package interp

// Intrinsics: functions answered by the engine instead of being interpreted
// from their SSA form. Every intrinsic that models an environment boundary is
// recorded as a stub (x.stub) and listed in the evidence.

import (
	"bytes"
	"encoding/base64"
	"encoding/hex"
	"fmt"
	"go/types"
	"math"
	"reflect"
	"sort"
	"strconv"
	"strings"
	"unicode"
	"unicode/utf8"

	"golang.org/x/tools/go/ssa"

	"gosym/sym"
)

type externalFn func(fr *frame, args []value) value

// Key strings are from Function.String().
var externals = make(map[string]externalFn)

// natives are pure standard-library functions called natively when all their
// arguments are concrete (they are deterministic functions of their inputs, so
// running them natively is the same as interpreting their source).
var natives = map[string]interface{}{
	"strings.HasPrefix": strings.HasPrefix, "strings.HasSuffix": strings.HasSuffix, "strings.Contains": strings.Contains,
	"strings.Index": strings.Index, "strings.IndexByte": strings.IndexByte, "strings.LastIndex": strings.LastIndex,
	"strings.Split": strings.Split, "strings.SplitN": strings.SplitN, "strings.Join": strings.Join, "strings.Repeat": strings.Repeat,
	"strings.ToLower": strings.ToLower, "strings.ToUpper": strings.ToUpper, "strings.TrimSpace": strings.TrimSpace,
	"strings.Trim": strings.Trim, "strings.TrimPrefix": strings.TrimPrefix, "strings.TrimSuffix": strings.TrimSuffix,
	"strings.TrimLeft": strings.TrimLeft, "strings.TrimRight": strings.TrimRight, "strings.Replace": strings.Replace,
	"strings.ReplaceAll": strings.ReplaceAll, "strings.EqualFold": strings.EqualFold, "strings.Count": strings.Count,
	"strings.Fields": strings.Fields, "strings.Compare": strings.Compare, "strings.Title": strings.Title,
	"strings.ContainsRune": strings.ContainsRune, "strings.ContainsAny": strings.ContainsAny, "strings.IndexRune": strings.IndexRune,
	"strings.IndexAny": strings.IndexAny, "strings.LastIndexByte": strings.LastIndexByte,
	"bytes.HasPrefix": bytes.HasPrefix, "bytes.HasSuffix": bytes.HasSuffix, "bytes.Compare": bytes.Compare,
	"bytes.Contains": bytes.Contains, "bytes.Index": bytes.Index, "bytes.IndexByte": bytes.IndexByte,
	"bytes.TrimSpace": bytes.TrimSpace, "bytes.ToLower": bytes.ToLower, "bytes.ToUpper": bytes.ToUpper,
	"bytes.TrimLeft": bytes.TrimLeft, "bytes.TrimRight": bytes.TrimRight, "bytes.Join": bytes.Join,
	"bytes.Repeat": bytes.Repeat, "bytes.TrimPrefix": bytes.TrimPrefix, "bytes.Count": bytes.Count,
	"strconv.Itoa": strconv.Itoa, "strconv.Atoi": strconv.Atoi, "strconv.FormatInt": strconv.FormatInt,
	"strconv.FormatUint": strconv.FormatUint, "strconv.ParseInt": strconv.ParseInt, "strconv.ParseUint": strconv.ParseUint,
	"strconv.Quote": strconv.Quote, "strconv.Unquote": strconv.Unquote, "strconv.FormatFloat": strconv.FormatFloat,
	"strconv.ParseFloat": strconv.ParseFloat, "strconv.ParseBool": strconv.ParseBool, "strconv.FormatBool": strconv.FormatBool,
	"strconv.AppendInt": strconv.AppendInt, "strconv.AppendQuote": strconv.AppendQuote,
	"encoding/hex.EncodeToString": hex.EncodeToString, "encoding/hex.DecodeString": hex.DecodeString,
	"encoding/hex.EncodedLen": hex.EncodedLen, "encoding/hex.DecodedLen": hex.DecodedLen,
	"unicode/utf8.RuneCountInString": utf8.RuneCountInString, "unicode/utf8.ValidString": utf8.ValidString,
	"unicode/utf8.RuneLen": utf8.RuneLen, "unicode/utf8.RuneCount": utf8.RuneCount, "unicode/utf8.Valid": utf8.Valid,
	"unicode.IsUpper": unicode.IsUpper, "unicode.IsLower": unicode.IsLower, "unicode.IsDigit": unicode.IsDigit,
	"unicode.IsLetter": unicode.IsLetter, "unicode.IsSpace": unicode.IsSpace, "unicode.ToLower": unicode.ToLower,
	"unicode.ToUpper": unicode.ToUpper,
	"math.Abs":        math.Abs, "math.Floor": math.Floor, "math.Ceil": math.Ceil, "math.Pow": math.Pow, "math.Sqrt": math.Sqrt,
	"math.Log": math.Log, "math.Exp": math.Exp, "math.Max": math.Max, "math.Min": math.Min, "math.Round": math.Round,
	"math.Trunc": math.Trunc, "math.IsNaN": math.IsNaN, "math.IsInf": math.IsInf, "math.Inf": math.Inf, "math.NaN": math.NaN,
	"math.Float64bits": math.Float64bits, "math.Float64frombits": math.Float64frombits, "math.Float32bits": math.Float32bits,
	"math.Float32frombits": math.Float32frombits, "math.Mod": math.Mod, "math.Log10": math.Log10, "math.Log2": math.Log2,
	"math.Ldexp": math.Ldexp, "math.Copysign": math.Copysign, "math.Signbit": math.Signbit,
	"sort.Strings":          sort.Strings,
	"sort.SearchStrings":    sort.SearchStrings,
	"sort.StringsAreSorted": sort.StringsAreSorted,
}

var errorIface = types.Universe.Lookup("error").Type()

// toNative converts an interpreter value to a reflect.Value of type rt.
func toNative(v value, rt reflect.Type) (reflect.Value, bool) {
	switch rt.Kind() {
	case reflect.Bool:
		if b, ok := v.(bool); ok {
			return reflect.ValueOf(b), true
		}
	case reflect.Int, reflect.Int8, reflect.Int16, reflect.Int32, reflect.Int64:
		if isSymbolic(v) {
			return reflect.Value{}, false
		}
		if _, _, ok := intTerm(v); ok {
			return reflect.ValueOf(asInt64(v)).Convert(rt), true
		}
	case reflect.Uint, reflect.Uint8, reflect.Uint16, reflect.Uint32, reflect.Uint64, reflect.Uintptr:
		if isSymbolic(v) {
			return reflect.Value{}, false
		}
		if _, _, ok := intTerm(v); ok {
			return reflect.ValueOf(uint64(asInt64(v))).Convert(rt), true
		}
	case reflect.Float64, reflect.Float32:
		switch f := v.(type) {
		case float64:
			return reflect.ValueOf(f).Convert(rt), true
		case float32:
			return reflect.ValueOf(f).Convert(rt), true
		}
	case reflect.String:
		if s, ok := v.(string); ok {
			// strings that embed an opaque marker are passed through: the
			// natives below treat them as text (markers are checked at the
			// sinks: keys, comparisons, number parsing)
			return reflect.ValueOf(s), true
		}
	case reflect.Slice:
		sl, ok := v.([]value)
		if !ok {
			return reflect.Value{}, false
		}
		if sl == nil {
			return reflect.Zero(rt), true
		}
		out := reflect.MakeSlice(rt, len(sl), len(sl))
		for i, e := range sl {
			ev, ok := toNative(e, rt.Elem())
			if !ok {
				return reflect.Value{}, false
			}
			out.Index(i).Set(ev)
		}
		return out, true
	}
	return reflect.Value{}, false
}

// fromNative converts a native result to an interpreter value of Go type t.
func (i *interpreter) fromNative(rv reflect.Value, t types.Type) value {
	if types.Identical(t, errorIface) {
		if rv.IsNil() {
			return iface{}
		}
		return i.makeError(rv.Interface().(error).Error())
	}
	switch u := t.Underlying().(type) {
	case *types.Basic:
		switch u.Kind() {
		case types.Bool:
			return rv.Bool()
		case types.String:
			return rv.String()
		case types.Float64:
			return rv.Float()
		case types.Float32:
			return float32(rv.Float())
		}
		if isIntKind(u.Kind()) {
			_, signed := kindBits(u.Kind())
			if signed {
				return concreteInt(new(bigInt).SetInt64(rv.Int()), u.Kind())
			}
			return concreteInt(new(bigInt).SetUint64(rv.Uint()), u.Kind())
		}
	case *types.Slice:
		if rv.IsNil() {
			return []value(nil)
		}
		out := make([]value, rv.Len())
		for k := range out {
			out[k] = i.fromNative(rv.Index(k), u.Elem())
		}
		return out
	}
	panic(abortPath{fmt.Sprintf("fromNative: unsupported result type %s", t)})
}

// makeError builds an *errors.errorString error value.
func (i *interpreter) makeError(msg string) value {
	if i.errString == nil {
		pkg := i.prog.ImportedPackage("errors")
		if pkg == nil {
			panic(abortPath{"package errors not loaded"})
		}
		i.errString = types.NewPointer(pkg.Type("errorString").Type())
	}
	var cell value = structure{msg}
	return iface{t: i.errString, v: &cell}
}

// tryErrorString calls Error() or String() on an interface value by
// interpretation.
func (i *interpreter) tryErrorString(v iface) (s string, ok bool) {
	if v.t == nil {
		return "<nil>", true
	}
	defer func() {
		if r := recover(); r != nil {
			if isControl(r) {
				if _, isAbort := r.(abortPath); !isAbort {
					panic(r)
				}
			}
			ok = false
		}
	}()
	for _, name := range []string{"Error", "String"} {
		ms := i.prog.MethodSets.MethodSet(v.t)
		for k := 0; k < ms.Len(); k++ {
			sel := ms.At(k)
			if sel.Obj().Name() != name {
				continue
			}
			sig := sel.Type().(*types.Signature)
			if sig.Params().Len() != 0 || sig.Results().Len() != 1 {
				continue
			}
			if b, ok := sig.Results().At(0).Type().Underlying().(*types.Basic); !ok || b.Kind() != types.String {
				continue
			}
			fn := i.prog.MethodValue(sel)
			if fn == nil {
				continue
			}
			r := call(i, nil, 0, fn, []value{v.v})
			if str, ok := r.(string); ok {
				return str, true
			}
		}
	}
	return "", false
}

// dynamicIntrinsic handles the native table and name-pattern intrinsics.
func dynamicIntrinsic(fr *frame, fn *ssa.Function, name string, args []value) (value, bool) {
	switch name {
	case "strconv.Itoa", "strconv.FormatInt", "strconv.FormatUint":
		if s, ok := args[0].(symInt); ok && (len(args) == 1 || asInt64(args[1]) == 10) {
			return fr.i.x.decMarker(s.t), true
		}
	case "strconv.ParseInt", "strconv.Atoi", "strconv.ParseUint":
		if str, ok := args[0].(string); ok && hasSymMarker(str) {
			panic(abortPath{"number parsing of a symbolic string"})
		}
	}
	if nf, ok := natives[name]; ok {
		rf := reflect.ValueOf(nf)
		rt := rf.Type()
		if rt.NumIn() == len(args) && !rt.IsVariadic() {
			in := make([]reflect.Value, len(args))
			okAll := true
			for k := range args {
				v, ok := toNative(args[k], rt.In(k))
				if !ok {
					okAll = false
					break
				}
				in[k] = v
			}
			if okAll {
				out := rf.Call(in)
				// in-place functions (sort.Strings): copy back slices
				for k := range args {
					if sl, ok := args[k].([]value); ok && in[k].Kind() == reflect.Slice {
						for j := range sl {
							sl[j] = fr.i.fromNative(in[k].Index(j), fn.Signature.Params().At(k).Type().Underlying().(*types.Slice).Elem())
						}
					}
				}
				res := fn.Signature.Results()
				switch res.Len() {
				case 0:
					return nil, true
				case 1:
					return fr.i.fromNative(out[0], res.At(0).Type()), true
				default:
					t := make(tuple, res.Len())
					for k := range t {
						t[k] = fr.i.fromNative(out[k], res.At(k).Type())
					}
					return t, true
				}
			}
		}
	}
	if fn.Pkg != nil {
		path := fn.Pkg.Pkg.Path()
		if strings.HasSuffix(path, "/zz_sv") {
			return svIntrinsic(fr, fn, args)
		}
		if (path == "github.com/gogo/protobuf/proto" || path == "github.com/golang/protobuf/proto") && strings.HasPrefix(fn.Name(), "Register") {
			return nil, true // protobuf registries are not consulted by the code under analysis
		}
		if path == "github.com/ethereum/go-ethereum/metrics" && strings.HasPrefix(fn.Name(), "NewRegistered") {
			// metrics are disabled (metrics.Enabled == false): the registered
			// meter is never used by the code under analysis
			return zero(fn.Signature.Results().At(0).Type()), true
		}
	}
	return nil, false
}

func init() {
	for k, v := range map[string]externalFn{
		"bytes.Equal": extBytesEqual,
		"os.Exit": func(fr *frame, args []value) value {
			// the site of an exit is the chain below the logger
			f := fr.caller
			for f != nil && strings.Contains(f.fn.String(), "/log.Logger") {
				f = f.caller
			}
			if f != nil {
				fr.i.x.panicSite = f.where()
			}
			panic(exitPanic(asInt64(args[0])))
		},
		"os.Getenv":                     extGetenv,
		"os.LookupEnv":                  func(fr *frame, args []value) value { fr.i.x.stub("os.LookupEnv"); return tuple{"", false} },
		"runtime.GC":                    extNop,
		"runtime.Gosched":               extNop,
		"runtime.KeepAlive":             extNop,
		"runtime.SetFinalizer":          extNop,
		"runtime/debug.PrintStack":      extNop,
		"runtime/debug.Stack":           func(fr *frame, args []value) value { return []value(nil) },
		"runtime.Callers":               func(fr *frame, args []value) value { return 0 },
		"runtime.Caller":                func(fr *frame, args []value) value { return tuple{uintptr(0), "", 0, false} },
		"time.Sleep":                    extNop,
		"(*sync.Mutex).Lock":            extNop,
		"(*sync.Mutex).Unlock":          extNop,
		"(*sync.Mutex).TryLock":         func(fr *frame, args []value) value { return true },
		"(*sync.RWMutex).Lock":          extNop,
		"(*sync.RWMutex).Unlock":        extNop,
		"(*sync.RWMutex).RLock":         extNop,
		"(*sync.RWMutex).RUnlock":       extNop,
		"(*sync.WaitGroup).Add":         extNop,
		"(*sync.WaitGroup).Done":        extNop,
		"(*sync.WaitGroup).Wait":        extNop,
		"(*sync.Once).Do":               extOnceDo,
		"(*sync.Pool).Get":              extPoolGet,
		"(*sync.Pool).Put":              extNop,
		"(*strings.Builder).String":     extBuilderString,
		"(*strings.Builder).copyCheck":  extNop,
		"strings.Clone":                 func(fr *frame, args []value) value { return args[0] },
		"fmt.Sprintf":                   extSprintf,
		"fmt.Sprint":                    extSprint,
		"fmt.Sprintln":                  extSprintln,
		"fmt.Errorf":                    extErrorf,
		"fmt.Println":                   extPrintNop,
		"fmt.Printf":                    extPrintNop,
		"fmt.Print":                     extPrintNop,
		"fmt.Fprintf":                   extPrintNop,
		"fmt.Fprintln":                  extPrintNop,
		"fmt.Fprint":                    extPrintNop,
		"github.com/pkg/errors.callers": func(fr *frame, args []value) value { return (*value)(nil) },
		"encoding/base64.StdEncoding.EncodeToString": nil,
		"sort.Slice":       extSortSlice,
		"sort.SliceStable": extSortSlice,
		"sort.Sort":        extSortSort,
		"sort.Stable":      extSortSort,
		"unicode/utf8.DecodeRuneInString": func(fr *frame, args []value) value {
			r, n := utf8.DecodeRuneInString(args[0].(string))
			return tuple{r, n}
		},
		"unicode/utf8.DecodeLastRuneInString": func(fr *frame, args []value) value {
			r, n := utf8.DecodeLastRuneInString(args[0].(string))
			return tuple{r, n}
		},
		"unicode/utf8.EncodeRune": nil,
		"internal/bytealg.IndexByteString": func(fr *frame, args []value) value {
			return strings.IndexByte(args[0].(string), args[1].(byte))
		},
		"internal/bytealg.IndexString": func(fr *frame, args []value) value {
			return strings.Index(args[0].(string), args[1].(string))
		},
		"internal/bytealg.CountString": func(fr *frame, args []value) value {
			return strings.Count(args[0].(string), string([]byte{args[1].(byte)}))
		},
		"internal/bytealg.IndexByte": func(fr *frame, args []value) value {
			return bytes.IndexByte(concreteBytes(args[0].([]value), "IndexByte"), args[1].(byte))
		},
		"internal/bytealg.MakeNoZero": func(fr *frame, args []value) value {
			n := asInt64(args[0])
			out := make([]value, n)
			for k := range out {
				out[k] = byte(0)
			}
			return out
		},
		"internal/stringslite.HasPrefix": nil,
	} {
		if v != nil {
			externals[k] = v
		}
	}
	_ = base64.StdEncoding
}

func extNop(fr *frame, args []value) value { return nil }

func extPrintNop(fr *frame, args []value) value {
	res := fr.fn.Signature.Results()
	if res.Len() == 2 {
		return tuple{0, iface{}}
	}
	return nil
}

func extGetenv(fr *frame, args []value) value {
	fr.i.x.stub("os.Getenv (environment: empty)")
	return ""
}

func extBytesEqual(fr *frame, args []value) value {
	a := args[0].([]value)
	b := args[1].([]value)
	ba, bb := blobOf(a), blobOf(b)
	if ba != nil || bb != nil {
		if ba != nil && bb != nil {
			if ba == bb {
				return true
			}
			// two serialised values: equal iff their contents are equal
			// (the encoder is a function of the content)
			return mkBool(deepEqTerm(a, b, 0))
		}
		// a blob is a JSON document: never equal to the tombstone or to
		// any non-JSON constant; compared with other concrete bytes it
		// is unknown.
		other := a
		if ba != nil {
			other = b
		}
		cb := concreteBytes(other, "bytes.Equal(blob, x)")
		if len(cb) == 0 || !(cb[0] == '{' || cb[0] == '[' || cb[0] == '"' || cb[0] == 'n' || cb[0] == 't' || cb[0] == 'f' || cb[0] == '-' || (cb[0] >= '0' && cb[0] <= '9')) {
			return false
		}
		panic(abortPath{"bytes.Equal between a blob and JSON-looking bytes"})
	}
	// signatures of the functional model: equal bytes iff same key and same
	// signed content (ed25519 signing is deterministic); never equal to bytes
	// that are not a signature
	if sa, sb := sigOf(a), sigOf(b); sa != nil || sb != nil {
		if sa == nil || sb == nil {
			return false
		}
		return mkBool(deepEqTerm(a, b, 0))
	}
	if len(a) != len(b) {
		return false
	}
	var cs []*sym.Term
	for k := range a {
		ta, _, ok1 := intTerm(a[k])
		tb, _, ok2 := intTerm(b[k])
		if !ok1 || !ok2 {
			panic(abortPath{fmt.Sprintf("bytes.Equal on %T/%T", a[k], b[k])})
		}
		cs = append(cs, sym.Eq(ta, tb))
	}
	return mkBool(sym.And(cs...))
}

func extOnceDo(fr *frame, args []value) value {
	p := args[0].(*value)
	if fr.i.onceDone[p] {
		return nil
	}
	fr.i.onceDone[p] = true
	call(fr.i, fr, 0, args[1], nil)
	return nil
}

func extPoolGet(fr *frame, args []value) value {
	p := args[0].(*value)
	st := (*p).(structure)
	// field "New" is the last field
	newFn := st[len(st)-1]
	if f, ok := newFn.(*ssa.Function); ok && f == nil {
		return iface{}
	}
	return call(fr.i, fr, 0, newFn, nil)
}

func extBuilderString(fr *frame, args []value) value {
	p := args[0].(*value)
	st := (*p).(structure)
	buf, _ := st[1].([]value)
	return string(concreteBytes(buf, "strings.Builder.String"))
}

// ---- sort ----

type sliceSorter struct {
	fr   *frame
	s    []value
	less value
}

func (s *sliceSorter) Len() int      { return len(s.s) }
func (s *sliceSorter) Swap(a, b int) { s.s[a], s.s[b] = s.s[b], s.s[a] }
func (s *sliceSorter) Less(a, b int) bool {
	r := call(s.fr.i, s.fr, 0, s.less, []value{a, b})
	switch c := r.(type) {
	case bool:
		return c
	case symBool:
		// ordering depends on symbolic data: fork
		return s.fr.i.x.branch(c.t)
	}
	panic(fmt.Sprintf("less returned %T", r))
}

func extSortSlice(fr *frame, args []value) value {
	// sort.Slice(x interface{}, less func(i, j int) bool)
	x := args[0].(iface)
	sl, ok := x.v.([]value)
	if !ok {
		panic(abortPath{"sort.Slice on non-slice"})
	}
	// insertion sort: deterministic sequence of comparisons, stable. The real
	// sort.Slice is not stable; when `less` is a strict total order the result
	// is the same (ties are reported by replay mismatch otherwise).
	ss := &sliceSorter{fr: fr, s: sl, less: args[1]}
	insertionSort(ss)
	return nil
}

type sortIface interface {
	Len() int
	Less(a, b int) bool
	Swap(a, b int)
}

func insertionSort(s sortIface) {
	n := s.Len()
	for a := 1; a < n; a++ {
		for b := a; b > 0 && s.Less(b, b-1); b-- {
			s.Swap(b, b-1)
		}
	}
}

type ifaceSorter struct {
	fr               *frame
	recv             iface
	lenF, lessF, swF *ssa.Function
}

func (s *ifaceSorter) Len() int {
	return int(asInt64(call(s.fr.i, s.fr, 0, s.lenF, []value{s.recv.v})))
}
func (s *ifaceSorter) Swap(a, b int) { call(s.fr.i, s.fr, 0, s.swF, []value{s.recv.v, a, b}) }
func (s *ifaceSorter) Less(a, b int) bool {
	r := call(s.fr.i, s.fr, 0, s.lessF, []value{s.recv.v, a, b})
	switch c := r.(type) {
	case bool:
		return c
	case symBool:
		return s.fr.i.x.branch(c.t)
	}
	panic(fmt.Sprintf("Less returned %T", r))
}

func extSortSort(fr *frame, args []value) value {
	recv := args[0].(iface)
	find := func(name string) *ssa.Function {
		ms := fr.i.prog.MethodSets.MethodSet(recv.t)
		for k := 0; k < ms.Len(); k++ {
			if ms.At(k).Obj().Name() == name {
				return fr.i.prog.MethodValue(ms.At(k))
			}
		}
		panic(abortPath{"sort.Sort: no method " + name})
	}
	insertionSort(&ifaceSorter{fr: fr, recv: recv, lenF: find("Len"), lessF: find("Less"), swF: find("Swap")})
	return nil
}

// ---- packages that are never initialised / never interpreted ----

var noInitPrefixes = []string{
	"runtime", "reflect", "errors", "os", "syscall", "net", "sync", "internal/", "unsafe", "fmt", "log", "io", "bufio",
	"encoding/json", "encoding/gob", "encoding/binary", "crypto", "hash", "math/rand", "math/big", "context", "path", "flag", "regexp",
	"github.com/tendermint/go-amino", "github.com/vmihailenco", "github.com/tendermint/iavl", "github.com/tendermint/tm-db",
	"github.com/syndtr", "github.com/go-kit", "github.com/davecgh", "github.com/btcsuite", "github.com/google/uuid",
	"github.com/ethereum/go-ethereum/crypto", "github.com/ethereum/go-ethereum/log", "github.com/ethereum/go-ethereum/metrics",
	"github.com/ethereum/go-ethereum/rlp", "github.com/ethereum/go-ethereum/ethdb", "github.com/ethereum/go-ethereum/trie",
	"github.com/ethereum/go-ethereum/rpc", "github.com/ethereum/go-ethereum/ethclient", "github.com/ethereum/go-ethereum/event",
	"github.com/ethereum/go-ethereum/accounts", "github.com/ethereum/go-ethereum/p2p", "github.com/ethereum/go-ethereum/node",
	"github.com/prometheus", "github.com/spf13", "github.com/gogo", "github.com/golang", "google.golang.org", "golang.org/x/",
	"github.com/tendermint/tendermint/rpc", "github.com/tendermint/tendermint/node", "github.com/tendermint/tendermint/p2p",
	"github.com/tendermint/tendermint/consensus", "github.com/tendermint/tendermint/mempool", "github.com/tendermint/tendermint/store",
	"github.com/tendermint/tendermint/crypto", "github.com/tendermint/tendermint/libs/log", "github.com/tendermint/tendermint/privval",
	"github.com/tendermint/tendermint/state", "github.com/tendermint/tendermint/proxy", "github.com/tendermint/tendermint/evidence",
	"github.com/powerman", "github.com/blockcypher", "github.com/Oneledger/toml", "github.com/magiconair", "github.com/rs/",
	"github.com/holiman/uint256", "github.com/pkg/errors", "github.com/stretchr",
}

func noInitPackage(path string) bool {
	for _, p := range noInitPrefixes {
		if path == p || strings.HasPrefix(path, p) && (strings.HasSuffix(p, "/") || len(path) == len(p) || path[len(p)] == '/') {
			return true
		}
	}
	return false
}

// blockedPrefixes: calling into these without an intrinsic aborts the path
// (unsupported) instead of interpreting reflection / syscalls / asm.
var blockedPrefixes = []string{
	"reflect", "syscall", "net", "os", "unsafe", "encoding/json", "encoding/gob", "crypto/", "runtime", "math/big",
	"github.com/tendermint/go-amino", "github.com/vmihailenco", "github.com/tendermint/iavl", "github.com/tendermint/tm-db",
	"github.com/syndtr", "github.com/btcsuite/btcd/btcec", "github.com/ethereum/go-ethereum/crypto", "github.com/ethereum/go-ethereum/rlp",
	"github.com/ethereum/go-ethereum/ethclient", "github.com/ethereum/go-ethereum/rpc",
	"github.com/tendermint/tendermint/crypto", "github.com/tendermint/tendermint/store", "github.com/google/uuid",
	"github.com/davecgh", "github.com/go-kit", "golang.org/x/crypto", "github.com/blockcypher",
}

func blockedCall(fn *ssa.Function) bool {
	if fn.Pkg == nil {
		return false
	}
	path := fn.Pkg.Pkg.Path()
	for _, p := range blockedPrefixes {
		if path == p || strings.HasPrefix(path, p) && (strings.HasSuffix(p, "/") || len(path) == len(p) || path[len(p)] == '/') {
			return true
		}
	}
	return false
}
