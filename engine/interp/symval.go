package interp

// Symbolic scalar values, insertion-ordered maps and the equality relation.

import (
	"fmt"
	"go/types"
	"math"
	"math/big"
	"regexp"
	"strconv"
	"strings"
	"unsafe"

	"golang.org/x/tools/go/ssa"

	"gosym/sym"
)

// symInt is a machine integer whose value is an SMT Int term already reduced
// to the range of kind k.
type symInt struct {
	t *sym.Term
	k types.BasicKind
}

type symBool struct{ t *sym.Term }

// symFloat is a float64/float32 modelled as a real number (see DESIGN §2.1).
type symFloat struct {
	t *sym.Term
	k types.BasicKind
}

// bigv is the content of a math/big.Int, stored in the `abs` field of the
// struct (field 1); field 0 (`neg`) is unused. A non-bigv abs field is zero.
type bigv struct{ t *sym.Term }

// symString is a string whose content depends on symbolic values (printed
// numbers). It may flow into logs and error texts; it must never reach a key
// or a comparison (the path aborts as unsupported).
const symMarker = "⟦"
const symMarkerEnd = "⟧"

// hasSymMarker: a marker is an opening bracket followed by a closing one (a
// lone opening sequence can occur by chance in digest bytes).
func hasSymMarker(s string) bool {
	i := strings.Index(s, symMarker)
	return i >= 0 && strings.Contains(s[i+len(symMarker):], symMarkerEnd)
}

// ---------------------------------------------------------------------
// kinds

func kindBits(k types.BasicKind) (bits uint, signed bool) {
	switch k {
	case types.Int, types.Int64, types.UntypedInt:
		return 64, true
	case types.Int8:
		return 8, true
	case types.Int16:
		return 16, true
	case types.Int32, types.UntypedRune:
		return 32, true
	case types.Uint, types.Uint64, types.Uintptr:
		return 64, false
	case types.Uint8:
		return 8, false
	case types.Uint16:
		return 16, false
	case types.Uint32:
		return 32, false
	}
	panic(fmt.Sprintf("kindBits: not an integer kind %v", k))
}

func basicKind(t types.Type) (types.BasicKind, bool) {
	b, ok := t.Underlying().(*types.Basic)
	if !ok {
		return 0, false
	}
	return b.Kind(), true
}

func isIntKind(k types.BasicKind) bool {
	switch k {
	case types.Int, types.Int8, types.Int16, types.Int32, types.Int64,
		types.Uint, types.Uint8, types.Uint16, types.Uint32, types.Uint64, types.Uintptr,
		types.UntypedInt, types.UntypedRune:
		return true
	}
	return false
}

// intTerm returns the Int term of a concrete or symbolic integer value.
func intTerm(v value) (*sym.Term, types.BasicKind, bool) {
	switch x := v.(type) {
	case symInt:
		return x.t, x.k, true
	case int:
		return sym.Int64(int64(x)), types.Int, true
	case int8:
		return sym.Int64(int64(x)), types.Int8, true
	case int16:
		return sym.Int64(int64(x)), types.Int16, true
	case int32:
		return sym.Int64(int64(x)), types.Int32, true
	case int64:
		return sym.Int64(x), types.Int64, true
	case uint:
		return sym.Uint64(uint64(x)), types.Uint, true
	case uint8:
		return sym.Uint64(uint64(x)), types.Uint8, true
	case uint16:
		return sym.Uint64(uint64(x)), types.Uint16, true
	case uint32:
		return sym.Uint64(uint64(x)), types.Uint32, true
	case uint64:
		return sym.Uint64(x), types.Uint64, true
	case uintptr:
		return sym.Uint64(uint64(x)), types.Uintptr, true
	}
	return nil, 0, false
}

// mkInt builds a value of integer kind k from a term assumed in range.
func mkInt(t *sym.Term, k types.BasicKind) value {
	if t.IsConst() {
		return concreteInt(t.Val, k)
	}
	return symInt{t, k}
}

func concreteInt(v *big.Int, k types.BasicKind) value {
	switch k {
	case types.Int, types.UntypedInt:
		return int(v.Int64())
	case types.Int8:
		return int8(v.Int64())
	case types.Int16:
		return int16(v.Int64())
	case types.Int32, types.UntypedRune:
		return int32(v.Int64())
	case types.Int64:
		return v.Int64()
	case types.Uint:
		return uint(v.Uint64())
	case types.Uint8:
		return uint8(v.Uint64())
	case types.Uint16:
		return uint16(v.Uint64())
	case types.Uint32:
		return uint32(v.Uint64())
	case types.Uint64:
		return v.Uint64()
	case types.Uintptr:
		return uintptr(v.Uint64())
	}
	panic(fmt.Sprintf("concreteInt: kind %v", k))
}

// wrapInt reduces an arbitrary Int term into kind k and builds the value.
func wrapInt(t *sym.Term, k types.BasicKind) value {
	bits, signed := kindBits(k)
	return mkInt(sym.Wrap(t, bits, signed), k)
}

func mkBool(t *sym.Term) value {
	if t.IsConst() {
		return t.B
	}
	return symBool{t}
}

func boolTerm(v value) *sym.Term {
	switch x := v.(type) {
	case bool:
		return sym.Bool(x)
	case symBool:
		return x.t
	}
	panic(fmt.Sprintf("boolTerm: %T", v))
}

func isSymbolic(v value) bool {
	switch v.(type) {
	case symInt, symBool, symFloat:
		return true
	}
	return false
}

func floatTerm(v value) (*sym.Term, types.BasicKind, bool) {
	switch x := v.(type) {
	case symFloat:
		return x.t, x.k, true
	case float64:
		if math.IsNaN(x) || math.IsInf(x, 0) {
			return nil, 0, false
		}
		// the real number a concrete float stands for is its shortest decimal
		// representation (0.51 means 51/100): computed constants then sit exactly
		// on the boundaries the real-valued reference uses
		r, ok := new(big.Rat).SetString(strconv.FormatFloat(x, 'g', -1, 64))
		if !ok {
			return nil, 0, false
		}
		return sym.Rat(r), types.Float64, true
	case float32:
		r := new(big.Rat)
		if r.SetFloat64(float64(x)) == nil {
			return nil, 0, false
		}
		return sym.Rat(r), types.Float32, true
	}
	return nil, 0, false
}

// ---------------------------------------------------------------------
// insertion-ordered map (deterministic iteration; the iteration order is an
// environment choice made by the executor, see rangeIter)

type omap struct {
	kt    types.Type
	keys  []value
	vals  []value
	dead  []bool
	index map[string]int
	ndead int
}

func makeMap(kt types.Type, reserve int64) value {
	return &omap{kt: kt, index: map[string]int{}}
}

func (m *omap) len() int {
	if m == nil {
		return 0
	}
	return len(m.keys) - m.ndead
}

func (m *omap) lookup(k value) (value, bool) {
	if m == nil {
		return nil, false
	}
	if i, ok := m.index[keyString(k)]; ok {
		return m.vals[i], true
	}
	return nil, false
}

func (m *omap) insert(k, v value) {
	ks := keyString(k)
	if i, ok := m.index[ks]; ok {
		m.vals[i] = v
		return
	}
	m.index[ks] = len(m.keys)
	m.keys = append(m.keys, k)
	m.vals = append(m.vals, v)
	m.dead = append(m.dead, false)
}

func (m *omap) delete(k value) {
	if m == nil {
		return
	}
	ks := keyString(k)
	if i, ok := m.index[ks]; ok {
		delete(m.index, ks)
		m.dead[i] = true
		m.keys[i], m.vals[i] = nil, nil
		m.ndead++
	}
}

func (m *omap) clear() {
	if m == nil {
		return
	}
	m.keys, m.vals, m.dead, m.ndead = nil, nil, nil, 0
	m.index = map[string]int{}
}

// liveKeys returns the live keys in insertion order.
func (m *omap) liveKeys() []value {
	if m == nil {
		return nil
	}
	out := make([]value, 0, m.len())
	for i, k := range m.keys {
		if !m.dead[i] {
			out = append(out, k)
		}
	}
	return out
}

// keyString renders a concrete, comparable value canonically. Symbolic
// content aborts the path: map keys must be concrete.
func keyString(v value) string {
	var sb strings.Builder
	writeKey(&sb, v)
	return sb.String()
}

func writeKey(sb *strings.Builder, v value) {
	switch x := v.(type) {
	case bool:
		if x {
			sb.WriteString("T")
		} else {
			sb.WriteString("F")
		}
	case int:
		sb.WriteString(strconv.FormatInt(int64(x), 10))
	case int8:
		sb.WriteString(strconv.FormatInt(int64(x), 10))
	case int16:
		sb.WriteString(strconv.FormatInt(int64(x), 10))
	case int32:
		sb.WriteString(strconv.FormatInt(int64(x), 10))
	case int64:
		sb.WriteString(strconv.FormatInt(x, 10))
	case uint:
		sb.WriteString(strconv.FormatUint(uint64(x), 10))
	case uint8:
		sb.WriteString(strconv.FormatUint(uint64(x), 10))
	case uint16:
		sb.WriteString(strconv.FormatUint(uint64(x), 10))
	case uint32:
		sb.WriteString(strconv.FormatUint(uint64(x), 10))
	case uint64:
		sb.WriteString(strconv.FormatUint(x, 10))
	case uintptr:
		sb.WriteString(strconv.FormatUint(uint64(x), 10))
	case float32:
		sb.WriteString(strconv.FormatFloat(float64(x), 'g', -1, 32))
	case float64:
		sb.WriteString(strconv.FormatFloat(x, 'g', -1, 64))
	case string:
		if hasSymMarker(x) && !sigTokenRe.MatchString(x) {
			panic(abortPath{"symbolic string used as map key"})
		}
		sb.WriteString(strconv.Quote(x))
	case *value:
		fmt.Fprintf(sb, "p%x", uintptr(unsafe.Pointer(x)))
	case structure:
		sb.WriteString("{")
		for _, f := range x {
			writeKey(sb, f)
			sb.WriteString(",")
		}
		sb.WriteString("}")
	case array:
		sb.WriteString("[")
		for _, f := range x {
			writeKey(sb, f)
			sb.WriteString(",")
		}
		sb.WriteString("]")
	case iface:
		if x.t == nil {
			sb.WriteString("nil")
		} else {
			sb.WriteString(x.t.String())
			sb.WriteString(":")
			writeKey(sb, x.v)
		}
	case symInt, symBool, symFloat, bigv:
		panic(abortPath{"symbolic value used as map key"})
	case *ssa.Function:
		fmt.Fprintf(sb, "f%p", x)
	case *closure:
		fmt.Fprintf(sb, "c%p", x)
	case *omap:
		fmt.Fprintf(sb, "m%p", x)
	case chan value:
		fmt.Fprintf(sb, "ch%p", x)
	default:
		panic(fmt.Sprintf("keyString: unhashable %T", v))
	}
}

// nil-tolerant variant of types.Identical.
func sameType(x, y types.Type) bool {
	if x == nil {
		return y == nil
	}
	return y != nil && types.Identical(x, y)
}

// equalsV implements Go's == for type t; the result is bool or symBool.
func equalsV(t types.Type, x, y value) value {
	return mkBool(eqTerm(t, x, y))
}

// equals is the concrete equality (aborts on symbolic content that does not
// simplify).
func equals(t types.Type, x, y value) bool {
	e := eqTerm(t, x, y)
	if e.IsConst() {
		return e.B
	}
	panic(abortPath{"symbolic equality where a concrete one is needed"})
}

func eqTerm(t types.Type, x, y value) *sym.Term {
	switch x := x.(type) {
	case bool, symBool:
		return sym.Eq(boolTerm(x), boolTerm(y))
	case int, int8, int16, int32, int64, uint, uint8, uint16, uint32, uint64, uintptr, symInt:
		a, _, _ := intTerm(x)
		b, _, ok := intTerm(y)
		if !ok {
			panic(fmt.Sprintf("eqTerm: int vs %T", y))
		}
		return sym.Eq(a, b)
	case float32:
		if yf, ok := y.(float32); ok {
			return sym.Bool(x == yf)
		}
	case float64:
		if yf, ok := y.(float64); ok {
			return sym.Bool(x == yf)
		}
	case complex64:
		return sym.Bool(x == y.(complex64))
	case complex128:
		return sym.Bool(x == y.(complex128))
	case string:
		ys := y.(string)
		if x == "" || ys == "" {
			// an opaque printed value is never the empty string
			return sym.Bool(x == ys)
		}
		if x != ys && (hasSymMarker(x) || hasSymMarker(ys)) {
			panic(abortPath{"comparison of a string that embeds a symbolic number"})
		}
		return sym.Bool(x == ys)
	case *value:
		return sym.Bool(x == y.(*value))
	case chan value:
		return sym.Bool(x == y.(chan value))
	case structure:
		ys := y.(structure)
		tStruct := t.Underlying().(*types.Struct)
		var cs []*sym.Term
		for i, n := 0, tStruct.NumFields(); i < n; i++ {
			f := tStruct.Field(i)
			if f.Name() == "_" {
				continue
			}
			if isBigIntStruct(t) {
				return sym.Eq(bigOf(x), bigOf(ys))
			}
			cs = append(cs, eqTerm(f.Type(), x[i], ys[i]))
		}
		return sym.And(cs...)
	case array:
		ya := y.(array)
		tElt := t.Underlying().(*types.Array).Elem()
		var cs []*sym.Term
		for i := range x {
			cs = append(cs, eqTerm(tElt, x[i], ya[i]))
		}
		return sym.And(cs...)
	case iface:
		yi := y.(iface)
		if !sameType(x.t, yi.t) {
			return sym.False
		}
		if x.t == nil {
			return sym.True
		}
		return eqTerm(x.t, x.v, yi.v)
	}
	if fx, _, ok := floatTerm(x); ok {
		if fy, _, ok := floatTerm(y); ok {
			return sym.Eq(fx, fy)
		}
	}
	panic(fmt.Sprintf("comparing uncomparable type %s (%T)", t, x))
}

func isBigIntStruct(t types.Type) bool {
	st, ok := t.Underlying().(*types.Struct)
	if !ok || st.NumFields() != 2 {
		return false
	}
	return st.Field(0).Name() == "neg" && st.Field(1).Name() == "abs" && st.Field(0).Pkg() != nil && st.Field(0).Pkg().Path() == "math/big"
}

// bigOf returns the Int term held in a big.Int structure.
func bigOf(s structure) *sym.Term {
	if b, ok := s[1].(bigv); ok {
		return b.t
	}
	if ws, ok := s[1].([]value); ok && len(ws) > 0 {
		// raw words written by interpreted math/big code: not the intrinsic representation
		panic(abortPath{"big.Int holding raw words (math/big method without intrinsic)"})
	}
	return sym.Int64(0)
}

var sigTokenRe = regexp.MustCompile("^" + symMarker + "sig#[0-9]+" + symMarkerEnd + "$")
