// Copyright 2013 The Go Authors. All rights reserved.
// Use of this source code is governed by a BSD-style
// license that can be found in the LICENSE file.

package interp

// Values
//
// All interpreter values are "boxed" in the empty interface, value.
// The range of possible dynamic types within value are:
//
// - bool
// - numbers (all built-in int/float/complex types are distinguished)
// - string
// - map[value]value --- maps for which  usesBuiltinMap(keyType)
//   *hashmap        --- maps for which !usesBuiltinMap(keyType)
// - chan value
// - []value --- slices
// - iface --- interfaces.
// - structure --- structs.  Fields are ordered and accessed by numeric indices.
// - array --- arrays.
// - *value --- pointers.  Careful: *value is a distinct type from *array etc.
// - *ssa.Function \
//   *ssa.Builtin   } --- functions.  A nil 'func' is always of type *ssa.Function.
//   *closure      /
// - tuple --- as returned by Return, Next, "value,ok" modes, etc.
// - iter --- iterators from 'range' over map or string.
// - bad --- a poison pill for locals that have gone out of scope.
// - rtype -- the interpreter's concrete implementation of reflect.Type
// - **deferred -- the address of a frame's defer stack for a Defer._Stack.
//
// Note that nil is not on this list.
//
// Pay close attention to whether or not the dynamic type is a pointer.
// The compiler cannot help you since value is an empty interface.

import (
	"bytes"
	"fmt"
	"go/types"
	"io"
	"strings"

	"golang.org/x/tools/go/ssa"
)

type value interface{}

type tuple []value

type array []value

type iface struct {
	t types.Type // never an "untyped" type
	v value
}

type structure []value

// For map, array, *array, slice, string or channel.
type iter interface {
	// next returns a Tuple (key, value, ok).
	// key and value are unaliased, e.g. copies of the sequence element.
	next() tuple
}

type closure struct {
	Fn  *ssa.Function
	Env []value
}

type bad struct{}

//SYMCUT
// reflect.Value struct values don't have a fixed shape, since the
// payload can be a scalar or an aggregate depending on the instance.
// So store (and load) can't simply use recursion over the shape of the
// rhs value, or the lhs, to copy the value; we need the static type
// information.  (We can't make reflect.Value a new basic data type
// because its "structness" is exposed to Go programs.)

// load returns the value of type T in *addr.
func load(T types.Type, addr *value) value {
	switch T := T.Underlying().(type) {
	case *types.Struct:
		v := (*addr).(structure)
		a := make(structure, len(v))
		for i := range a {
			a[i] = load(T.Field(i).Type(), &v[i])
		}
		return a
	case *types.Array:
		v := (*addr).(array)
		a := make(array, len(v))
		for i := range a {
			a[i] = load(T.Elem(), &v[i])
		}
		return a
	default:
		return *addr
	}
}

// store stores value v of type T into *addr.
func store(T types.Type, addr *value, v value) {
	switch T := T.Underlying().(type) {
	case *types.Struct:
		lhs := (*addr).(structure)
		rhs := v.(structure)
		for i := range lhs {
			store(T.Field(i).Type(), &lhs[i], rhs[i])
		}
	case *types.Array:
		lhs := (*addr).(array)
		rhs := v.(array)
		for i := range lhs {
			store(T.Elem(), &lhs[i], rhs[i])
		}
	default:
		*addr = v
	}
}

// Prints in the style of built-in println.
// (More or less; in gc println is actually a compiler intrinsic and
// can distinguish println(1) from println(interface{}(1)).)
func writeValue(buf *bytes.Buffer, v value) {
	switch v := v.(type) {
	case nil, bool, int, int8, int16, int32, int64, uint, uint8, uint16, uint32, uint64, uintptr, float32, float64, complex64, complex128, string:
		fmt.Fprintf(buf, "%v", v)

	case *omap:
		buf.WriteString("map[")
		sep := ""
		if v != nil {
			for i, k := range v.keys {
				if v.dead[i] {
					continue
				}
				buf.WriteString(sep)
				sep = " "
				writeValue(buf, k)
				buf.WriteString(":")
				writeValue(buf, v.vals[i])
			}
		}
		buf.WriteString("]")

	case symInt:
		buf.WriteString(symMarker + v.t.String() + symMarkerEnd)
	case symBool:
		buf.WriteString(symMarker + v.t.String() + symMarkerEnd)
	case bigv:
		buf.WriteString(symMarker + v.t.String() + symMarkerEnd)

	case chan value:
		fmt.Fprintf(buf, "%v", v) // (an address)

	case *value:
		if v == nil {
			buf.WriteString("<nil>")
		} else {
			fmt.Fprintf(buf, "%p", v)
		}

	case iface:
		fmt.Fprintf(buf, "(%s, ", v.t)
		writeValue(buf, v.v)
		buf.WriteString(")")

	case structure:
		buf.WriteString("{")
		for i, e := range v {
			if i > 0 {
				buf.WriteString(" ")
			}
			writeValue(buf, e)
		}
		buf.WriteString("}")

	case array:
		buf.WriteString("[")
		for i, e := range v {
			if i > 0 {
				buf.WriteString(" ")
			}
			writeValue(buf, e)
		}
		buf.WriteString("]")

	case []value:
		buf.WriteString("[")
		for i, e := range v {
			if i > 0 {
				buf.WriteString(" ")
			}
			writeValue(buf, e)
		}
		buf.WriteString("]")

	case *ssa.Function, *ssa.Builtin, *closure:
		fmt.Fprintf(buf, "%p", v) // (an address)

	case tuple:
		// Unreachable in well-formed Go programs
		buf.WriteString("(")
		for i, e := range v {
			if i > 0 {
				buf.WriteString(", ")
			}
			writeValue(buf, e)
		}
		buf.WriteString(")")

	default:
		fmt.Fprintf(buf, "<%T>", v)
	}
}

// Implements printing of Go values in the style of built-in println.
func toString(v value) string {
	var b bytes.Buffer
	writeValue(&b, v)
	return b.String()
}

// ------------------------------------------------------------------------
// Iterators

type stringIter struct {
	*strings.Reader
	i int
}

func (it *stringIter) next() tuple {
	okv := make(tuple, 3)
	ch, n, err := it.ReadRune()
	ok := err != io.EOF
	okv[0] = ok
	if ok {
		okv[1] = it.i
		okv[2] = ch
	}
	it.i += n
	return okv
}
