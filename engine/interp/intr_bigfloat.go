package interp

// math/big.Float as an intrinsic type over the reals (DESIGN §2.1): the value
// is one Real term stored in the `mant` field (index 5). Rounding to the
// mantissa precision is not modelled; the harnesses that reach it state the
// magnitude bound under which the real result decides the same way.

import (
	"fmt"
	"go/types"
	"math/big"

	"gosym/sym"
)

type bigfv struct{ t *sym.Term }

const bigFloatMant = 5

func bigfGet(v value) *sym.Term {
	p := bigPtr(v)
	s := (*p).(structure)
	if b, ok := s[bigFloatMant].(bigfv); ok {
		return b.t
	}
	return sym.Rat(new(big.Rat))
}

func bigfSet(v value, t *sym.Term) value {
	p := bigPtr(v)
	s := (*p).(structure)
	s[bigFloatMant] = bigfv{t}
	return v
}

func (i *interpreter) newBigFloat(fr *frame, t *sym.Term) *value {
	pkg := i.prog.ImportedPackage("math/big")
	c := zero(pkg.Type("Float").Type())
	p := &c
	bigfSet(p, t)
	return p
}

func init() {
	fbin := func(f func(a, b *sym.Term) *sym.Term) externalFn {
		return func(fr *frame, args []value) value {
			fr.i.x.assumptions["float: big.Float arithmetic modelled over the reals (mantissa rounding not modelled)"] = true
			return bigfSet(args[0], f(bigfGet(args[1]), bigfGet(args[2])))
		}
	}
	for k, v := range map[string]externalFn{
		"math/big.NewFloat": func(fr *frame, args []value) value {
			t, _, ok := floatTerm(args[0])
			if !ok {
				panic(abortPath{"big.NewFloat of a non-finite float"})
			}
			return fr.i.newBigFloat(fr, t)
		},
		"(*math/big.Float).SetInt": func(fr *frame, args []value) value {
			return bigfSet(args[0], sym.ToReal(bigGet(args[1])))
		},
		"(*math/big.Float).SetFloat64": func(fr *frame, args []value) value {
			t, _, ok := floatTerm(args[1])
			if !ok {
				panic(abortPath{"big.Float.SetFloat64 of a non-finite float"})
			}
			return bigfSet(args[0], t)
		},
		"(*math/big.Float).SetInt64": func(fr *frame, args []value) value {
			t, _, _ := intTerm(args[1])
			return bigfSet(args[0], sym.ToReal(t))
		},
		"(*math/big.Float).Set": func(fr *frame, args []value) value { return bigfSet(args[0], bigfGet(args[1])) },
		"(*math/big.Float).Mul": fbin(sym.Mul),
		"(*math/big.Float).Add": fbin(sym.Add),
		"(*math/big.Float).Sub": fbin(sym.Sub),
		"(*math/big.Float).Quo": func(fr *frame, args []value) value {
			a, b := bigfGet(args[1]), bigfGet(args[2])
			fr.i.x.floatEvent("big.Float division by zero", sym.Eq(b, sym.Rat(new(big.Rat))))
			return bigfSet(args[0], sym.RDiv(a, b))
		},
		"(*math/big.Float).Int": func(fr *frame, args []value) value {
			// truncation toward zero
			r := bigfGet(args[0])
			zeroR := sym.Rat(new(big.Rat))
			t := sym.Ite(sym.Le(zeroR, r), sym.ToInt(r), sym.Neg(sym.ToInt(sym.Neg(r))))
			z, _ := args[1].(*value)
			if z == nil {
				z = newBig(t)
			} else {
				bigSet(z, t)
			}
			return tuple{z, int8(0)}
		},
		"(*math/big.Float).Cmp": func(fr *frame, args []value) value {
			a, b := bigfGet(args[0]), bigfGet(args[1])
			return mkInt(sym.Ite(sym.Lt(a, b), sym.Int64(-1), sym.Ite(sym.Eq(a, b), sym.Int64(0), sym.Int64(1))), types.Int)
		},
		"(*math/big.Float).Sign": func(fr *frame, args []value) value {
			a := bigfGet(args[0])
			z := sym.Rat(new(big.Rat))
			return mkInt(sym.Ite(sym.Lt(a, z), sym.Int64(-1), sym.Ite(sym.Eq(a, z), sym.Int64(0), sym.Int64(1))), types.Int)
		},
		"(*math/big.Float).String": func(fr *frame, args []value) value {
			t := bigfGet(args[0])
			if t.IsConst() {
				f, _ := t.Rat.Float64()
				return fmt.Sprint(f)
			}
			return symMarker + t.String() + symMarkerEnd
		},
	} {
		externals[k] = v
	}
}
