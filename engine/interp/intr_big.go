package interp

// math/big.Int as an intrinsic type: the value is one SMT Int term stored in
// the `abs` field of the real struct layout, so that *big.Int is an ordinary
// pointer, struct copies copy the value, and balance.Amount (whose underlying
// type is big.Int's struct) shares the representation.

import (
	"fmt"
	"go/types"
	"math/big"
	"unsafe"

	"gosym/sym"
)

// lazyWords stands for the []big.Word of a symbolic big.Int: a one-element
// slice holding it has the symbolic length n and cannot be indexed.
type lazyWords struct{ n *sym.Term }

func uintptrOf(p *value) uintptr { return uintptr(unsafe.Pointer(p)) }

func (i *interpreter) bigFmt(t *sym.Term) interface{} {
	if t.IsConst() {
		return t.Val
	}
	return fmtStr(i.x.decMarker(t))
}

func bigPtr(v value) *value {
	p, ok := v.(*value)
	if !ok {
		panic(fmt.Sprintf("bigPtr: %T", v))
	}
	if p == nil {
		panic(nilDeref())
	}
	return p
}

func bigGet(v value) *sym.Term {
	return bigOf((*bigPtr(v)).(structure))
}

func bigSet(v value, t *sym.Term) value {
	p := bigPtr(v)
	s := (*p).(structure)
	s[1] = bigv{t}
	return v
}

// newBig allocates a fresh *big.Int holding t.
func newBig(t *sym.Term) *value {
	var cell value = structure{false, bigv{t}}
	return &cell
}

func cmpTerm(a, b *sym.Term) *sym.Term {
	return sym.Ite(sym.Lt(a, b), sym.Int64(-1), sym.Ite(sym.Eq(a, b), sym.Int64(0), sym.Int64(1)))
}

func init() {
	bin := func(f func(a, b *sym.Term) *sym.Term) externalFn {
		return func(fr *frame, args []value) value {
			a, b := bigGet(args[1]), bigGet(args[2])
			return bigSet(args[0], f(a, b))
		}
	}
	divlike := func(f func(a, b *sym.Term) *sym.Term) externalFn {
		return func(fr *frame, args []value) value {
			a, b := bigGet(args[1]), bigGet(args[2])
			bigPtr(args[0])
			fr.i.x.panicIf(sym.Eq(b, sym.Int64(0)), "division by zero")
			return bigSet(args[0], f(a, b))
		}
	}
	for k, v := range map[string]externalFn{
		"math/big.NewInt": func(fr *frame, args []value) value {
			t, _, _ := intTerm(args[0])
			return newBig(t)
		},
		"(*math/big.Int).Add": bin(sym.Add),
		"(*math/big.Int).Sub": bin(sym.Sub),
		"(*math/big.Int).Mul": bin(sym.Mul),
		"(*math/big.Int).Div": divlike(sym.EDiv),
		"(*math/big.Int).Mod": divlike(sym.EMod),
		"(*math/big.Int).Quo": divlike(sym.TDiv),
		"(*math/big.Int).Rem": divlike(sym.TRem),
		"(*math/big.Int).Neg": func(fr *frame, args []value) value { return bigSet(args[0], sym.Neg(bigGet(args[1]))) },
		"(*math/big.Int).Abs": func(fr *frame, args []value) value { return bigSet(args[0], sym.Abs(bigGet(args[1]))) },
		"(*math/big.Int).Set": func(fr *frame, args []value) value { return bigSet(args[0], bigGet(args[1])) },
		"(*math/big.Int).SetInt64": func(fr *frame, args []value) value {
			t, _, _ := intTerm(args[1])
			return bigSet(args[0], t)
		},
		"(*math/big.Int).SetUint64": func(fr *frame, args []value) value {
			t, _, _ := intTerm(args[1])
			return bigSet(args[0], t)
		},
		"(*math/big.Int).SetBits": func(fr *frame, args []value) value {
			// little-endian 64-bit words (concrete or symbolic), sign cleared
			ws, _ := args[1].([]value)
			t := sym.Int64(0)
			for k, w := range ws {
				if _, lazy := w.(*lazyWords); lazy {
					panic(abortPath{"SetBits of the word slice of a symbolic big.Int"})
				}
				wt, _, ok := intTerm(w)
				if !ok {
					panic(abortPath{fmt.Sprintf("SetBits word %T", w)})
				}
				t = sym.Add(t, sym.Mul(wt, sym.Int(new(big.Int).Lsh(big.NewInt(1), uint(64*k)))))
			}
			return bigSet(args[0], t)
		},
		"(*math/big.Int).Cmp": func(fr *frame, args []value) value {
			return mkInt(cmpTerm(bigGet(args[0]), bigGet(args[1])), types.Int)
		},
		"(*math/big.Int).CmpAbs": func(fr *frame, args []value) value {
			return mkInt(cmpTerm(sym.Abs(bigGet(args[0])), sym.Abs(bigGet(args[1]))), types.Int)
		},
		"(*math/big.Int).Sign": func(fr *frame, args []value) value {
			return mkInt(cmpTerm(bigGet(args[0]), sym.Int64(0)), types.Int)
		},
		"(*math/big.Int).Int64": func(fr *frame, args []value) value {
			return wrapInt(bigGet(args[0]), types.Int64)
		},
		"(*math/big.Int).Uint64": func(fr *frame, args []value) value {
			// low 64 bits of |x|
			return wrapInt(sym.Abs(bigGet(args[0])), types.Uint64)
		},
		"(*math/big.Int).IsInt64": func(fr *frame, args []value) value {
			return mkBool(sym.InRange(bigGet(args[0]), 64, true))
		},
		"(*math/big.Int).IsUint64": func(fr *frame, args []value) value {
			return mkBool(sym.InRange(bigGet(args[0]), 64, false))
		},
		"(*math/big.Int).BitLen": func(fr *frame, args []value) value {
			t := bigGet(args[0])
			if t.IsConst() {
				return t.Val.BitLen()
			}
			panic(abortPath{"BitLen of symbolic big.Int"})
		},
		"(*math/big.Int).Bits": func(fr *frame, args []value) value {
			t := bigGet(args[0])
			if t.IsConst() {
				ws := t.Val.Bits()
				out := make([]value, len(ws))
				for k, w := range ws {
					out[k] = uint(w)
				}
				return out
			}
			// the word slice of a symbolic value: only its length is
			// available (0 iff the value is 0; 1..4 words below 2^256)
			x := fr.i.x
			a := sym.Abs(t)
			pow := func(k uint) *sym.Term { return sym.Int(new(big.Int).Lsh(big.NewInt(1), k)) }
			if !x.branch(sym.Lt(a, pow(256))) {
				ts := t.String()
				if len(ts) > 160 {
					ts = ts[:160]
				}
				panic(abortPath{"Bits of symbolic big.Int above 2^256: " + ts})
			}
			n := sym.Ite(sym.Eq(t, sym.Int64(0)), sym.Int64(0),
				sym.Ite(sym.Lt(a, pow(64)), sym.Int64(1),
					sym.Ite(sym.Lt(a, pow(128)), sym.Int64(2),
						sym.Ite(sym.Lt(a, pow(192)), sym.Int64(3), sym.Int64(4)))))
			return []value{&lazyWords{n: n}}
		},
		"(*math/big.Int).String": func(fr *frame, args []value) value {
			p := args[0].(*value)
			if p == nil {
				return "<nil>"
			}
			t := bigGet(args[0])
			return fr.i.x.decMarker(t)
		},
		"(*math/big.Int).Text": func(fr *frame, args []value) value {
			p := args[0].(*value)
			if p == nil {
				return "<nil>"
			}
			t := bigGet(args[0])
			if t.IsConst() {
				return t.Val.Text(int(asInt64(args[1])))
			}
			if asInt64(args[1]) == 10 {
				return fr.i.x.decMarker(t)
			}
			return symMarker + t.String() + symMarkerEnd
		},
		"(*math/big.Int).SetString": func(fr *frame, args []value) value {
			s := args[1].(string)
			if hasSymMarker(s) {
				base := asInt64(args[2])
				if t, ok := fr.i.x.parseDec(s); ok && (base == 10 || base == 0) {
					return tuple{bigSet(args[0], t), true}
				}
				panic(abortPath{"big.Int.SetString of a symbolic string"})
			}
			v, ok := new(big.Int).SetString(s, int(asInt64(args[2])))
			if !ok {
				return tuple{(*value)(nil), false}
			}
			return tuple{bigSet(args[0], sym.Int(v)), true}
		},
		"(*math/big.Int).SetBytes": func(fr *frame, args []value) value {
			bs := args[1].([]value)
			acc := sym.Int64(0)
			for _, b := range bs {
				t, _, ok := intTerm(b)
				if !ok {
					panic(abortPath{"SetBytes on non-byte"})
				}
				acc = sym.Add(sym.Mul(acc, sym.Int64(256)), t)
			}
			return bigSet(args[0], acc)
		},
		"(*math/big.Int).Bytes": func(fr *frame, args []value) value {
			t := bigGet(args[0])
			if t.IsConst() {
				return bytesValue(t.Val.Bytes())
			}
			// opaque bytes (they reach event tags and logs only): a blob holding the integer
			fr.i.x.stub("big.Int.Bytes of a symbolic value (opaque bytes)")
			return fr.i.newBlob(types.Typ[types.Int], bigv{t})
		},
		"(*math/big.Int).FillBytes": func(fr *frame, args []value) value {
			t := bigGet(args[0])
			buf := args[1].([]value)
			if t.IsConst() {
				b := make([]byte, len(buf))
				t.Val.FillBytes(b)
				for k := range buf {
					buf[k] = b[k]
				}
				return buf
			}
			panic(abortPath{"FillBytes of symbolic big.Int"})
		},
		"(*math/big.Int).Exp": func(fr *frame, args []value) value {
			x, y := bigGet(args[1]), bigGet(args[2])
			var m *sym.Term
			if p := args[3].(*value); p != nil {
				m = bigGet(args[3])
			}
			if x.IsConst() && y.IsConst() && (m == nil || m.IsConst()) {
				var mv *big.Int
				if m != nil {
					mv = m.Val
				}
				return bigSet(args[0], sym.Int(new(big.Int).Exp(x.Val, y.Val, mv)))
			}
			if y.IsConst() && y.Val.IsInt64() && y.Val.Int64() >= 0 && y.Val.Int64() <= 4 && (m == nil || m.IsConst() && m.Val.Sign() == 0) {
				acc := sym.Int64(1)
				for k := int64(0); k < y.Val.Int64(); k++ {
					acc = sym.Mul(acc, x)
				}
				return bigSet(args[0], acc)
			}
			panic(abortPath{"big.Int.Exp with symbolic operands"})
		},
		"(*math/big.Int).Lsh": func(fr *frame, args []value) value {
			n := uint(asInt64(args[2]))
			return bigSet(args[0], sym.Mul(bigGet(args[1]), sym.Int(sym.Pow2(n))))
		},
		"(*math/big.Int).Rsh": func(fr *frame, args []value) value {
			n := uint(asInt64(args[2]))
			return bigSet(args[0], sym.EDiv(bigGet(args[1]), sym.Int(sym.Pow2(n))))
		},
		"(*math/big.Int).MarshalText": func(fr *frame, args []value) value {
			p := args[0].(*value)
			if p == nil {
				return tuple{bytesValue([]byte("<nil>")), iface{}}
			}
			t := bigGet(args[0])
			if t.IsConst() {
				return tuple{bytesValue([]byte(t.Val.String())), iface{}}
			}
			panic(abortPath{"MarshalText of symbolic big.Int"})
		},
		"(*math/big.Int).UnmarshalText": func(fr *frame, args []value) value {
			bs := concreteBytes(args[1].([]value), "big.Int.UnmarshalText")
			v, ok := new(big.Int).SetString(string(bs), 0)
			if !ok {
				return fr.i.makeError(fmt.Sprintf("math/big: cannot unmarshal %q into a *big.Int", bs))
			}
			bigSet(args[0], sym.Int(v))
			return iface{}
		},
		"(*math/big.Int).Float64": func(fr *frame, args []value) value {
			t := bigGet(args[0])
			if t.IsConst() {
				f, acc := new(big.Float).SetInt(t.Val).Float64()
				return tuple{f, int8(acc)}
			}
			panic(abortPath{"Float64 of symbolic big.Int"})
		},
		"(*math/big.Int).And": func(fr *frame, args []value) value {
			a, b := bigGet(args[1]), bigGet(args[2])
			if a.IsConst() && b.IsConst() {
				return bigSet(args[0], sym.Int(new(big.Int).And(a.Val, b.Val)))
			}
			panic(abortPath{"big.Int.And with symbolic operands"})
		},
		"(*math/big.Int).Or": func(fr *frame, args []value) value {
			a, b := bigGet(args[1]), bigGet(args[2])
			if a.IsConst() && b.IsConst() {
				return bigSet(args[0], sym.Int(new(big.Int).Or(a.Val, b.Val)))
			}
			panic(abortPath{"big.Int.Or with symbolic operands"})
		},
		"(*math/big.Int).Sqrt": func(fr *frame, args []value) value {
			a := bigGet(args[1])
			if a.IsConst() && a.Val.Sign() >= 0 {
				return bigSet(args[0], sym.Int(new(big.Int).Sqrt(a.Val)))
			}
			panic(abortPath{"big.Int.Sqrt symbolic"})
		},
	} {
		externals[k] = v
	}
}
