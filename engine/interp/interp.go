// Copyright 2013 The Go Authors. All rights reserved.
// Use of this source code is governed by a BSD-style
// license that can be found in the LICENSE file.

// Package interp is a symbolic executor for the go/ssa form of Go programs.
// It started as a copy of golang.org/x/tools/go/ssa/interp (v0.29.0): the heap
// shape (pointers, slices, maps, interfaces, closures) is concrete, scalars may
// be SMT terms, branches on symbolic conditions fork the path (decided by an
// SMT solver), and calls that leave the code under analysis are answered by
// the stubs in intrinsics*.go.
package interp

import (
	"fmt"
	"go/token"
	"go/types"
	"os"
	"runtime"
	"slices"
	"strings"

	"golang.org/x/tools/go/ssa"

	"gosym/sym"
)

type continuation int

const (
	kNext continuation = iota
	kReturn
	kJump
)

// declined is returned by an intrinsic that does not apply to these arguments
// (the function is then interpreted from its SSA form).
type declined struct{}

// abortPath ends the current path as "unsupported" (inconclusive).
type abortPath struct{ reason string }

// endPath ends the current path normally (infeasible assumption, depth bound).
type endPath struct{ reason string }

// State of one symbolic execution (one path).
type interpreter struct {
	prog               *ssa.Program
	globals            map[*ssa.Global]*value
	inited             map[*ssa.Package]bool
	runtimeErrorString types.Type
	sizes              types.Sizes
	x                  *Exec
	steps              int64
	maxSteps           int64
	trace              bool
	depth              int
	side               map[*value]interface{} // side tables of stubs (iavl models, once flags, ...)
	funcsRun           map[*ssa.Function]struct{}
	onceDone           map[*value]bool
	errString          types.Type // *errors.errorString
}

// Models maps the full name of a repo function to a harness function that
// replaces it under symbolic execution (same signature, receiver first).
var Models = map[string]*ssa.Function{}

type deferred struct {
	fn    value
	args  []value
	instr *ssa.Defer
	tail  *deferred
}

type frame struct {
	i                *interpreter
	caller           *frame
	fn               *ssa.Function
	block, prevBlock *ssa.BasicBlock
	env              map[ssa.Value]value // dynamic values of SSA variables
	locals           []value
	defers           *deferred
	result           value
	panicking        bool
	panic            interface{}
	phitemps         []value // temporaries for parallel phi assignment
	callpos          token.Pos
	depth            int
}

func (fr *frame) get(key ssa.Value) value {
	switch key := key.(type) {
	case nil:
		return nil
	case *ssa.Function, *ssa.Builtin:
		return key
	case *ssa.Const:
		return constValue(key)
	case *ssa.Global:
		return fr.i.global(key)
	}
	if r, ok := fr.env[key]; ok {
		return r
	}
	panic(fmt.Sprintf("get: no value for %T: %v", key, key.Name()))
}

func (i *interpreter) global(g *ssa.Global) *value {
	if r, ok := i.globals[g]; ok {
		return r
	}
	cell := zero(mustDeref(g.Type()))
	r := &cell
	i.globals[g] = r
	if g.Pkg != nil {
		i.ensureInit(g.Pkg)
	}
	return r
}

// ensureInit runs the package initializer of pkg lazily (only its own global
// initialisers and init functions; imported packages are initialised on their
// own first touch).
func (i *interpreter) ensureInit(pkg *ssa.Package) {
	if i.inited[pkg] {
		return
	}
	i.inited[pkg] = true
	path := pkg.Pkg.Path()
	if noInitPackage(path) {
		return
	}
	initFn := pkg.Func("init")
	if initFn == nil || initFn.Blocks == nil {
		return
	}
	saved := i.x.inInit
	i.x.inInit++
	defer func() { i.x.inInit = saved }()
	call(i, nil, token.NoPos, initFn, nil)
}

// tolerantInitCall: a package-level initializer of a third-party package that
// the engine cannot evaluate (reflection, rlp, assembly) leaves its variable at
// the zero value instead of ending the path; each such variable is listed among
// the stubs of the run. Paths that depend on one diverge from the native replay
// and are reported by the witness cross-validation.
func (fr *frame) tolerantInitCall(instr *ssa.Call) (res value) {
	defer func() {
		if r := recover(); r != nil {
			switch r := r.(type) {
			case targetPanic, abortPath:
				callee := "?"
				if c := instr.Call.StaticCallee(); c != nil {
					callee = c.String()
				}
				fr.i.x.stub(fmt.Sprintf("initializer of %s calling %s left at zero value (%v)", fr.fn.Pkg.Pkg.Path(), callee, r))
				fr.panicking = false
				if t, ok := instr.Type().(*types.Tuple); ok && t.Len() == 0 {
					res = nil
				} else {
					res = zero(instr.Type())
				}
			default:
				panic(r)
			}
		}
	}()
	fn, args := prepareCall(fr, &instr.Call)
	return call(fr.i, fr, instr.Pos(), fn, args)
}

func (fr *frame) runDefer(d *deferred) {
	var ok bool
	defer func() {
		if !ok {
			r := recover()
			if isControl(r) {
				panic(r)
			}
			// Deferred call created a new state of panic.
			fr.panicking = true
			fr.panic = r
		}
	}()
	call(fr.i, fr, d.instr.Pos(), d.fn, d.args)
	ok = true
}

// isControl reports panics that must unwind the whole path without running
// target-level recovery.
func isControl(r interface{}) bool {
	switch r.(type) {
	case abortPath, endPath, exitPanic:
		return true
	}
	return false
}

func (fr *frame) runDefers() {
	for d := fr.defers; d != nil; d = d.tail {
		fr.runDefer(d)
	}
	fr.defers = nil
	if fr.panicking {
		panic(fr.panic) // new panic, or still panicking
	}
}

func lookupMethod(i *interpreter, typ types.Type, meth *types.Func) *ssa.Function {
	return i.prog.LookupMethod(typ, meth.Pkg(), meth.Name())
}

func nilDeref() targetPanic {
	return targetPanic{"runtime error: invalid memory address or nil pointer dereference"}
}

func visitInstr(fr *frame, instr ssa.Instruction) continuation {
	switch instr := instr.(type) {
	case *ssa.DebugRef:
		// no-op

	case *ssa.UnOp:
		fr.env[instr] = unop(fr.i, instr, fr.get(instr.X))

	case *ssa.BinOp:
		fr.env[instr] = binop(fr.i, instr.Op, instr.X.Type(), fr.get(instr.X), fr.get(instr.Y))

	case *ssa.Call:
		if fr.fn.Synthetic != "" && fr.fn.Name() == "init" && fr.fn.Pkg != nil && !strings.HasPrefix(fr.fn.Pkg.Pkg.Path(), "github.com/Oneledger/protocol") {
			fr.env[instr] = fr.tolerantInitCall(instr)
			break
		}
		fn, args := prepareCall(fr, &instr.Call)
		fr.env[instr] = call(fr.i, fr, instr.Pos(), fn, args)

	case *ssa.ChangeInterface:
		fr.env[instr] = fr.get(instr.X)

	case *ssa.ChangeType:
		fr.env[instr] = fr.get(instr.X) // (can't fail)

	case *ssa.Convert:
		fr.env[instr] = conv(fr.i, instr.Type(), instr.X.Type(), fr.get(instr.X))

	case *ssa.SliceToArrayPointer:
		fr.env[instr] = sliceToArrayPointer(instr.Type(), instr.X.Type(), fr.get(instr.X))

	case *ssa.MakeInterface:
		fr.env[instr] = iface{t: instr.X.Type(), v: fr.get(instr.X)}

	case *ssa.Extract:
		fr.env[instr] = fr.get(instr.Tuple).(tuple)[instr.Index]

	case *ssa.Slice:
		fr.env[instr] = slice(fr.i, fr.get(instr.X), fr.get(instr.Low), fr.get(instr.High), fr.get(instr.Max))

	case *ssa.Return:
		switch len(instr.Results) {
		case 0:
		case 1:
			fr.result = fr.get(instr.Results[0])
		default:
			var res []value
			for _, r := range instr.Results {
				res = append(res, fr.get(r))
			}
			fr.result = tuple(res)
		}
		fr.block = nil
		return kReturn

	case *ssa.RunDefers:
		fr.runDefers()

	case *ssa.Panic:
		panic(targetPanic{fr.get(instr.X)})

	case *ssa.Send:
		panic(abortPath{"channel send"})

	case *ssa.Store:
		addr := fr.get(instr.Addr).(*value)
		if addr == nil {
			panic(nilDeref())
		}
		store(mustDeref(instr.Addr.Type()), addr, fr.get(instr.Val))

	case *ssa.If:
		succ := 1
		switch c := fr.get(instr.Cond).(type) {
		case bool:
			if c {
				succ = 0
			}
		case symBool:
			if fr.i.x.branch(c.t) {
				succ = 0
			}
		default:
			panic(fmt.Sprintf("If on %T", c))
		}
		fr.prevBlock, fr.block = fr.block, fr.block.Succs[succ]
		return kJump

	case *ssa.Jump:
		fr.prevBlock, fr.block = fr.block, fr.block.Succs[0]
		return kJump

	case *ssa.Defer:
		fn, args := prepareCall(fr, &instr.Call)
		defers := &fr.defers
		if into := fr.get(instr.DeferStack); into != nil {
			defers = into.(**deferred)
		}
		*defers = &deferred{
			fn:    fn,
			args:  args,
			instr: instr,
			tail:  *defers,
		}

	case *ssa.Go:
		fn, args := prepareCall(fr, &instr.Call)
		fr.i.goStmt(fr, instr, fn, args)

	case *ssa.MakeChan:
		fr.env[instr] = make(chan value, fr.i.concreteInt64(fr.get(instr.Size), "chan size"))

	case *ssa.Alloc:
		var addr *value
		if instr.Heap {
			// new
			addr = new(value)
			fr.env[instr] = addr
		} else {
			// local
			addr = fr.env[instr].(*value)
		}
		*addr = zero(mustDeref(instr.Type()))

	case *ssa.MakeSlice:
		c := fr.i.concreteInt64(fr.get(instr.Cap), "make cap")
		l := fr.i.concreteInt64(fr.get(instr.Len), "make len")
		if l < 0 || c < l || c > 1<<24 {
			panic(targetPanic{"runtime error: makeslice: len out of range"})
		}
		slice := make([]value, c)
		tElt := instr.Type().Underlying().(*types.Slice).Elem()
		for i := range slice {
			slice[i] = zero(tElt)
		}
		fr.env[instr] = slice[:l]

	case *ssa.MakeMap:
		fr.env[instr] = makeMap(instr.Type().Underlying().(*types.Map).Key(), 0)

	case *ssa.Range:
		fr.env[instr] = rangeIter(fr.i, fr.get(instr.X), instr.X.Type())

	case *ssa.Next:
		fr.env[instr] = fr.get(instr.Iter).(iter).next()

	case *ssa.FieldAddr:
		p := fr.get(instr.X).(*value)
		if p == nil {
			panic(nilDeref())
		}
		fr.env[instr] = &(*p).(structure)[instr.Field]

	case *ssa.Field:
		fr.env[instr] = fr.get(instr.X).(structure)[instr.Field]

	case *ssa.IndexAddr:
		x := fr.get(instr.X)
		switch x := x.(type) {
		case []value:
			if len(x) == 1 {
				switch x[0].(type) {
				case *blob:
					panic(abortPath{"indexing into an opaque serialised blob"})
				case *lazyWords:
					panic(abortPath{"word access to a symbolic big.Int"})
				}
			}
			idx := fr.i.indexIn(fr.get(instr.Index), len(x))
			fr.env[instr] = &x[idx]
		case *value: // *array
			if x == nil {
				panic(nilDeref())
			}
			a := (*x).(array)
			idx := fr.i.indexIn(fr.get(instr.Index), len(a))
			fr.env[instr] = &a[idx]
		default:
			panic(fmt.Sprintf("unexpected x type in IndexAddr: %T", x))
		}

	case *ssa.Index:
		x := fr.get(instr.X)
		switch x := x.(type) {
		case array:
			fr.env[instr] = x[fr.i.indexIn(fr.get(instr.Index), len(x))]
		case string:
			fr.env[instr] = x[fr.i.indexIn(fr.get(instr.Index), len(x))]
		default:
			panic(fmt.Sprintf("unexpected x type in Index: %T", x))
		}

	case *ssa.Lookup:
		fr.env[instr] = lookup(instr, fr.get(instr.X), fr.i.mapKey(fr.get(instr.Index)))

	case *ssa.MapUpdate:
		m := fr.get(instr.Map)
		key := fr.i.mapKey(fr.get(instr.Key))
		v := fr.get(instr.Value)
		switch m := m.(type) {
		case *omap:
			if m == nil {
				panic(targetPanic{"assignment to entry in nil map"})
			}
			m.insert(key, v)
		default:
			panic(fmt.Sprintf("illegal map type: %T", m))
		}

	case *ssa.TypeAssert:
		fr.env[instr] = typeAssert(fr.i, instr, fr.get(instr.X).(iface))

	case *ssa.MakeClosure:
		var bindings []value
		for _, binding := range instr.Bindings {
			bindings = append(bindings, fr.get(binding))
		}
		fr.env[instr] = &closure{instr.Fn.(*ssa.Function), bindings}

	case *ssa.Phi:
		panic("unreachable") // phis are processed at block entry

	case *ssa.Select:
		panic(abortPath{"select statement"})

	default:
		panic(fmt.Sprintf("unexpected instruction: %T", instr))
	}

	return kNext
}

// mapKey concretises symbolic scalars used as map keys.
func (i *interpreter) mapKey(k value) value {
	switch s := k.(type) {
	case symInt:
		v := i.x.concretize(s.t, "map key")
		return concreteInt(v, s.k)
	case symBool:
		return i.x.branch(s.t)
	}
	return k
}

// indexIn checks idx against [0,n) (forking on a symbolic index) and returns a
// concrete index.
func (i *interpreter) indexIn(idx value, n int) int {
	if s, ok := idx.(symInt); ok {
		inb := sym.And(sym.Le(sym.Int64(0), s.t), sym.Lt(s.t, sym.Int64(int64(n))))
		if !i.x.branch(inb) {
			panic(targetPanic{fmt.Sprintf("runtime error: index out of range [symbolic] with length %d", n)})
		}
		v := i.x.concretize(s.t, "index")
		return int(v.Int64())
	}
	k := asInt64(idx)
	if k < 0 || k >= int64(n) {
		panic(targetPanic{fmt.Sprintf("runtime error: index out of range [%d] with length %d", k, n)})
	}
	return int(k)
}

func (i *interpreter) concreteInt64(v value, what string) int64 {
	if v == nil {
		return 0
	}
	if s, ok := v.(symInt); ok {
		return i.x.concretize(s.t, what).Int64()
	}
	return asInt64(v)
}

func (i *interpreter) goStmt(fr *frame, instr *ssa.Go, fn value, args []value) {
	panic(abortPath{"go statement at " + i.prog.Fset.Position(instr.Pos()).String()})
}

func prepareCall(fr *frame, call *ssa.CallCommon) (fn value, args []value) {
	v := fr.get(call.Value)
	if call.Method == nil {
		// Function call.
		fn = v
	} else {
		// Interface method invocation.
		recv := v.(iface)
		if recv.t == nil {
			panic(targetPanic{"runtime error: invalid memory address or nil pointer dereference (method " + call.Method.Name() + " on nil interface)"})
		}
		if f := lookupMethod(fr.i, recv.t, call.Method); f == nil {
			// Unreachable in well-typed programs.
			panic(fmt.Sprintf("method set for dynamic type %v does not contain %s", recv.t, call.Method))
		} else {
			fn = f
		}
		args = append(args, recv.v)
	}
	for _, arg := range call.Args {
		args = append(args, fr.get(arg))
	}
	return
}

func call(i *interpreter, caller *frame, callpos token.Pos, fn value, args []value) value {
	switch fn := fn.(type) {
	case *ssa.Function:
		if fn == nil {
			panic(targetPanic{"runtime error: invalid memory address or nil pointer dereference (call of nil func)"})
		}
		return callSSA(i, caller, callpos, fn, args, nil)
	case *closure:
		return callSSA(i, caller, callpos, fn.Fn, args, fn.Env)
	case *ssa.Builtin:
		return callBuiltin(caller, callpos, fn, args)
	}
	panic(fmt.Sprintf("cannot call %T", fn))
}

func loc(fset *token.FileSet, pos token.Pos) string {
	if pos == token.NoPos {
		return ""
	}
	return " at " + fset.Position(pos).String()
}

func callSSA(i *interpreter, caller *frame, callpos token.Pos, fn *ssa.Function, args []value, env []value) value {
	fr := &frame{
		i:       i,
		caller:  caller,
		fn:      fn,
		callpos: callpos,
	}
	name := fn.String()
	if fn.Parent() == nil {
		if m := Models[name]; m != nil {
			i.x.stub("model of " + name + ": harness function " + m.Name() + " (see its source; agreement with the real function is sampled by the native replay of path witnesses)")
			return callSSA(i, caller, callpos, m, args, nil)
		}
		if ext := externals[name]; ext != nil {
			if i.trace {
				fmt.Fprintf(os.Stderr, "%*s(intrinsic) %s\n", i.depth, "", name)
			}
			if r := ext(fr, args); r != (declined{}) {
				return r
			}
		}
		if r, ok := dynamicIntrinsic(fr, fn, name, args); ok {
			return r
		}
	}
	if fn.Pkg != nil && !i.inited[fn.Pkg] {
		// package initializer calls to imported packages' init are skipped:
		// initialisation is lazy.
		if fn.Name() == "init" && fn.Synthetic != "" && i.x.inInit > 0 {
			return nil
		}
		i.ensureInit(fn.Pkg)
	} else if fn.Name() == "init" && fn.Synthetic != "" && i.x.inInit > 0 && caller != nil {
		return nil
	}
	if fn.Blocks == nil {
		panic(abortPath{"no code for function: " + name + " <- " + callerChain(caller)})
	}
	if blockedCall(fn) {
		panic(abortPath{"call into unmodelled package: " + name + " <- " + callerChain(caller)})
	}
	if fn.TypeParams().Len() > 0 && len(fn.TypeArgs()) == 0 {
		panic(abortPath{"uninstantiated generic " + name})
	}
	if i.trace {
		fmt.Fprintf(os.Stderr, "%*s> %s\n", i.depth, "", name)
	}
	if caller != nil {
		fr.depth = caller.depth + 1
	}
	i.depth = fr.depth
	if fr.depth > 400 {
		panic(abortPath{"call depth > 400 in " + name})
	}
	if fn.Pkg != nil && i.x.isRepoPkg(fn.Pkg.Pkg.Path()) {
		i.funcsRun[fn] = struct{}{}
	}

	fr.env = make(map[ssa.Value]value)
	fr.block = fn.Blocks[0]
	fr.locals = make([]value, len(fn.Locals))
	for i, l := range fn.Locals {
		fr.locals[i] = zero(mustDeref(l.Type()))
		fr.env[l] = &fr.locals[i]
	}
	for i, p := range fn.Params {
		fr.env[p] = args[i]
	}
	for i, fv := range fn.FreeVars {
		fr.env[fv] = env[i]
	}
	for fr.block != nil {
		runFrame(fr)
	}
	return fr.result
}

func runFrame(fr *frame) {
	defer func() {
		if fr.block == nil {
			return // normal return
		}
		r := recover()
		if isControl(r) {
			if _, ok := r.(abortPath); ok && fr.i.x.abortSite == "" {
				fr.i.x.abortSite = fr.where()
			}
			panic(r)
		}
		if s, ok := r.(string); ok && !strings.HasPrefix(s, "runtime error") {
			// the interpreter itself panicked: engine limitation, not target behaviour
			panic(abortPath{"engine: " + s + " in " + fr.fn.String()})
		}
		if re, ok := r.(runtime.Error); ok {
			// A Go runtime error raised by the interpreter's own operation
			// on behalf of the target (e.g. slice bounds). Tagged so that
			// the report can tell it from an explicit target panic.
			r = targetPanic{"runtime error: " + strings.TrimPrefix(re.Error(), "runtime error: ")}
		}
		fr.panicking = true
		fr.panic = r
		if fr.i.trace {
			fmt.Fprintf(os.Stderr, "Panicking: %T %v in %s\n", fr.panic, fr.panic, fr.fn)
		}
		if fr.i.x.panicSite == "" {
			fr.i.x.panicSite = fr.where()
		}
		fr.runDefers()
		fr.block = fr.fn.Recover
		if fr.block == nil {
			// recovered in a function without named results: return zero values
			fr.result = nil
			if fr.fn.Signature.Results().Len() > 0 {
				fr.result = zero(fr.fn.Signature.Results())
			}
		}
	}()

	for {
		nonPhis := executePhis(fr)
		for _, instr := range nonPhis {
			fr.i.steps++
			if fr.i.steps > fr.i.maxSteps {
				panic(abortPath{fmt.Sprintf("step budget %d exhausted in %s", fr.i.maxSteps, fr.fn)})
			}
			if visitInstr(fr, instr) == kReturn {
				return
			}
		}
	}
}

func callerChain(fr *frame) string {
	if fr == nil {
		return "(entry)"
	}
	return fr.where()
}

// where renders the call chain (function names only) of a frame.
func (fr *frame) where() string {
	var parts []string
	for f := fr; f != nil && len(parts) < 6; f = f.caller {
		parts = append(parts, f.fn.String())
	}
	return strings.Join(parts, " < ")
}

func executePhis(fr *frame) []ssa.Instruction {
	firstNonPhi := -1
	for i, instr := range fr.block.Instrs {
		if _, ok := instr.(*ssa.Phi); !ok {
			firstNonPhi = i
			break
		}
	}
	nonPhis := fr.block.Instrs[firstNonPhi:]
	if firstNonPhi > 0 {
		phis := fr.block.Instrs[:firstNonPhi]
		predIndex := slices.Index(fr.block.Preds, fr.prevBlock)
		fr.phitemps = fr.phitemps[:0]
		for _, phi := range phis {
			phi := phi.(*ssa.Phi)
			fr.phitemps = append(fr.phitemps, fr.get(phi.Edges[predIndex]))
		}
		for i, phi := range phis {
			fr.env[phi.(*ssa.Phi)] = fr.phitemps[i]
		}
	}
	return nonPhis
}

func panicString(i *interpreter, p interface{}) string {
	switch v := p.(type) {
	case targetPanic:
		return panicText(i, v)
	case runtime.Error:
		return v.Error()
	}
	return fmt.Sprint(p)
}

func doRecover(caller *frame) value {
	if caller != nil && !caller.panicking &&
		caller.caller != nil && caller.caller.panicking {
		caller.caller.panicking = false
		p := caller.caller.panic
		caller.caller.panic = nil
		caller.i.x.recovered = append(caller.i.x.recovered, panicString(caller.i, p))
		caller.i.x.lastRecoverSite = caller.i.x.panicSite
		caller.i.x.panicSite = ""
		switch p := p.(type) {
		case targetPanic:
			if s, ok := p.v.(string); ok {
				return iface{caller.i.runtimeErrorString, s}
			}
			return p.v
		case runtime.Error:
			return iface{caller.i.runtimeErrorString, p.Error()}
		case string:
			return iface{caller.i.runtimeErrorString, p}
		default:
			panic(fmt.Sprintf("unexpected panic type %T in target call to recover()", p))
		}
	}
	return iface{}
}
