package sym

import "fmt"

// Relaxer rewrites integer formulas into real arithmetic such that every
// integer model of the original yields a real model of the result (integer
// variables become reals; every div/mod gets a fresh real quotient q with
// b*q <= a < b*q + |b|). Unsatisfiability of the relaxation therefore implies
// unsatisfiability of the original: it is used only to PROVE goals
// (a sat answer of the relaxation means nothing).
type Relaxer struct {
	memo  map[int64]*Term
	quot  map[string]*Term
	Side  []*Term
	vars  map[string]*Term
	fresh int
}

func NewRelaxer() *Relaxer {
	return &Relaxer{memo: map[int64]*Term{}, quot: map[string]*Term{}, vars: map[string]*Term{}}
}

var rzero = Rat(ratOf(0))

func (r *Relaxer) quotient(a, b *Term, ra, rb *Term) *Term {
	key := fmt.Sprintf("%d/%d", a.ID, b.ID)
	if a.IsConst() {
		key = "c" + a.String() + "/" + fmt.Sprint(b.ID)
	}
	if q, ok := r.quot[key]; ok {
		return q
	}
	r.fresh++
	q := Var(fmt.Sprintf("q!%d", r.fresh), SReal)
	r.quot[key] = q
	bq := Mul(rb, q)
	pos := And(Le(bq, ra), Lt(ra, Add(bq, rb)))
	neg := And(Le(bq, ra), Lt(ra, Sub(bq, rb)))
	if rb.IsConst() {
		if rb.Rat.Sign() > 0 {
			r.Side = append(r.Side, pos)
		} else if rb.Rat.Sign() < 0 {
			r.Side = append(r.Side, neg)
		}
	} else {
		r.Side = append(r.Side, Implies(Lt(rzero, rb), pos), Implies(Lt(rb, rzero), neg))
	}
	return q
}

// Relax converts t (Bool or numeric).
func (r *Relaxer) Relax(t *Term) *Term {
	if t.Op == OConst {
		if t.Sort == SInt {
			return ToReal(t)
		}
		return t
	}
	if m, ok := r.memo[t.ID]; ok {
		return m
	}
	var out *Term
	switch t.Op {
	case OVar:
		if t.Sort == SInt {
			v, ok := r.vars[t.Name]
			if !ok {
				v = Var(t.Name+"!r", SReal)
				r.vars[t.Name] = v
			}
			out = v
		} else {
			out = t
		}
	case OAdd:
		out = Add(r.Relax(t.Args[0]), r.Relax(t.Args[1]))
	case OSub:
		out = Sub(r.Relax(t.Args[0]), r.Relax(t.Args[1]))
	case OMul:
		out = Mul(r.Relax(t.Args[0]), r.Relax(t.Args[1]))
	case ONeg:
		out = Neg(r.Relax(t.Args[0]))
	case OAbs:
		a := r.Relax(t.Args[0])
		out = Ite(Lt(a, rzero), Neg(a), a)
	case ODiv:
		out = r.quotient(t.Args[0], t.Args[1], r.Relax(t.Args[0]), r.Relax(t.Args[1]))
	case OMod:
		ra, rb := r.Relax(t.Args[0]), r.Relax(t.Args[1])
		q := r.quotient(t.Args[0], t.Args[1], ra, rb)
		out = Sub(ra, Mul(rb, q))
	case OIte:
		out = Ite(r.Relax(t.Args[0]), r.Relax(t.Args[1]), r.Relax(t.Args[2]))
	case OEq:
		out = Eq(r.Relax(t.Args[0]), r.Relax(t.Args[1]))
	case OLt:
		out = Lt(r.Relax(t.Args[0]), r.Relax(t.Args[1]))
	case OLe:
		out = Le(r.Relax(t.Args[0]), r.Relax(t.Args[1]))
	case OAnd:
		as := make([]*Term, len(t.Args))
		for i, a := range t.Args {
			as[i] = r.Relax(a)
		}
		out = And(as...)
	case OOr:
		as := make([]*Term, len(t.Args))
		for i, a := range t.Args {
			as[i] = r.Relax(a)
		}
		out = Or(as...)
	case ONot:
		out = Not(r.Relax(t.Args[0]))
	case OToReal:
		out = r.Relax(t.Args[0])
	case ORDiv:
		out = RDiv(r.Relax(t.Args[0]), r.Relax(t.Args[1]))
	case OToInt:
		// floor: fresh q with q <= a < q + 1
		a := r.Relax(t.Args[0])
		r.fresh++
		q := Var(fmt.Sprintf("q!%d", r.fresh), SReal)
		r.Side = append(r.Side, And(Le(q, a), Lt(a, Add(q, Rat(ratOf(1))))))
		out = q
	case OApp:
		as := make([]*Term, len(t.Args))
		for i, a := range t.Args {
			as[i] = r.Relax(a)
		}
		s := t.Sort
		if s == SInt {
			s = SReal
		}
		out = App(t.Name+"!r", s, as...)
	default:
		panic(fmt.Sprintf("relax: op %d", t.Op))
	}
	r.memo[t.ID] = out
	return out
}
