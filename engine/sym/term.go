// Package sym defines the SMT terms built by the symbolic executor.
//
// All Go integers and math/big values are encoded as SMT Int with explicit
// wrap-around where the source type is a machine word; booleans as Bool;
// floats (where supported) as Real.
package sym

import (
	"fmt"
	"math/big"
	"sort"
	"strings"
	"sync/atomic"
)

type Sort uint8

const (
	SInt Sort = iota
	SBool
	SReal
)

func (s Sort) String() string {
	switch s {
	case SInt:
		return "Int"
	case SBool:
		return "Bool"
	}
	return "Real"
}

type Op uint8

const (
	OConst Op = iota
	OVar
	OAdd
	OSub
	OMul
	ODiv // SMT-LIB div (Euclidean)
	OMod // SMT-LIB mod (Euclidean, result >= 0)
	ONeg
	OAbs
	OIte
	OEq
	OLt
	OLe
	OAnd
	OOr
	ONot
	OApp    // uninterpreted function application, Name = function symbol
	OToReal // Int -> Real
	ORDiv   // real division
	OToInt  // floor Real -> Int
)

type Term struct {
	Op   Op
	Sort Sort
	Args []*Term
	Val  *big.Int // OConst Int
	Rat  *big.Rat // OConst Real
	B    bool     // OConst Bool
	Name string   // OVar / OApp
	ID   int64
}

var idCtr int64

func mk(op Op, s Sort, args ...*Term) *Term {
	return &Term{Op: op, Sort: s, Args: args, ID: atomic.AddInt64(&idCtr, 1)}
}

var (
	True  = &Term{Op: OConst, Sort: SBool, B: true, ID: -1}
	False = &Term{Op: OConst, Sort: SBool, B: false, ID: -2}
)

func Int(v *big.Int) *Term {
	t := mk(OConst, SInt)
	t.Val = new(big.Int).Set(v)
	return t
}
func Int64(v int64) *Term   { return Int(big.NewInt(v)) }
func Uint64(v uint64) *Term { return Int(new(big.Int).SetUint64(v)) }
func Bool(b bool) *Term {
	if b {
		return True
	}
	return False
}
func Rat(r *big.Rat) *Term {
	t := mk(OConst, SReal)
	t.Rat = new(big.Rat).Set(r)
	return t
}
func Var(name string, s Sort) *Term {
	t := mk(OVar, s)
	t.Name = name
	return t
}
func App(name string, s Sort, args ...*Term) *Term {
	t := mk(OApp, s, args...)
	t.Name = name
	return t
}

func (t *Term) IsConst() bool { return t.Op == OConst }
func (t *Term) IsTrue() bool  { return t.Op == OConst && t.Sort == SBool && t.B }
func (t *Term) IsFalse() bool { return t.Op == OConst && t.Sort == SBool && !t.B }

// Same reports syntactic identity (pointer or equal constants / variables).
func Same(a, b *Term) bool {
	if a == b {
		return true
	}
	if a.Op != b.Op || a.Sort != b.Sort || len(a.Args) != len(b.Args) {
		return false
	}
	switch a.Op {
	case OConst:
		switch a.Sort {
		case SInt:
			return a.Val.Cmp(b.Val) == 0
		case SBool:
			return a.B == b.B
		default:
			return a.Rat.Cmp(b.Rat) == 0
		}
	case OVar:
		return a.Name == b.Name
	case OApp:
		if a.Name != b.Name {
			return false
		}
	}
	if len(a.Args) == 0 {
		return false
	}
	for i := range a.Args {
		if !Same(a.Args[i], b.Args[i]) {
			return false
		}
	}
	return true
}

func numSort(a, b *Term) Sort {
	if a.Sort == SReal || b.Sort == SReal {
		return SReal
	}
	return SInt
}

func coerce(a *Term, s Sort) *Term {
	if a.Sort == s {
		return a
	}
	if s == SReal && a.Sort == SInt {
		return ToReal(a)
	}
	panic(fmt.Sprintf("sym: cannot coerce %v to %v", a.Sort, s))
}

func ToReal(a *Term) *Term {
	if a.Sort == SReal {
		return a
	}
	if a.IsConst() {
		return Rat(new(big.Rat).SetInt(a.Val))
	}
	return mk(OToReal, SReal, a)
}

// ToInt is floor (SMT to_int).
func ToInt(a *Term) *Term {
	if a.Sort == SInt {
		return a
	}
	if a.IsConst() {
		return Int(ratFloor(a.Rat))
	}
	return mk(OToInt, SInt, a)
}

func ratFloor(r *big.Rat) *big.Int {
	q := new(big.Int)
	m := new(big.Int)
	q.DivMod(r.Num(), r.Denom(), m) // Euclidean with positive denom => floor
	return q
}

func Add(a, b *Term) *Term {
	s := numSort(a, b)
	a, b = coerce(a, s), coerce(b, s)
	if a.IsConst() && b.IsConst() {
		if s == SInt {
			return Int(new(big.Int).Add(a.Val, b.Val))
		}
		return Rat(new(big.Rat).Add(a.Rat, b.Rat))
	}
	if isZero(a) {
		return b
	}
	if isZero(b) {
		return a
	}
	return mk(OAdd, s, a, b)
}

func Sub(a, b *Term) *Term {
	s := numSort(a, b)
	a, b = coerce(a, s), coerce(b, s)
	if a.IsConst() && b.IsConst() {
		if s == SInt {
			return Int(new(big.Int).Sub(a.Val, b.Val))
		}
		return Rat(new(big.Rat).Sub(a.Rat, b.Rat))
	}
	if isZero(b) {
		return a
	}
	if Same(a, b) {
		if s == SInt {
			return Int64(0)
		}
		return Rat(new(big.Rat))
	}
	return mk(OSub, s, a, b)
}

func Mul(a, b *Term) *Term {
	s := numSort(a, b)
	a, b = coerce(a, s), coerce(b, s)
	if a.IsConst() && b.IsConst() {
		if s == SInt {
			return Int(new(big.Int).Mul(a.Val, b.Val))
		}
		return Rat(new(big.Rat).Mul(a.Rat, b.Rat))
	}
	if isZero(a) || isZero(b) {
		if s == SInt {
			return Int64(0)
		}
		return Rat(new(big.Rat))
	}
	if isOne(a) {
		return b
	}
	if isOne(b) {
		return a
	}
	return mk(OMul, s, a, b)
}

func Neg(a *Term) *Term {
	if a.IsConst() {
		if a.Sort == SInt {
			return Int(new(big.Int).Neg(a.Val))
		}
		return Rat(new(big.Rat).Neg(a.Rat))
	}
	if a.Op == ONeg {
		return a.Args[0]
	}
	return mk(ONeg, a.Sort, a)
}

func Abs(a *Term) *Term {
	if a.IsConst() && a.Sort == SInt {
		return Int(new(big.Int).Abs(a.Val))
	}
	if a.Sort == SReal {
		return Ite(Lt(a, Rat(new(big.Rat))), Neg(a), a)
	}
	return mk(OAbs, SInt, a)
}

func isZero(a *Term) bool {
	if !a.IsConst() {
		return false
	}
	if a.Sort == SInt {
		return a.Val.Sign() == 0
	}
	return a.Sort == SReal && a.Rat.Sign() == 0
}
func isOne(a *Term) bool {
	if !a.IsConst() {
		return false
	}
	if a.Sort == SInt {
		return a.Val.Cmp(big.NewInt(1)) == 0
	}
	return a.Sort == SReal && a.Rat.Cmp(big.NewRat(1, 1)) == 0
}

// EDiv is SMT-LIB Euclidean div; caller guarantees b != 0 on the path.
func EDiv(a, b *Term) *Term {
	if a.IsConst() && b.IsConst() && b.Val.Sign() != 0 {
		q, m := new(big.Int), new(big.Int)
		q.DivMod(a.Val, b.Val, m)
		return Int(q)
	}
	if isOne(b) {
		return a
	}
	return mk(ODiv, SInt, a, b)
}

// EMod is SMT-LIB mod (0 <= r < |b|).
func EMod(a, b *Term) *Term {
	if a.IsConst() && b.IsConst() && b.Val.Sign() != 0 {
		q, m := new(big.Int), new(big.Int)
		q.DivMod(a.Val, b.Val, m)
		return Int(m)
	}
	if isOne(b) {
		return Int64(0)
	}
	return mk(OMod, SInt, a, b)
}

// TDiv is Go's truncated integer division (a / b, big.Int.Quo).
func TDiv(a, b *Term) *Term {
	if a.IsConst() && b.IsConst() && b.Val.Sign() != 0 {
		return Int(new(big.Int).Quo(a.Val, b.Val))
	}
	if isOne(b) {
		return a
	}
	return Ite(Le(Int64(0), a), EDiv(a, b), Neg(EDiv(Neg(a), b)))
}

// TRem is Go's truncated remainder (a % b, big.Int.Rem).
func TRem(a, b *Term) *Term {
	if a.IsConst() && b.IsConst() && b.Val.Sign() != 0 {
		return Int(new(big.Int).Rem(a.Val, b.Val))
	}
	return Ite(Le(Int64(0), a), EMod(a, b), Neg(EMod(Neg(a), b)))
}

func RDiv(a, b *Term) *Term {
	a, b = ToReal(a), ToReal(b)
	if a.IsConst() && b.IsConst() && b.Rat.Sign() != 0 {
		return Rat(new(big.Rat).Quo(a.Rat, b.Rat))
	}
	return mk(ORDiv, SReal, a, b)
}

func Ite(c, a, b *Term) *Term {
	if c.IsTrue() {
		return a
	}
	if c.IsFalse() {
		return b
	}
	if Same(a, b) {
		return a
	}
	if a.Sort != b.Sort {
		s := numSort(a, b)
		a, b = coerce(a, s), coerce(b, s)
	}
	if a.Sort == SBool {
		if a.IsTrue() && b.IsFalse() {
			return c
		}
		if a.IsFalse() && b.IsTrue() {
			return Not(c)
		}
	}
	return mk(OIte, a.Sort, c, a, b)
}

func Eq(a, b *Term) *Term {
	if a.Sort != b.Sort {
		s := numSort(a, b)
		a, b = coerce(a, s), coerce(b, s)
	}
	if a.IsConst() && b.IsConst() {
		return Bool(Same(a, b))
	}
	if Same(a, b) {
		return True
	}
	if a.Sort == SBool {
		if b.IsTrue() {
			return a
		}
		if b.IsFalse() {
			return Not(a)
		}
		if a.IsTrue() {
			return b
		}
		if a.IsFalse() {
			return Not(b)
		}
	}
	return mk(OEq, SBool, a, b)
}

func cmpConst(a, b *Term) int {
	if a.Sort == SInt {
		return a.Val.Cmp(b.Val)
	}
	return a.Rat.Cmp(b.Rat)
}

func Lt(a, b *Term) *Term {
	s := numSort(a, b)
	a, b = coerce(a, s), coerce(b, s)
	if a.IsConst() && b.IsConst() {
		return Bool(cmpConst(a, b) < 0)
	}
	if Same(a, b) {
		return False
	}
	return mk(OLt, SBool, a, b)
}

func Le(a, b *Term) *Term {
	s := numSort(a, b)
	a, b = coerce(a, s), coerce(b, s)
	if a.IsConst() && b.IsConst() {
		return Bool(cmpConst(a, b) <= 0)
	}
	if Same(a, b) {
		return True
	}
	return mk(OLe, SBool, a, b)
}
func Gt(a, b *Term) *Term { return Lt(b, a) }
func Ge(a, b *Term) *Term { return Le(b, a) }
func Ne(a, b *Term) *Term { return Not(Eq(a, b)) }

func Not(a *Term) *Term {
	if a.IsConst() {
		return Bool(!a.B)
	}
	if a.Op == ONot {
		return a.Args[0]
	}
	return mk(ONot, SBool, a)
}

func And(ts ...*Term) *Term {
	var out []*Term
	for _, t := range ts {
		if t.IsFalse() {
			return False
		}
		if t.IsTrue() {
			continue
		}
		out = append(out, t)
	}
	switch len(out) {
	case 0:
		return True
	case 1:
		return out[0]
	}
	return mk(OAnd, SBool, out...)
}

func Or(ts ...*Term) *Term {
	var out []*Term
	for _, t := range ts {
		if t.IsTrue() {
			return True
		}
		if t.IsFalse() {
			continue
		}
		out = append(out, t)
	}
	switch len(out) {
	case 0:
		return False
	case 1:
		return out[0]
	}
	return mk(OOr, SBool, out...)
}

func Implies(a, b *Term) *Term { return Or(Not(a), b) }

var pow2 = map[uint]*big.Int{}

func Pow2(n uint) *big.Int {
	if v, ok := pow2[n]; ok {
		return v
	}
	return new(big.Int).Lsh(big.NewInt(1), n)
}

func init() {
	for _, n := range []uint{7, 8, 15, 16, 31, 32, 63, 64, 256} {
		pow2[n] = new(big.Int).Lsh(big.NewInt(1), n)
	}
}

// Wrap reduces t to the range of a machine integer of the given width.
func Wrap(t *Term, bits uint, signed bool) *Term {
	m := Pow2(bits)
	if t.IsConst() {
		v := new(big.Int).Mod(t.Val, m) // Euclidean, >= 0
		if signed && v.Cmp(Pow2(bits-1)) >= 0 {
			v.Sub(v, m)
		}
		return Int(v)
	}
	if !signed {
		return EMod(t, Int(m))
	}
	h := Int(Pow2(bits - 1))
	return Sub(EMod(Add(t, h), Int(m)), h)
}

// InRange is lo <= t <= hi for a machine integer type.
func InRange(t *Term, bits uint, signed bool) *Term {
	if signed {
		lo := new(big.Int).Neg(Pow2(bits - 1))
		hi := new(big.Int).Sub(Pow2(bits-1), big.NewInt(1))
		return And(Le(Int(lo), t), Le(t, Int(hi)))
	}
	hi := new(big.Int).Sub(Pow2(bits), big.NewInt(1))
	return And(Le(Int64(0), t), Le(t, Int(hi)))
}

// ---------------------------------------------------------------------
// Printing

// Printer emits SMT-LIB2 with one define-fun per shared inner node so DAGs
// do not blow up. Definitions are emitted once per solver scope.
type Printer struct {
	Defined  map[int64]string // term id -> symbol
	Declared map[string]Sort  // variables
	DeclApp  map[string]string
	Out      *strings.Builder
}

func NewPrinter() *Printer {
	return &Printer{Defined: map[int64]string{}, Declared: map[string]Sort{}, DeclApp: map[string]string{}, Out: &strings.Builder{}}
}

func constStr(t *Term) string {
	switch t.Sort {
	case SBool:
		if t.B {
			return "true"
		}
		return "false"
	case SInt:
		if t.Val.Sign() < 0 {
			return "(- " + new(big.Int).Neg(t.Val).String() + ")"
		}
		return t.Val.String()
	default:
		n, d := t.Rat.Num(), t.Rat.Denom()
		ns := new(big.Int).Abs(n).String() + ".0"
		if n.Sign() < 0 {
			ns = "(- " + ns + ")"
		}
		if d.Cmp(big.NewInt(1)) == 0 {
			return ns
		}
		return "(/ " + ns + " " + d.String() + ".0)"
	}
}

var opName = map[Op]string{OAdd: "+", OSub: "-", OMul: "*", ODiv: "div", OMod: "mod", ONeg: "-", OAbs: "abs", OIte: "ite", OEq: "=", OLt: "<", OLe: "<=", OAnd: "and", OOr: "or", ONot: "not", OToReal: "to_real", ORDiv: "/", OToInt: "to_int"}

// Ref returns an SMT expression denoting t, emitting any declarations and
// definitions needed into p.Out first.
func (p *Printer) Ref(t *Term) string {
	switch t.Op {
	case OConst:
		return constStr(t)
	case OVar:
		if _, ok := p.Declared[t.Name]; !ok {
			p.Declared[t.Name] = t.Sort
			fmt.Fprintf(p.Out, "(declare-const %s %s)\n", Quote(t.Name), t.Sort)
		}
		return Quote(t.Name)
	}
	if s, ok := p.Defined[t.ID]; ok {
		return s
	}
	args := make([]string, len(t.Args))
	for i, a := range t.Args {
		args[i] = p.Ref(a)
	}
	var body string
	if t.Op == OApp {
		if _, ok := p.DeclApp[t.Name]; !ok {
			var as []string
			for _, a := range t.Args {
				as = append(as, a.Sort.String())
			}
			sig := "(" + strings.Join(as, " ") + ") " + t.Sort.String()
			p.DeclApp[t.Name] = sig
			fmt.Fprintf(p.Out, "(declare-fun %s %s)\n", Quote(t.Name), sig)
		}
		if len(args) == 0 {
			body = Quote(t.Name)
		} else {
			body = "(" + Quote(t.Name) + " " + strings.Join(args, " ") + ")"
		}
	} else {
		body = "(" + opName[t.Op] + " " + strings.Join(args, " ") + ")"
	}
	name := fmt.Sprintf("t!%d", t.ID)
	fmt.Fprintf(p.Out, "(define-fun %s () %s %s)\n", name, t.Sort, body)
	p.Defined[t.ID] = name
	return name
}

func Quote(s string) string {
	for _, c := range s {
		if !(c >= 'a' && c <= 'z' || c >= 'A' && c <= 'Z' || c >= '0' && c <= '9' || c == '_' || c == '.' || c == '!') {
			return "|" + strings.ReplaceAll(s, "|", "/") + "|"
		}
	}
	return s
}

// String renders a term as a tree (debugging, digests).
func (t *Term) String() string {
	switch t.Op {
	case OConst:
		return constStr(t)
	case OVar:
		return t.Name
	}
	args := make([]string, len(t.Args))
	for i, a := range t.Args {
		args[i] = a.String()
	}
	n := opName[t.Op]
	if t.Op == OApp {
		n = t.Name
	}
	return "(" + n + " " + strings.Join(args, " ") + ")"
}

// Vars collects the free variables of t.
func Vars(t *Term, into map[string]*Term) {
	seen := map[int64]bool{}
	var walk func(*Term)
	walk = func(x *Term) {
		if x.Op == OVar {
			into[x.Name] = x
			return
		}
		if len(x.Args) == 0 || seen[x.ID] {
			return
		}
		seen[x.ID] = true
		for _, a := range x.Args {
			walk(a)
		}
	}
	walk(t)
}

func SortedVarNames(m map[string]*Term) []string {
	var ns []string
	for n := range m {
		ns = append(ns, n)
	}
	sort.Strings(ns)
	return ns
}

func ratOf(n int64) *big.Rat { return big.NewRat(n, 1) }
