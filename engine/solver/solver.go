// Package solver drives one persistent SMT solver process over a pipe.
package solver

import (
	"bufio"
	"fmt"
	"io"
	"math/big"
	"os"
	"os/exec"
	"strings"
	"time"

	"gosym/sym"
)

type Result int

const (
	Unsat Result = iota
	Sat
	Unknown
)

func (r Result) String() string { return [...]string{"unsat", "sat", "unknown"}[r] }

type Stats struct {
	Sat, Unsat, Unknown int
	Wall                time.Duration
}

type Solver struct {
	Kind    string
	cmd     *exec.Cmd
	in      io.WriteCloser
	out     *bufio.Reader
	pr      *sym.Printer
	Stats   Stats
	Timeout int // ms
	LogW    io.Writer
	dead    bool
	curTO   int
	// NextTimeout, when non-zero, applies to the next Check only (z3).
	NextTimeout int
}

func New(kind string, timeoutMs int) (*Solver, error) {
	s := &Solver{Kind: kind, Timeout: timeoutMs}
	if err := s.start(); err != nil {
		return nil, err
	}
	return s, nil
}

func (s *Solver) start() error {
	var cmd *exec.Cmd
	switch s.Kind {
	case "z3-new", "z3":
		cmd = exec.Command(s.Kind, "-in")
	case "cvc5":
		cmd = exec.Command("cvc5", "--incremental", "--produce-models", fmt.Sprintf("--tlimit-per=%d", s.Timeout))
	default:
		return fmt.Errorf("unknown solver %q", s.Kind)
	}
	in, err := cmd.StdinPipe()
	if err != nil {
		return err
	}
	out, err := cmd.StdoutPipe()
	if err != nil {
		return err
	}
	cmd.Stderr = os.Stderr
	if err := cmd.Start(); err != nil {
		return err
	}
	s.cmd, s.in, s.out = cmd, in, bufio.NewReaderSize(out, 1<<16)
	s.dead = false
	s.preamble()
	return nil
}

func (s *Solver) preamble() {
	s.pr = sym.NewPrinter()
	if s.Kind == "cvc5" {
		s.send("(set-logic ALL)\n")
	} else {
		s.send(fmt.Sprintf("(set-option :timeout %d)\n", s.Timeout))
		s.curTO = s.Timeout
	}
}

func (s *Solver) send(txt string) {
	if s.LogW != nil {
		io.WriteString(s.LogW, txt)
	}
	if _, err := io.WriteString(s.in, txt); err != nil {
		s.dead = true
	}
}

func (s *Solver) Close() {
	if s.cmd != nil {
		s.in.Close()
		s.cmd.Process.Kill()
		s.cmd.Wait()
		s.cmd = nil
	}
}

// Reset drops all assertions and definitions.
func (s *Solver) Reset() {
	if s.dead {
		s.Close()
		s.start()
		return
	}
	s.send("(reset)\n")
	s.preamble()
}

func (s *Solver) flushDefs() {
	if s.pr.Out.Len() > 0 {
		s.send(s.pr.Out.String())
		s.pr.Out.Reset()
	}
}

// Assert adds t at the current (base) level.
func (s *Solver) Assert(t *sym.Term) {
	if t.IsTrue() {
		return
	}
	r := s.pr.Ref(t)
	s.flushDefs()
	s.send("(assert " + r + ")\n")
}

// readSexp reads one line (for check-sat) or one balanced s-expression.
func (s *Solver) readSexp() (string, error) {
	var sb strings.Builder
	depth := 0
	started := false
	inBar := false
	for {
		c, err := s.out.ReadByte()
		if err != nil {
			s.dead = true
			return sb.String(), err
		}
		if inBar {
			sb.WriteByte(c)
			if c == '|' {
				inBar = false
			}
			continue
		}
		switch c {
		case '|':
			inBar = true
			started = true
			sb.WriteByte(c)
		case '(':
			depth++
			started = true
			sb.WriteByte(c)
		case ')':
			depth--
			sb.WriteByte(c)
			if depth == 0 {
				return sb.String(), nil
			}
		case '\n', '\r', ' ', '\t':
			if started && depth == 0 {
				return sb.String(), nil
			}
			if started {
				sb.WriteByte(' ')
			}
		default:
			started = true
			sb.WriteByte(c)
		}
	}
}

// Check decides satisfiability of the asserted formulas plus extra. When the
// answer is sat and want is non-empty, the values of those terms are returned
// as SMT value strings (parsed by ParseValue).
func (s *Solver) Check(extra []*sym.Term, want []*sym.Term) (Result, []string, error) {
	t0 := time.Now()
	defer func() { s.Stats.Wall += time.Since(t0) }()
	var refs []string
	for _, e := range extra {
		refs = append(refs, s.pr.Ref(e))
	}
	var wrefs []string
	for _, w := range want {
		wrefs = append(wrefs, s.pr.Ref(w))
	}
	s.flushDefs()
	var sb strings.Builder
	if s.Kind != "cvc5" {
		want := s.Timeout
		if s.NextTimeout > 0 {
			want = s.NextTimeout
		}
		s.NextTimeout = 0
		if want != s.curTO {
			sb.WriteString(fmt.Sprintf("(set-option :timeout %d)\n", want))
			s.curTO = want
		}
	}
	sb.WriteString("(push 1)\n")
	for _, r := range refs {
		sb.WriteString("(assert " + r + ")\n")
	}
	sb.WriteString("(check-sat)\n")
	s.send(sb.String())
	ans, err := s.readSexp()
	if err != nil {
		s.Stats.Unknown++
		return Unknown, nil, fmt.Errorf("solver died: %v (%q)", err, ans)
	}
	var res Result
	switch ans {
	case "sat":
		res = Sat
		s.Stats.Sat++
	case "unsat":
		res = Unsat
		s.Stats.Unsat++
	default:
		res = Unknown
		s.Stats.Unknown++
		if strings.HasPrefix(ans, "(error") {
			s.send("(pop 1)\n")
			return Unknown, nil, fmt.Errorf("solver error: %s", ans)
		}
	}
	var vals []string
	if res == Sat && len(wrefs) > 0 {
		s.send("(get-value (" + strings.Join(wrefs, " ") + "))\n")
		resp, err := s.readSexp()
		if err != nil {
			return Unknown, nil, err
		}
		if strings.HasPrefix(resp, "(error") {
			s.send("(pop 1)\n")
			return Unknown, nil, fmt.Errorf("solver error: %s", resp)
		}
		pairs, err := parseTop(resp)
		if err != nil || len(pairs) != len(wrefs) {
			s.send("(pop 1)\n")
			return Unknown, nil, fmt.Errorf("bad get-value response %q: %v", resp, err)
		}
		vals = pairs
	}
	s.send("(pop 1)\n")
	return res, vals, nil
}

// ---- tiny s-expression reader for get-value responses ----

type sx struct {
	atom string
	list []*sx
}

func parseSx(s string, i int) (*sx, int, error) {
	for i < len(s) && (s[i] == ' ' || s[i] == '\n') {
		i++
	}
	if i >= len(s) {
		return nil, i, fmt.Errorf("eof")
	}
	if s[i] == '(' {
		i++
		n := &sx{list: []*sx{}}
		for {
			for i < len(s) && s[i] == ' ' {
				i++
			}
			if i >= len(s) {
				return nil, i, fmt.Errorf("unbalanced")
			}
			if s[i] == ')' {
				return n, i + 1, nil
			}
			c, j, err := parseSx(s, i)
			if err != nil {
				return nil, j, err
			}
			n.list = append(n.list, c)
			i = j
		}
	}
	j := i
	if s[i] == '|' {
		j = i + 1
		for j < len(s) && s[j] != '|' {
			j++
		}
		j++
	} else {
		for j < len(s) && s[j] != ' ' && s[j] != ')' && s[j] != '(' {
			j++
		}
	}
	return &sx{atom: s[i:j]}, j, nil
}

func (n *sx) String() string {
	if n.list == nil {
		return n.atom
	}
	var ps []string
	for _, c := range n.list {
		ps = append(ps, c.String())
	}
	return "(" + strings.Join(ps, " ") + ")"
}

func parseTop(resp string) ([]string, error) {
	n, _, err := parseSx(resp, 0)
	if err != nil {
		return nil, err
	}
	var out []string
	for _, p := range n.list {
		if len(p.list) != 2 {
			return nil, fmt.Errorf("pair expected")
		}
		out = append(out, p.list[1].String())
	}
	return out, nil
}

// ParseValue converts an SMT value string to a rational (ints have denom 1)
// or a bool.
func ParseValue(v string) (r *big.Rat, b bool, isBool bool, err error) {
	if v == "true" {
		return nil, true, true, nil
	}
	if v == "false" {
		return nil, false, true, nil
	}
	n, _, e := parseSx(v, 0)
	if e != nil {
		return nil, false, false, e
	}
	r, err = evalNum(n)
	return r, false, false, err
}

func evalNum(n *sx) (*big.Rat, error) {
	if n.list == nil {
		a := n.atom
		if strings.HasSuffix(a, "?") { // z3 may print approximations "1.5?"
			return nil, fmt.Errorf("inexact value %s", a)
		}
		r, ok := new(big.Rat).SetString(a)
		if !ok {
			return nil, fmt.Errorf("bad numeral %q", a)
		}
		return r, nil
	}
	if len(n.list) == 0 {
		return nil, fmt.Errorf("empty list")
	}
	op := n.list[0].atom
	var args []*big.Rat
	for _, c := range n.list[1:] {
		r, err := evalNum(c)
		if err != nil {
			return nil, err
		}
		args = append(args, r)
	}
	switch {
	case op == "-" && len(args) == 1:
		return new(big.Rat).Neg(args[0]), nil
	case op == "-" && len(args) == 2:
		return new(big.Rat).Sub(args[0], args[1]), nil
	case op == "/" && len(args) == 2:
		if args[1].Sign() == 0 {
			return nil, fmt.Errorf("div by zero in value")
		}
		return new(big.Rat).Quo(args[0], args[1]), nil
	case op == "+" && len(args) == 2:
		return new(big.Rat).Add(args[0], args[1]), nil
	case op == "*" && len(args) == 2:
		return new(big.Rat).Mul(args[0], args[1]), nil
	}
	return nil, fmt.Errorf("unsupported value %s", n.String())
}
