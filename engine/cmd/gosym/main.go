// gosym: solver-based checking of the real OneLedger/protocol code.
//
//	gosym run   --pkgs storage --harness 'SV_C09.*' [--tier quick] [--trace]
//	gosym check --property C09 [--tier quick|thorough]
//	gosym replay <replay.json>
//	gosym selftest
package main

import (
	"encoding/json"
	"flag"
	"fmt"
	"os"
	"regexp"
	"runtime"
	"sort"
	"strings"
	"time"

	"gosym/interp"
)

func main() {
	if len(os.Args) < 2 {
		fmt.Fprintln(os.Stderr, "usage: gosym run|check|replay|selftest ...")
		os.Exit(2)
	}
	switch os.Args[1] {
	case "run":
		os.Exit(cmdRun(os.Args[2:]))
	case "check":
		os.Exit(cmdCheck(os.Args[2:]))
	case "replay":
		os.Exit(cmdReplay(os.Args[2:]))
	case "selftest":
		os.Exit(cmdSelftest(os.Args[2:]))
	}
	fmt.Fprintln(os.Stderr, "unknown command", os.Args[1])
	os.Exit(2)
}

func defaultConfig(tier string) *interp.Config {
	c := &interp.Config{
		Solver:     "z3-new",
		TimeoutMs:  60000,
		Workers:    runtime.NumCPU(),
		MaxSteps:   20_000_000,
		MaxPaths:   200000,
		MaxEnum:    8,
		RepoPrefix: repoModule,
		Witnesses:  25,
	}
	if tier == "thorough" {
		c.Witnesses = 200
		c.MaxPaths = 2_000_000
	}
	return c
}

func cmdRun(args []string) int {
	fs := flag.NewFlagSet("run", flag.ExitOnError)
	pkgs := fs.String("pkgs", "", "comma-separated repo-relative package dirs")
	hre := fs.String("harness", ".*", "regexp on harness names")
	tier := fs.String("tier", "quick", "quick|thorough")
	trace := fs.Bool("trace", false, "trace calls")
	workers := fs.Int("workers", runtime.NumCPU(), "parallel workers")
	maxPaths := fs.Int("max-paths", 0, "path budget")
	slog := fs.String("solver-log", "", "write worker 0's SMT-LIB dialogue here")
	solverName := fs.String("solver", "z3-new", "z3-new|z3|cvc5")
	verbose := fs.Bool("v", false, "print every path")
	fs.Parse(args)
	t0 := time.Now()
	l, err := load(strings.Split(*pkgs, ","), false)
	if err != nil {
		fmt.Fprintln(os.Stderr, "load:", err)
		return 2
	}
	fmt.Fprintf(os.Stderr, "loaded in %.1fs\n", time.Since(t0).Seconds())
	cfg := defaultConfig(*tier)
	cfg.Trace = *trace
	cfg.Workers = *workers
	cfg.SolverLog = *slog
	cfg.Solver = *solverName
	cfg.Tier = tierNum(*tier)
	if *maxPaths > 0 {
		cfg.MaxPaths = *maxPaths
	}
	if *trace {
		cfg.Workers = 1
	}
	hs := l.harnesses(regexp.MustCompile(*hre))
	if len(hs) == 0 {
		fmt.Fprintln(os.Stderr, "no harness matches")
		return 2
	}
	rc := 0
	for _, h := range hs {
		hr := interp.Explore(l.prog, h, cfg)
		printSummary(hr, *verbose)
		if len(hr.Violations) > 0 || hr.Aborted > 0 {
			rc = 1
		}
	}
	return rc
}

func tierNum(t string) int {
	if t == "thorough" {
		return 1
	}
	return 0
}

func printSummary(hr *interp.HarnessResult, verbose bool) {
	fmt.Printf("== %s: paths=%d completed=%d crashed=%d aborted=%d ended=%d violations=%d steps=%d queries(sat=%d unsat=%d unknown=%d) solver=%.1fs wall=%.1fs truncated=%v\n",
		hr.Harness, len(hr.Paths), hr.Completed, hr.Crashed, hr.Aborted, hr.Ended, len(hr.Violations), hr.Steps,
		hr.Stats.Sat, hr.Stats.Unsat, hr.Stats.Unknown, hr.Stats.Wall.Seconds(), hr.Wall.Seconds(), hr.Truncated)
	var covers []string
	for c := range hr.Covers {
		covers = append(covers, c)
	}
	sort.Strings(covers)
	fmt.Printf("   covers: %v\n", covers)
	var as []string
	for a, n := range hr.Asserts {
		as = append(as, fmt.Sprintf("%s×%d", a, n))
	}
	sort.Strings(as)
	fmt.Printf("   goals discharged: %v\n", as)
	for why, n := range hr.AbortWhy {
		fmt.Printf("   ABORT ×%d: %s\n", n, why)
	}
	for why, n := range hr.CrashWhy {
		fmt.Printf("   crash ×%d: %s\n", n, why)
	}
	for _, v := range hr.Violations {
		b, _ := json.Marshal(v.Model)
		fmt.Printf("   VIOLATION[%s] %s site=%s detail=%s model=%s choices=%v observed=%v\n", v.Kind, v.Label, v.Site, v.Detail, b, v.Choices, v.Observed)
	}
	if verbose {
		for _, p := range hr.Paths {
			fmt.Printf("   path %v: %s %s\n", p.Decisions, p.Status, p.Detail)
		}
	}
}
