package main

import (
	"fmt"
	"go/ast"
	"gosym/interp"
	"os"
	"path/filepath"
	"regexp"
	"sort"
	"strings"

	"golang.org/x/tools/go/packages"
	"golang.org/x/tools/go/ssa"
	"golang.org/x/tools/go/ssa/ssautil"
)

// repoDir is /repo. GOSYM_TRIAL_REPO points the tool at a scratch worktree for
// seed trials (so a trial never touches /repo while a sweep reads it); evidence and
// replays of a trial go under that worktree, never into /verif.
var repoDir = func() string {
	if d := os.Getenv("GOSYM_TRIAL_REPO"); d != "" {
		return d
	}
	return "/repo"
}()

func outDir() string {
	if d := os.Getenv("GOSYM_TRIAL_REPO"); d != "" {
		return filepath.Join(d, ".gosym-out")
	}
	return verifDir()
}

const repoModule = "github.com/Oneledger/protocol"

func verifDir() string {
	if d := os.Getenv("VERIF_DIR"); d != "" {
		return d
	}
	exe, err := os.Executable()
	if err == nil {
		d := filepath.Dir(filepath.Dir(exe))
		if _, err := os.Stat(filepath.Join(d, "harness")); err == nil {
			return d
		}
	}
	return "/verif"
}

// overlayFiles maps /verif/harness/<rel>/zz_sv*.go to /repo/<rel>/zz_sv*.go.
func overlayFiles() (map[string]string, error) {
	root := filepath.Join(verifDir(), "harness")
	out := map[string]string{}
	err := filepath.Walk(root, func(p string, info os.FileInfo, err error) error {
		if err != nil {
			return err
		}
		if info.IsDir() || !strings.HasSuffix(p, ".go") {
			return nil
		}
		rel, _ := filepath.Rel(root, p)
		out[filepath.Join(repoDir, rel)] = p
		return nil
	})
	return out, err
}

type loaded struct {
	prog *ssa.Program
	pkgs []*ssa.Package
	init []*packages.Package
}

// load builds SSA for the given repo-relative package dirs (with harness
// overlay) and all their dependencies, from /repo's current working tree.
func load(pkgDirs []string, withTests bool) (*loaded, error) {
	ov, err := overlayFiles()
	if err != nil {
		return nil, err
	}
	overlay := map[string][]byte{}
	for virt, real := range ov {
		if strings.HasSuffix(virt, "_test.go") {
			continue
		}
		b, err := os.ReadFile(real)
		if err != nil {
			return nil, err
		}
		overlay[virt] = b
	}
	cfg := &packages.Config{
		Mode: packages.NeedName | packages.NeedFiles | packages.NeedCompiledGoFiles | packages.NeedImports |
			packages.NeedDeps | packages.NeedTypes | packages.NeedSyntax | packages.NeedTypesInfo | packages.NeedTypesSizes | packages.NeedModule,
		Dir:     repoDir,
		Env:     append(os.Environ(), "CGO_ENABLED=0", "GOFLAGS=-mod=mod", "GOPROXY=off", "GOSUMDB=off", "GOTOOLCHAIN=local"),
		Overlay: overlay,
		Tests:   false,
	}
	var patterns []string
	for _, d := range pkgDirs {
		patterns = append(patterns, "./"+strings.TrimPrefix(d, "./"))
	}
	pkgs, err := packages.Load(cfg, patterns...)
	if err != nil {
		return nil, err
	}
	nerr := 0
	packages.Visit(pkgs, nil, func(p *packages.Package) {
		for _, e := range p.Errors {
			if nerr < 20 {
				fmt.Fprintf(os.Stderr, "load error: %s: %v\n", p.PkgPath, e)
			}
			nerr++
		}
	})
	if nerr > 0 {
		return nil, fmt.Errorf("%d package load errors (does /repo build?)", nerr)
	}
	prog, spkgs := ssautil.AllPackages(pkgs, ssa.InstantiateGenerics|ssa.SanityCheckFunctions&0)
	prog.Build()
	// harness-supplied models of repo functions: `// sv:models <full name>` on
	// a function named svModel_*
	interp.Models = map[string]*ssa.Function{}
	for _, p := range prog.AllPackages() {
		if p == nil || p.Pkg == nil || !strings.HasPrefix(p.Pkg.Path(), repoModule) {
			continue
		}
		for name, m := range p.Members {
			f, ok := m.(*ssa.Function)
			if !ok || !strings.HasPrefix(name, "svModel_") {
				continue
			}
			if fd, ok := f.Syntax().(*ast.FuncDecl); ok && fd.Doc != nil {
				if mm := modelsRe.FindStringSubmatch(fd.Doc.Text()); mm != nil {
					interp.Models[mm[1]] = f
				}
			}
		}
	}
	return &loaded{prog: prog, pkgs: spkgs, init: pkgs}, nil
}

var modelsRe = regexp.MustCompile(`sv:models\s+(\S+)`)

// harnesses returns the SV_* functions of the loaded root packages that match re.
func (l *loaded) harnesses(re *regexp.Regexp) []*ssa.Function {
	var out []*ssa.Function
	for _, p := range l.pkgs {
		if p == nil {
			continue
		}
		for name, m := range p.Members {
			f, ok := m.(*ssa.Function)
			if !ok || !strings.HasPrefix(name, "SV_") {
				continue
			}
			if re.MatchString(name) {
				out = append(out, f)
			}
		}
	}
	sort.Slice(out, func(a, b int) bool { return out[a].Name() < out[b].Name() })
	return out
}
