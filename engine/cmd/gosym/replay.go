package main

// Native replay: the same harness functions are compiled with the real code
// (go test -c -overlay) and run on the solver's model; counterexamples are
// reported only when they reproduce, and path witnesses validate the encoding.

import (
	"bytes"
	"encoding/json"
	"fmt"
	"os"
	"os/exec"
	"path/filepath"
	"sort"
	"strings"
	"time"
)

type replayInput struct {
	Harness   string            `json:"harness"`
	Pkg       string            `json:"pkg"`
	Property  string            `json:"property,omitempty"`
	Tier      int               `json:"tier"`
	Model     map[string]string `json:"model"`
	Choices   map[string]int    `json:"choices"`
	Decisions []string          `json:"decisions,omitempty"`
	Expect    *replayExpect     `json:"expect,omitempty"`
}

type replayExpect struct {
	Kind     string            `json:"kind"` // assert | panic | exit | completed
	Label    string            `json:"label,omitempty"`
	Detail   string            `json:"detail,omitempty"`
	Site     string            `json:"site,omitempty"`
	Observed map[string]string `json:"observations,omitempty"`
}

type nativeResult struct {
	ExitCode    int
	Done        bool
	AssertFails []string
	AssumeFail  bool
	Panic       string
	Obs         map[string]string
	Output      string
}

type nativeBuilder struct {
	tmp     string
	bins    map[string]string // pkg dir -> test binary
	ovJSON  string
	buildS  float64
	harness map[string][]string // pkg dir -> harness names (for the generated registry)
}

func newNativeBuilder(harnessByPkg map[string][]string) (*nativeBuilder, error) {
	tmp, err := os.MkdirTemp("", "gosym-replay-")
	if err != nil {
		return nil, err
	}
	nb := &nativeBuilder{tmp: tmp, bins: map[string]string{}, harness: harnessByPkg}
	ov, err := overlayFiles()
	if err != nil {
		return nil, err
	}
	repl := map[string]string{}
	for virt, real := range ov {
		repl[virt] = real
	}
	// generated replay test per package
	for pkg, names := range harnessByPkg {
		pkgName, err := goPackageName(pkg)
		if err != nil {
			return nil, err
		}
		sort.Strings(names)
		var sb strings.Builder
		fmt.Fprintf(&sb, "package %s\n\nimport (\n\t\"os\"\n\t\"testing\"\n\n\tsv \"%s/zz_sv\"\n)\n\n", pkgName, repoModule)
		sb.WriteString("var svHarnesses = map[string]func(){\n")
		for _, n := range names {
			fmt.Fprintf(&sb, "\t%q: %s,\n", n, n)
		}
		sb.WriteString("}\n\nfunc TestSVReplay(t *testing.T) {\n\tf, ok := svHarnesses[os.Getenv(\"SV_HARNESS\")]\n\tif !ok {\n\t\tt.Fatal(\"SV-ERROR unknown harness\")\n\t}\n\tsv.Reset()\n\tf()\n\tsv.Done()\n}\n")
		real := filepath.Join(tmp, strings.ReplaceAll(pkg, "/", "_")+"_replay_test.go")
		if err := os.WriteFile(real, []byte(sb.String()), 0o644); err != nil {
			return nil, err
		}
		repl[filepath.Join(repoDir, pkg, "zz_sv_replay_test.go")] = real
		// the repository's own test files of that package are not needed in the
		// replay binary (some no longer compile): replace each by its package clause
		ents, _ := os.ReadDir(filepath.Join(repoDir, pkg))
		for _, e := range ents {
			if !strings.HasSuffix(e.Name(), "_test.go") {
				continue
			}
			src, err := os.ReadFile(filepath.Join(repoDir, pkg, e.Name()))
			if err != nil {
				continue
			}
			clause := ""
			for _, line := range strings.Split(string(src), "\n") {
				if strings.HasPrefix(line, "package ") {
					clause = line
					break
				}
			}
			if clause == "" {
				continue
			}
			stub := filepath.Join(tmp, strings.ReplaceAll(pkg, "/", "_")+"_"+e.Name())
			os.WriteFile(stub, []byte(clause+"\n"), 0o644)
			repl[filepath.Join(repoDir, pkg, e.Name())] = stub
		}
	}
	b, _ := json.Marshal(map[string]interface{}{"Replace": repl})
	nb.ovJSON = filepath.Join(tmp, "overlay.json")
	if err := os.WriteFile(nb.ovJSON, b, 0o644); err != nil {
		return nil, err
	}
	return nb, nil
}

func goPackageName(pkgDir string) (string, error) {
	// the package clause of any harness file in that directory
	dir := filepath.Join(verifDir(), "harness", pkgDir)
	ents, err := os.ReadDir(dir)
	if err != nil {
		return "", err
	}
	for _, e := range ents {
		if strings.HasSuffix(e.Name(), ".go") {
			b, err := os.ReadFile(filepath.Join(dir, e.Name()))
			if err != nil {
				return "", err
			}
			for _, line := range strings.Split(string(b), "\n") {
				if strings.HasPrefix(line, "package ") {
					return strings.TrimSpace(strings.TrimPrefix(line, "package ")), nil
				}
			}
		}
	}
	return "", fmt.Errorf("no package clause found in %s", dir)
}

func (nb *nativeBuilder) close() {
	if nb != nil && nb.tmp != "" {
		os.RemoveAll(nb.tmp)
	}
}

func goEnv() []string {
	return append(os.Environ(), "GOFLAGS=-mod=mod", "GOPROXY=off", "GOSUMDB=off", "GOTOOLCHAIN=local", "CGO_ENABLED=0")
}

// binary builds (once) the test binary of a package.
func (nb *nativeBuilder) binary(pkg string) (string, error) {
	if b, ok := nb.bins[pkg]; ok {
		return b, nil
	}
	t0 := time.Now()
	out := filepath.Join(nb.tmp, strings.ReplaceAll(pkg, "/", "_")+".test")
	cmd := exec.Command("go", "test", "-c", "-vet=off", "-ldflags=-checklinkname=0", "-overlay", nb.ovJSON, "-o", out, "./"+pkg)
	cmd.Dir = repoDir
	cmd.Env = goEnv()
	var buf bytes.Buffer
	cmd.Stdout, cmd.Stderr = &buf, &buf
	if err := cmd.Run(); err != nil {
		return "", fmt.Errorf("native build of %s failed: %v\n%s", pkg, err, buf.String())
	}
	nb.buildS += time.Since(t0).Seconds()
	nb.bins[pkg] = out
	return out, nil
}

// run executes one harness natively on the given inputs.
func (nb *nativeBuilder) run(in *replayInput) (*nativeResult, error) {
	bin, err := nb.binary(in.Pkg)
	if err != nil {
		return nil, err
	}
	f, err := os.CreateTemp(nb.tmp, "in-*.json")
	if err != nil {
		return nil, err
	}
	b, _ := json.Marshal(in)
	f.Write(b)
	f.Close()
	defer os.Remove(f.Name())
	return runNative(bin, filepath.Join(repoDir, in.Pkg), f.Name(), in.Harness)
}

func runNative(bin, dir, replayPath, harness string) (*nativeResult, error) {
	cmd := exec.Command("timeout", "120", bin, "-test.run", "^TestSVReplay$", "-test.v", "-test.count=1")
	if st, err := os.Stat(dir); err != nil || !st.IsDir() {
		dir = repoDir
	}
	cmd.Dir = dir
	cmd.Env = append(os.Environ(), "SV_REPLAY="+replayPath, "SV_HARNESS="+harness)
	var buf bytes.Buffer
	cmd.Stdout, cmd.Stderr = &buf, &buf
	err := cmd.Run()
	res := &nativeResult{Obs: map[string]string{}, Output: buf.String()}
	if err != nil {
		if ee, ok := err.(*exec.ExitError); ok {
			res.ExitCode = ee.ExitCode()
		} else {
			return nil, err
		}
	}
	for _, line := range strings.Split(res.Output, "\n") {
		line = strings.TrimSpace(line)
		switch {
		case strings.HasPrefix(line, "SV-ASSERT-FAIL "):
			res.AssertFails = append(res.AssertFails, strings.TrimPrefix(line, "SV-ASSERT-FAIL "))
		case strings.HasPrefix(line, "SV-ASSUME-FAIL"), strings.HasPrefix(line, "SV-UNREACHABLE"):
			res.AssumeFail = true
		case strings.HasPrefix(line, "SV-OBS "):
			kv := strings.TrimPrefix(line, "SV-OBS ")
			if i := strings.IndexByte(kv, '='); i >= 0 {
				res.Obs[kv[:i]] = kv[i+1:]
			}
		case line == "SV-DONE":
			res.Done = true
		case strings.HasPrefix(line, "panic: ") && res.Panic == "":
			res.Panic = strings.TrimPrefix(line, "panic: ")
		case strings.HasPrefix(line, "SV-ERROR"):
			return res, fmt.Errorf("replay harness error: %s", line)
		}
	}
	return res, nil
}

// matches decides whether a native run reproduces what the engine predicted.
func (r *nativeResult) matches(e *replayExpect) (bool, string) {
	switch e.Kind {
	case "assert":
		for _, l := range r.AssertFails {
			if l == e.Label {
				return true, ""
			}
		}
		return false, fmt.Sprintf("assertion %q did not fail natively (failed: %v, done=%v, exit=%d, panic=%q)", e.Label, r.AssertFails, r.Done, r.ExitCode, r.Panic)
	case "panic", "exit":
		// a crash: the native run neither completed nor was cut by an assumption
		if !r.Done && !r.AssumeFail && (r.Panic != "" || r.ExitCode != 0) {
			return true, ""
		}
		return false, fmt.Sprintf("no native crash (done=%v exit=%d panic=%q assumeFail=%v)", r.Done, r.ExitCode, r.Panic, r.AssumeFail)
	case "completed":
		if !r.Done {
			return false, fmt.Sprintf("native run did not complete (exit=%d panic=%q assumeFail=%v)", r.ExitCode, r.Panic, r.AssumeFail)
		}
		var diffs []string
		for k, want := range e.Observed {
			if strings.Contains(want, "⟦") {
				continue // opaque symbolic string
			}
			got, ok := r.Obs[k]
			if !ok {
				diffs = append(diffs, fmt.Sprintf("%s: missing natively (engine %s)", k, want))
			} else if got != want {
				diffs = append(diffs, fmt.Sprintf("%s: engine %s native %s", k, want, got))
			}
		}
		if len(diffs) > 0 {
			sort.Strings(diffs)
			return false, strings.Join(diffs, "; ")
		}
		return true, ""
	}
	return false, "unknown expectation " + e.Kind
}

func cmdReplay(args []string) int {
	if len(args) < 1 {
		fmt.Fprintln(os.Stderr, "usage: gosym replay <replay.json>")
		return 2
	}
	b, err := os.ReadFile(args[0])
	if err != nil {
		fmt.Fprintln(os.Stderr, err)
		return 2
	}
	var in replayInput
	if err := json.Unmarshal(b, &in); err != nil {
		fmt.Fprintln(os.Stderr, err)
		return 2
	}
	names, err := harnessNamesInPkg(in.Pkg)
	if err != nil {
		fmt.Fprintln(os.Stderr, err)
		return 2
	}
	nb, err := newNativeBuilder(map[string][]string{in.Pkg: names})
	if err != nil {
		fmt.Fprintln(os.Stderr, err)
		return 2
	}
	defer nb.close()
	res, err := nb.run(&in)
	if err != nil {
		fmt.Fprintln(os.Stderr, err)
		return 2
	}
	fmt.Print(res.Output)
	if in.Expect != nil {
		ok, why := res.matches(in.Expect)
		if ok {
			fmt.Printf("REPRODUCED %s %s (%s)\n", in.Expect.Kind, in.Expect.Label, in.Harness)
			if in.Expect.Kind != "completed" {
				return 1
			}
			return 0
		}
		fmt.Printf("NOT REPRODUCED: %s\n", why)
		return 0
	}
	return 0
}

// harnessNamesInPkg scans harness sources for func SV_* declarations.
func harnessNamesInPkg(pkg string) ([]string, error) {
	dir := filepath.Join(verifDir(), "harness", pkg)
	ents, err := os.ReadDir(dir)
	if err != nil {
		return nil, err
	}
	var out []string
	for _, e := range ents {
		if !strings.HasSuffix(e.Name(), ".go") {
			continue
		}
		b, err := os.ReadFile(filepath.Join(dir, e.Name()))
		if err != nil {
			return nil, err
		}
		for _, line := range strings.Split(string(b), "\n") {
			if strings.HasPrefix(line, "func SV_") {
				n := strings.TrimPrefix(line, "func ")
				if i := strings.IndexByte(n, '('); i > 0 {
					out = append(out, n[:i])
				}
			}
		}
	}
	sort.Strings(out)
	return out, nil
}
