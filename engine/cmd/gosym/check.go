package main

import (
	"bufio"
	"encoding/json"
	"flag"
	"fmt"
	"os"
	"path/filepath"
	"regexp"
	"runtime"
	"sort"
	"strconv"
	"strings"
	"time"

	"gosym/interp"
)

// harnessIndex: property -> pkg dir -> harness names, from /verif/harness.
func harnessIndex() (map[string]map[string][]string, error) {
	root := filepath.Join(verifDir(), "harness")
	idx := map[string]map[string][]string{}
	err := filepath.Walk(root, func(p string, info os.FileInfo, err error) error {
		if err != nil || !info.IsDir() {
			return err
		}
		rel, _ := filepath.Rel(root, p)
		if rel == "." || rel == "zz_sv" {
			return nil
		}
		names, err := harnessNamesInPkg(rel)
		if err != nil {
			return err
		}
		for _, n := range names {
			parts := strings.SplitN(n, "_", 3)
			if len(parts) < 3 {
				continue
			}
			prop := parts[1]
			if idx[prop] == nil {
				idx[prop] = map[string][]string{}
			}
			idx[prop][rel] = append(idx[prop][rel], n)
		}
		return nil
	})
	return idx, err
}

var coverRe = regexp.MustCompile(`sv\.Cover\([^\n]*?,\s*"([^"]+)"\)`)
var allowRe = regexp.MustCompile(`//\s*sv:allow-abort\s+(\S.*)`)
var boundsRe = regexp.MustCompile(`//\s*sv:(bounds|outside|goal)\s+(\S.*)`)

type harnessMeta struct {
	Covers  []string
	Allow   []string
	Bounds  []string
	Outside []string
	Goals   []string
}

// harnessMetaOf extracts, from the harness source, the Cover labels that must
// be reached (vacuity guard), the declared abort allowances and the
// bounds/outside notes, for the function `name`.
func harnessMetaOf(pkg, name string) harnessMeta {
	var hm harnessMeta
	dir := filepath.Join(verifDir(), "harness", pkg)
	ents, _ := os.ReadDir(dir)
	for _, e := range ents {
		if !strings.HasSuffix(e.Name(), ".go") {
			continue
		}
		b, err := os.ReadFile(filepath.Join(dir, e.Name()))
		if err != nil {
			continue
		}
		src := string(b)
		start := strings.Index(src, "\nfunc "+name+"(")
		if start < 0 {
			continue
		}
		// doc comment above
		docStart := start
		lines := strings.Split(src[:start], "\n")
		for k := len(lines) - 1; k >= 0; k-- {
			if strings.HasPrefix(strings.TrimSpace(lines[k]), "//") {
				docStart -= len(lines[k]) + 1
			} else {
				break
			}
		}
		if docStart < 0 {
			docStart = 0
		}
		end := strings.Index(src[start+1:], "\nfunc ")
		body := src[docStart:]
		if end >= 0 {
			body = src[docStart : start+1+end]
		}
		for _, m := range coverRe.FindAllStringSubmatch(body, -1) {
			hm.Covers = append(hm.Covers, m[1])
		}
		for _, m := range allowRe.FindAllStringSubmatch(body, -1) {
			hm.Allow = append(hm.Allow, strings.TrimSpace(m[1]))
		}
		for _, m := range boundsRe.FindAllStringSubmatch(body, -1) {
			switch m[1] {
			case "bounds":
				hm.Bounds = append(hm.Bounds, strings.TrimSpace(m[2]))
			case "outside":
				hm.Outside = append(hm.Outside, strings.TrimSpace(m[2]))
			case "goal":
				hm.Goals = append(hm.Goals, strings.TrimSpace(m[2]))
			}
		}
	}
	return hm
}

type knownFinding struct {
	Property string
	Sig      string
	Text     string
}

func loadKnownFindings() ([]knownFinding, error) {
	f, err := os.Open(filepath.Join(verifDir(), "KNOWN_FINDINGS.txt"))
	if err != nil {
		if os.IsNotExist(err) {
			return nil, nil
		}
		return nil, err
	}
	defer f.Close()
	var out []knownFinding
	sc := bufio.NewScanner(f)
	sc.Buffer(make([]byte, 1<<20), 1<<20)
	for sc.Scan() {
		line := strings.TrimSpace(sc.Text())
		if !strings.HasPrefix(line, "known:") {
			continue // comments and "fixed:" entries suppress nothing
		}
		rest := strings.TrimSpace(strings.TrimPrefix(line, "known:"))
		fields := strings.SplitN(rest, " ", 3)
		if len(fields) < 2 {
			continue
		}
		kf := knownFinding{}
		kf.Property = strings.TrimPrefix(fields[0], "property=")
		kf.Sig = strings.TrimPrefix(fields[1], "sig=")
		if len(fields) == 3 {
			kf.Text = fields[2]
		}
		out = append(out, kf)
	}
	return out, sc.Err()
}

type harnessEvidence struct {
	Harness       string         `json:"harness"`
	Pkg           string         `json:"pkg"`
	Paths         int            `json:"paths_explored"`
	Completed     int            `json:"paths_completed"`
	Crashed       int            `json:"paths_ending_in_panic_or_exit"`
	Ended         int            `json:"paths_cut_by_assumption"`
	Aborted       int            `json:"paths_aborted_unsupported"`
	AbortWhy      map[string]int `json:"abort_reasons,omitempty"`
	CrashWhy      map[string]int `json:"crash_outcomes,omitempty"`
	Decisions     int64          `json:"branch_decisions"`
	Steps         int64          `json:"ssa_instructions_executed"`
	Goals         map[string]int `json:"goals_discharged_unsat"`
	Covers        []string       `json:"covers_reached"`
	CoversMissed  []string       `json:"covers_missed,omitempty"`
	QSat          int            `json:"queries_sat"`
	QUnsat        int            `json:"queries_unsat"`
	QUnknown      int            `json:"queries_unknown"`
	SolverS       float64        `json:"solver_s"`
	WallS         float64        `json:"wall_s"`
	Witnesses     int            `json:"witnesses_validated_natively"`
	WitnessFail   []string       `json:"witness_mismatches,omitempty"`
	Violations    []string       `json:"violations,omitempty"`
	Bounds        []string       `json:"bounds,omitempty"`
	Outside       []string       `json:"outside_bounds,omitempty"`
	GoalsText     []string       `json:"goals,omitempty"`
	Truncated     bool           `json:"truncated,omitempty"`
	MaxVars       int            `json:"max_symbolic_inputs_on_a_path"`
	BranchUnknown int            `json:"branches_kept_on_unknown_feasibility"`
}

func cmdCheck(args []string) int {
	fs := flag.NewFlagSet("check", flag.ExitOnError)
	prop := fs.String("property", "", "property id, e.g. C09")
	tier := fs.String("tier", "", "quick|thorough (default: $VERIF_TIER or quick)")
	only := fs.String("harness", "", "restrict to harnesses matching this regexp")
	workers := fs.Int("workers", runtime.NumCPU(), "parallel workers")
	noNative := fs.Bool("no-native", false, "skip native replay / cross-validation (development only; never exits 0)")
	fs.Parse(args)
	if *tier == "" {
		*tier = os.Getenv("VERIF_TIER")
	}
	if *tier != "thorough" {
		*tier = "quick"
	}
	seed, _ := strconv.Atoi(os.Getenv("VERIF_SEED"))
	t0 := time.Now()
	idx, err := harnessIndex()
	if err != nil {
		fmt.Fprintln(os.Stderr, "harness index:", err)
		return 2
	}
	byPkg := idx[*prop]
	if len(byPkg) == 0 {
		fmt.Fprintf(os.Stderr, "no harness for property %s\n", *prop)
		return 2
	}
	var pkgDirs []string
	for p := range byPkg {
		pkgDirs = append(pkgDirs, p)
	}
	sort.Strings(pkgDirs)
	l, err := load(pkgDirs, false)
	if err != nil {
		fmt.Fprintln(os.Stderr, "load:", err)
		return 2
	}
	loadS := time.Since(t0).Seconds()
	known, err := loadKnownFindings()
	if err != nil {
		fmt.Fprintln(os.Stderr, "known findings:", err)
		return 2
	}
	cfg := defaultConfig(*tier)
	cfg.Workers = *workers
	cfg.Tier = tierNum(*tier)
	crossN := 4
	if *tier == "thorough" {
		crossN = 24
	}
	if v := os.Getenv("GOSYM_CROSS"); v != "" {
		crossN, _ = strconv.Atoi(v)
	}
	cfg.Cross = interp.NewCrossState(crossN)

	// native side: all harnesses of the packages involved are registered
	allByPkg := map[string][]string{}
	for _, p := range pkgDirs {
		names, _ := harnessNamesInPkg(p)
		allByPkg[p] = names
	}
	var nb *nativeBuilder
	if !*noNative {
		nb, err = newNativeBuilder(allByPkg)
		if err != nil {
			fmt.Fprintln(os.Stderr, "native builder:", err)
			return 2
		}
		defer nb.close()
	}

	var onlyRe *regexp.Regexp
	if *only != "" {
		onlyRe = regexp.MustCompile(*only)
	}
	replayDir := filepath.Join(outDir(), "replays", *prop)
	os.MkdirAll(replayDir, 0o755)

	var hev []*harnessEvidence
	var samples []interface{}
	funcs := map[string]bool{}
	stubs := map[string]bool{}
	assumptions := map[string]bool{}
	var inconclusive []string
	var violationLines []string
	var knownLines []string
	totalStates, totalTrans, totalValidated := 0, int64(0), 0
	nviol := 0

	pkgOfHarness := map[string]string{}
	for p, ns := range byPkg {
		for _, n := range ns {
			pkgOfHarness[n] = p
		}
	}
	hs := l.harnesses(regexp.MustCompile("^SV_" + *prop + "_"))
	for _, h := range hs {
		if onlyRe != nil && !onlyRe.MatchString(h.Name()) {
			continue
		}
		pkg := pkgOfHarness[h.Name()]
		meta := harnessMetaOf(pkg, h.Name())
		hr := interp.Explore(l.prog, h, cfg)
		ev := &harnessEvidence{Harness: h.Name(), Pkg: pkg, Paths: len(hr.Paths), Completed: hr.Completed, Crashed: hr.Crashed,
			Ended: hr.Ended, Aborted: hr.Aborted, AbortWhy: hr.AbortWhy, CrashWhy: hr.CrashWhy, Decisions: hr.Decisions, Steps: hr.Steps,
			Goals: hr.Asserts, QSat: hr.Stats.Sat, QUnsat: hr.Stats.Unsat, QUnknown: hr.Stats.Unknown, SolverS: round2(hr.Stats.Wall.Seconds()),
			WallS: round2(hr.Wall.Seconds()), Bounds: meta.Bounds, Outside: meta.Outside, GoalsText: meta.Goals, Truncated: hr.Truncated}
		for _, p := range hr.Paths {
			if p.MaxVars > ev.MaxVars {
				ev.MaxVars = p.MaxVars
			}
		}
		hev = append(hev, ev)
		for f := range hr.Funcs {
			funcs[f] = true
		}
		for s := range hr.Stubs {
			stubs[s] = true
		}
		for a := range hr.Assumptions {
			if !strings.HasPrefix(a, "range:") {
				assumptions[a] = true
			}
		}
		feasible := hr.Completed + hr.Crashed
		totalStates += feasible
		totalTrans += hr.Decisions
		fmt.Printf("[%s] %s: paths=%d completed=%d crash-ending=%d cut=%d aborted=%d goals=%d violations=%d queries=%d/%d/%d solver=%.1fs wall=%.1fs\n",
			*prop, h.Name(), len(hr.Paths), hr.Completed, hr.Crashed, hr.Ended, hr.Aborted, sumMap(hr.Asserts), len(hr.Violations),
			hr.Stats.Sat, hr.Stats.Unsat, hr.Stats.Unknown, hr.Stats.Wall.Seconds(), hr.Wall.Seconds())

		// vacuity: every declared cover must be reached
		for c := range hr.Covers {
			ev.Covers = append(ev.Covers, c)
		}
		sort.Strings(ev.Covers)
		for _, c := range meta.Covers {
			if !hr.Covers[c] {
				ev.CoversMissed = append(ev.CoversMissed, c)
			}
		}
		if len(ev.CoversMissed) > 0 {
			inconclusive = append(inconclusive, fmt.Sprintf("%s: cover labels not reached (vacuity): %v", h.Name(), ev.CoversMissed))
		}
		if feasible == 0 {
			inconclusive = append(inconclusive, fmt.Sprintf("%s: no feasible path completed", h.Name()))
		}
		if hr.Truncated {
			inconclusive = append(inconclusive, fmt.Sprintf("%s: path budget exhausted", h.Name()))
		}
		if hr.Unknowns > 0 {
			inconclusive = append(inconclusive, fmt.Sprintf("%s: %d goal/assumption queries returned unknown/timeout", h.Name(), hr.Unknowns))
		}
		ev.BranchUnknown = hr.BranchUnknown
		// aborted paths: allowed only when the harness declares the reason as outside the claim
		for why, n := range hr.AbortWhy {
			ok := false
			for _, a := range meta.Allow {
				if strings.Contains(why, a) {
					ok = true
				}
			}
			if !ok {
				inconclusive = append(inconclusive, fmt.Sprintf("%s: %d path(s) aborted: %s", h.Name(), n, why))
			}
		}

		// violations: known, or replay natively
		for _, v := range hr.Violations {
			sig := v.Signature()
			ev.Violations = append(ev.Violations, sig)
			var kf *knownFinding
			for k := range known {
				if known[k].Property == *prop && known[k].Sig == sig {
					kf = &known[k]
				}
			}
			in := &replayInput{Harness: v.Harness, Pkg: pkg, Property: *prop, Tier: cfg.Tier, Model: v.Model, Choices: v.Choices, Decisions: v.Decisions,
				Expect: &replayExpect{Kind: v.Kind, Label: v.Label, Detail: v.Detail, Site: v.Site}}
			if kf != nil {
				knownLines = append(knownLines, fmt.Sprintf("KNOWN-FINDING: property=%s sig=%s %s", *prop, sig, kf.Text))
				continue
			}
			if v.Kind == "float-undefined" {
				inconclusive = append(inconclusive, fmt.Sprintf("%s: FLOAT-UNDEFINED event %s (platform-defined float behaviour reachable)", h.Name(), v.Label))
				continue
			}
			path := filepath.Join(replayDir, sanitize(sig)+".json")
			b, _ := json.MarshalIndent(in, "", " ")
			os.WriteFile(path, b, 0o644)
			if nb == nil {
				inconclusive = append(inconclusive, fmt.Sprintf("%s: violation %s not replayed (--no-native)", h.Name(), sig))
				continue
			}
			res, err := nb.run(in)
			if err != nil {
				inconclusive = append(inconclusive, fmt.Sprintf("%s: native replay failed: %v", h.Name(), err))
				continue
			}
			if v.MapOrder {
				// the counterexample needs a particular Go map iteration order, which the
				// runtime picks at random: repeat the native run until it is observed
				for try := 0; try < 80; try++ {
					if ok, _ := res.matches(in.Expect); ok {
						break
					}
					if res, err = nb.run(in); err != nil {
						break
					}
				}
				if err != nil {
					inconclusive = append(inconclusive, fmt.Sprintf("%s: native replay failed: %v", h.Name(), err))
					continue
				}
			}
			if ok, why := res.matches(in.Expect); ok {
				nviol++
				violationLines = append(violationLines, fmt.Sprintf("VIOLATION property=%s replay=%s", *prop, path))
				fmt.Printf("  counterexample %s reproduces natively: model=%v choices=%v\n", sig, v.Model, v.Choices)
			} else {
				inconclusive = append(inconclusive, fmt.Sprintf("%s: counterexample %s does NOT reproduce natively (%s): encoding or stub wrong; replay kept at %s", h.Name(), sig, why, path))
			}
		}

		// cross-validation of the translator on path witnesses
		if nb != nil {
			for _, w := range hr.Witnesses {
				in := &replayInput{Harness: h.Name(), Pkg: pkg, Property: *prop, Tier: cfg.Tier, Model: w.W.Model, Choices: w.W.Choices, Decisions: w.Decisions}
				exp := &replayExpect{Kind: w.W.Status, Detail: w.W.Detail, Observed: w.W.Expected}
				res, err := nb.run(in)
				if err != nil {
					inconclusive = append(inconclusive, fmt.Sprintf("%s: native run failed: %v", h.Name(), err))
					break
				}
				if ok, why := res.matches(exp); ok {
					ev.Witnesses++
					totalValidated++
				} else {
					msg := fmt.Sprintf("decisions=%v model=%v: %s", w.Decisions, w.W.Model, why)
					ev.WitnessFail = append(ev.WitnessFail, msg)
				}
				if len(samples) < 6 {
					samples = append(samples, map[string]interface{}{"harness": h.Name(), "decisions": strings.Join(w.Decisions, ""), "witness_model": w.W.Model,
						"choices": w.W.Choices, "outcome": w.W.Status, "observations": w.W.Expected})
				}
			}
			if len(ev.WitnessFail) > 0 {
				inconclusive = append(inconclusive, fmt.Sprintf("%s: %d path witness(es) disagree with the native run (translator/stub infidelity), first: %s", h.Name(), len(ev.WitnessFail), ev.WitnessFail[0]))
			}
		} else {
			for _, w := range hr.Witnesses {
				if len(samples) < 6 {
					samples = append(samples, map[string]interface{}{"harness": h.Name(), "decisions": strings.Join(w.Decisions, ""), "witness_model": w.W.Model, "outcome": w.W.Status})
				}
			}
		}
	}
	if len(hev) == 0 {
		fmt.Fprintln(os.Stderr, "no harness ran")
		return 2
	}
	for _, d := range cfg.Cross.Disagree {
		inconclusive = append(inconclusive, "solver disagreement on a goal query: "+d)
	}
	if *noNative {
		inconclusive = append(inconclusive, "--no-native: nothing was validated against the real build")
	}

	// evidence
	var fl, sl, al []string
	for f := range funcs {
		fl = append(fl, f)
	}
	for s := range stubs {
		sl = append(sl, s)
	}
	for a := range assumptions {
		al = append(al, a)
	}
	sort.Strings(fl)
	sort.Strings(sl)
	sort.Strings(al)
	if len(samples) == 0 {
		samples = append(samples, map[string]interface{}{"note": "no path witness produced"})
	}
	qs, qu, qk, ss := 0, 0, 0, 0.0
	for _, e := range hev {
		qs += e.QSat
		qu += e.QUnsat
		qk += e.QUnknown
		ss += e.SolverS
	}
	if totalStates == 0 {
		totalStates = 1
	}
	if totalTrans == 0 {
		totalTrans = 1
	}
	assume := []string{
		"bounded claim: holds for every value of the symbolic inputs on every feasible path of the listed harnesses within their stated bounds; nothing is claimed outside them",
		"stubs (trusted contracts): " + strings.Join(sl, "; "),
	}
	assume = append(assume, al...)
	evd := map[string]interface{}{
		"property_id": *prop,
		"tier":        *tier,
		"seed":        seed,
		"level":       "model_checking",
		"wall_s":      round2(time.Since(t0).Seconds()),
		"violations":  nviol,
		"assumptions": assume,
		"coverage": map[string]interface{}{
			"states":                        totalStates,
			"transitions":                   totalTrans,
			"traces_validated_against_impl": totalValidated,
			"samples":                       samples,
			"exhaustive":                    len(inconclusive) == 0,
			"explanation":                   "states = feasible symbolic paths of the real SSA code explored to their end (each stands for every input satisfying its path condition); transitions = solver-decided branch/choice decisions along them; traces_validated = solver-produced path witnesses re-run against the natively compiled real code with identical observable results",
			"functions_encoded":             fl,
			"functions_encoded_count":       len(fl),
			"harnesses":                     hev,
			"queries":                       map[string]int{"sat": qs, "unsat": qu, "unknown": qk},
			"solver":                        cfg.Solver,
			"solver_s":                      round2(ss),
			"cross_solver_check": map[string]interface{}{
				"what":               "goal queries answered unsat by the deciding solver, re-decided from scratch (same SMT-LIB text, fresh process) by z3 4.8.12 and cvc5 1.0; sample = first distinct goal labels of every harness; a sat answer makes the check inconclusive",
				"labels_per_harness": cfg.Cross.PerHarness,
				"confirmed_unsat":    cfg.Cross.Agree,
				"unknown_or_timeout": cfg.Cross.Unknown,
				"disagreements":      cfg.Cross.Disagree,
				"wall_s":             round2(cfg.Cross.Wall.Seconds()),
			},
			"load_ssa_s":         round2(loadS),
			"native_build_s":     nativeBuildS(nb),
			"inconclusive":       inconclusive,
			"known_findings_hit": knownLines,
		},
	}
	os.MkdirAll(filepath.Join(outDir(), "evidence"), 0o755)
	b, _ := json.MarshalIndent(evd, "", " ")
	if err := os.WriteFile(filepath.Join(outDir(), "evidence", *prop+".json"), b, 0o644); err != nil {
		fmt.Fprintln(os.Stderr, "evidence:", err)
		return 2
	}
	for _, kl := range dedup(knownLines) {
		fmt.Println(kl)
	}
	if len(violationLines) > 0 {
		for _, vl := range violationLines {
			fmt.Println(vl)
		}
		return 1
	}
	if len(inconclusive) > 0 {
		for _, m := range inconclusive {
			fmt.Println("INCONCLUSIVE:", m)
		}
		return 2
	}
	fmt.Printf("OK property=%s tier=%s paths=%d validated=%d wall=%.1fs\n", *prop, *tier, totalStates, totalValidated, time.Since(t0).Seconds())
	return 0
}

func nativeBuildS(nb *nativeBuilder) float64 {
	if nb == nil {
		return 0
	}
	return round2(nb.buildS)
}

func dedup(in []string) []string {
	seen := map[string]bool{}
	var out []string
	for _, s := range in {
		if !seen[s] {
			seen[s] = true
			out = append(out, s)
		}
	}
	return out
}

func sumMap(m map[string]int) int {
	n := 0
	for _, v := range m {
		n += v
	}
	return n
}

func round2(f float64) float64 { return float64(int(f*100+0.5)) / 100 }

func sanitize(s string) string {
	var sb strings.Builder
	for _, c := range s {
		if c >= 'a' && c <= 'z' || c >= 'A' && c <= 'Z' || c >= '0' && c <= '9' || c == '_' || c == '-' || c == '.' {
			sb.WriteRune(c)
		} else {
			sb.WriteRune('_')
		}
	}
	out := sb.String()
	if len(out) > 150 {
		out = out[:150]
	}
	return out
}

func cmdSelftest(args []string) int {
	// the self-test corpus is property "T0x" in package zz_svtest: every
	// harness must behave as annotated (expected violations are listed here)
	expectViol := map[string]string{"SV_T02_violated": "assert/double-positive", "SV_T08_index_panic": "panic/no-crash"}
	l, err := load([]string{"zz_svtest"}, false)
	if err != nil {
		fmt.Fprintln(os.Stderr, "load:", err)
		return 2
	}
	names, _ := harnessNamesInPkg("zz_svtest")
	nb, err := newNativeBuilder(map[string][]string{"zz_svtest": names})
	if err != nil {
		fmt.Fprintln(os.Stderr, err)
		return 2
	}
	defer nb.close()
	cfg := defaultConfig("quick")
	bad := 0
	for _, h := range l.harnesses(regexp.MustCompile("^SV_T")) {
		hr := interp.Explore(l.prog, h, cfg)
		status := "ok"
		if hr.Aborted > 0 {
			status = fmt.Sprintf("ABORTED %v", hr.AbortWhy)
			bad++
		}
		want, expect := expectViol[h.Name()]
		if expect {
			found := false
			for _, v := range hr.Violations {
				if strings.Contains(v.Signature(), want) {
					in := &replayInput{Harness: v.Harness, Pkg: "zz_svtest", Model: v.Model, Choices: v.Choices,
						Expect: &replayExpect{Kind: v.Kind, Label: v.Label}}
					res, err := nb.run(in)
					if err != nil {
						status = "native error: " + err.Error()
						bad++
						continue
					}
					if ok, why := res.matches(in.Expect); ok {
						found = true
					} else {
						status = "expected violation does not replay: " + why
					}
				}
			}
			if !found {
				bad++
				if status == "ok" {
					status = "expected violation not found"
				}
			}
		} else if len(hr.Violations) > 0 {
			status = "unexpected violation " + hr.Violations[0].Signature()
			bad++
		}
		nval := 0
		for _, w := range hr.Witnesses {
			in := &replayInput{Harness: h.Name(), Pkg: "zz_svtest", Model: w.W.Model, Choices: w.W.Choices}
			res, err := nb.run(in)
			if err != nil {
				status = "native error: " + err.Error()
				bad++
				break
			}
			if ok, why := res.matches(&replayExpect{Kind: w.W.Status, Observed: w.W.Expected}); ok {
				nval++
			} else {
				status = "witness mismatch: " + why
				bad++
			}
		}
		fmt.Printf("selftest %-28s paths=%-4d validated=%-3d %s\n", h.Name(), len(hr.Paths), nval, status)
	}
	if bad > 0 {
		fmt.Println("SELFTEST FAILED")
		return 1
	}
	fmt.Println("SELFTEST OK")
	return 0
}
