#!/usr/bin/env python3
"""Regenerates /verif/MANIFEST.json from the table below (keeps it schema-valid)."""
import json, sys, os

ALL = ["C%02d" % i for i in range(1, 21)]

ENV = "GOFLAGS=-mod=mod GOPROXY=off GOSUMDB=off GOTOOLCHAIN=local"
SETUP = "cd /verif/engine && %s go build -o /verif/bin/gosym ./cmd/gosym && /verif/bin/gosym selftest" % ENV

TECH = "solver-based checking of the real code: go/ssa symbolic execution of the /repo functions (regenerated from the working tree), goals decided by z3 over all inputs within the stated bounds, counterexamples and path witnesses replayed against the natively compiled code"

# property -> (level text, level note)
CLAIMED = {}

def claim(pid, text, note, design):
    CLAIMED[pid] = dict(text=text, note=note, design=design)

exec(open(os.path.join(os.path.dirname(__file__), "claims.py")).read())

NA = {}
exec(open(os.path.join(os.path.dirname(__file__), "not_applicable.py")).read())

checks = []
for pid in ALL:
    if pid not in CLAIMED:
        continue
    c = CLAIMED[pid]
    checks.append({
        "property_id": pid,
        "quick_cmd": "/verif/bin/gosym check --property %s --tier quick" % pid,
        "thorough_cmd": "/verif/bin/gosym check --property %s --tier thorough" % pid,
        "evidence_file": "/verif/evidence/%s.json" % pid,
        "replay_cmd_template": "/verif/bin/gosym replay {path}",
        "engine": "gosym",
        "level_claimed": {"category": "model_checking", "text": c["text"], "design_ref": c["design"]},
        "level_note": c["note"],
        "technique": TECH,
    })

na = []
for pid in ALL:
    if pid in CLAIMED:
        continue
    na.append({"property_id": pid, "reason": NA.get(pid, "no check registered yet; see DESIGN.md")})

m = {
    "version": 1,
    "setup_cmd": SETUP,
    "hooks": {
        "guard": "verif",
        "enable": "no source hooks: harnesses (/verif/harness/<pkg>/zz_sv_*.go) are injected into /repo packages with go/packages Overlay (engine) and `go test -overlay` (native replay); nothing under /repo is modified for instrumentation",
        "baseline_off_cmd": "cd /repo && go test -vet=off -count=1 ./...",
        "source_commits": [],
        "add_only": True,
    },
    "engines": [{
        "name": "gosym", "path": "/verif/engine", "serves_properties": sorted(CLAIMED),
        "kind_free_text": "own symbolic executor over go/ssa (x/tools v0.29.0): concrete heap shape, symbolic scalars (all Go integers and math/big as SMT Int with explicit wrap-around, bools as Bool), forking on symbolic branches decided by z3 5.1 (z3-new) over a persistent pipe, stubs for iavl/json/crypto/logging listed in every evidence file, native replay of every counterexample and of path witnesses (go test -overlay)",
    }],
    "checks": checks,
    "not_applicable": na,
    "notes": "Every verdict is bounded: it holds for every value of the symbolic inputs on every feasible path of the listed harnesses within the bounds written in the evidence file, and says nothing outside them. Exit 2 = inconclusive (unsupported construct, solver unknown, vacuity, replay mismatch) and is treated as a broken check, never as success. Fixed defects and known findings: /verif/KNOWN_FINDINGS.txt.",
}
json.dump(m, open(os.path.join(os.path.dirname(__file__), "..", "MANIFEST.json"), "w"), indent=1)
print("MANIFEST.json: %d checks, %d not applicable" % (len(checks), len(na)))
