#!/bin/bash
# usage: try_seed_wt.sh <patch.diff> <property> [more properties...]
# like try_seed.sh, but on a scratch worktree of /repo (GOSYM_TRIAL_REPO), so a
# sweep reading /repo can run at the same time; evidence/replays of the trial stay
# in the worktree and are removed with it.
set -u
patch=$(readlink -f "$1"); shift
wt=$(mktemp -d /tmp/trial-XXXXXX)
git -C /repo worktree add -q --detach "$wt" HEAD || exit 2
( cd "$wt" && git apply "$patch" ) || { echo "patch does not apply"; git -C /repo worktree remove --force "$wt"; exit 2; }
for p in "$@"; do
  echo "=== $p"
  GOSYM_TRIAL_REPO="$wt" /verif/bin/gosym check --property $p --tier ${TIER:-quick} ${EXTRA:-} 2>&1 | grep -v "^\[C" | cut -c1-400 | tail -${TAIL:-6}
done
git -C /repo worktree remove --force "$wt"; git -C /repo worktree prune
