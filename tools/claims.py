claim("C09",
 "Bounded model checking of the real storage.State/sessionCache/cacheSession/ChainState code: every sequence of up to L store operations (set/delete on 2 keys, begin/commit/discard session, block commit, reopen) with symbolic 3-byte values is executed symbolically and compared after every step with a reference map; a relational harness shows the committed hash is unchanged by interleaved reads and discarded sessions. Holds for all values within the bound; sequences longer than L and IAVL internals are outside.",
 "Trusted: the iavl stub (versioned ordered map, hash = injective function of the write history), the SSA interpreter (validated per run by native replay of path witnesses), z3. L=4 quick / 5 thorough.",
 "DESIGN.md §6 C09")
claim("C15",
 "Vote-counting kernel of the cross-chain tracker (AddVote, CheckIfVoted, GetVotes, Finalized, Failed) executed symbolically for n=1..5 witnesses with every slot content, voter, index and vote symbolic: only the voting witness's own empty slot changes, repeated and outsider votes do not count, Finalized/Failed hold exactly when more than two thirds voted yes/no.",
 "Thin check: covers the tracker kernel only; the finality handler (mint/refund exactly once, beneficiary), tracker creation and block-end transitions are not yet encoded and are outside this claim. n <= 5.",
 "DESIGN.md §6 C15")
claim("C12",
 "BeginBlock maturity hook addMaturedAmountsToBalance executed symbolically on the real stores from an arbitrary committed pending-undelegation table (2 delegators, heights now-1..now+4, arbitrary amounts): exactly the entries of the current height are paid to their own delegator, zeroed, and no other entry changes.",
 "Thin check: one hook, one inductive step under the reachable-state invariant key height <= now + RewardsMaturityTime(4); the delegate/undelegate/withdraw/reinvest handlers and the pool-balance invariant are not yet encoded and are outside this claim.",
 "DESIGN.md §6 C12")
