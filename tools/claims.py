claim("C09",
 "Bounded model checking of the real storage.State/sessionCache/cacheSession/ChainState code: every sequence of up to L store operations (set/delete on 2 keys, begin/commit/discard session, block commit, reopen) with symbolic 3-byte values is executed symbolically and compared after every step with a reference map; a relational harness shows the committed hash is unchanged by interleaved reads and discarded sessions. Holds for all values within the bound; sequences longer than L and IAVL internals are outside.",
 "Trusted: the iavl stub (versioned ordered map, hash = injective function of the write history), the SSA interpreter (validated per run by native replay of path witnesses), z3. L=4 quick / 5 thorough.",
 "DESIGN.md §6 C09")
claim("C15",
 "Vote-counting kernel of the cross-chain tracker (AddVote, CheckIfVoted, GetVotes, Finalized, Failed) executed symbolically for n=1..5 witnesses with every slot content, voter, index and vote symbolic: only the voting witness's own empty slot changes, repeated and outsider votes do not count, Finalized/Failed hold exactly when more than two thirds voted yes/no.",
 "Thin check: covers the tracker kernel only; the finality handler (mint/refund exactly once, beneficiary), tracker creation and block-end transitions are not yet encoded and are outside this claim. n <= 5.",
 "DESIGN.md §6 C15")
claim("C12",
 "BeginBlock maturity hook addMaturedAmountsToBalance executed symbolically on the real stores from an arbitrary committed pending-undelegation table (2 delegators, heights now-1..now+4, arbitrary amounts): exactly the entries of the current height are paid to their own delegator, zeroed, and no other entry changes.",
 "Thin check: one hook, one inductive step under the reachable-state invariant key height <= now + RewardsMaturityTime(4); the delegate/undelegate/withdraw/reinvest handlers and the pool-balance invariant are not yet encoded and are outside this claim.",
 "DESIGN.md §6 C12")

claim("C02",
 "One inductive step per transaction kind through the real txDeliverer on the real stores: from an arbitrary funded state (all balances, pools, fee pool, stake, delegation and reward records symbolic and non-negative) a transaction of the kind with arbitrary amount (any integer, any currency name), fee and role assignment, admitted by the real Validate, is delivered; for every currency the ledger total does not increase and no stored amount is negative. Kinds encoded so far: SEND, SENDPOOL, STAKE, UNSTAKE, WITHDRAW (stake), the four network-delegation kinds.",
 "Kinds not yet encoded (governance, ONS, ETH, OLVM, rewards withdraw, evidence, bid) and the block-level hooks are outside this claim; mempool-admitted regime only (unvalidated DeliverTx is C04's obligation D); store gas is an arbitrary number (serialised sizes are not modelled); 2-3 parties; one step, composition over histories is argued, not mechanised. Trusted: json/iavl/crypto stubs, validated by native replay of path witnesses on every run.",
 "DESIGN.md §6 C02")
claim("C03",
 "Same exploration as C02 with the goal that the holdings (every ledger cell in every currency, incl. stake and delegation records) of every party that did not sign the delivered transaction do not decrease. Kinds: SEND, SENDPOOL, STAKE, UNSTAKE, WITHDRAW (stake), network delegation kinds.",
 "Same bounds and trusted base as C02; signatures are the functional stub (unforgeable); slashing by a guilty verdict and the remaining kinds are outside.",
 "DESIGN.md §6 C03")
claim("C11",
 "Delegation store lifecycle, one operation (Stake, Unstake, Withdraw, UpdateWithdrawReward) with arbitrary non-negative amount from an arbitrary state satisfying the representation invariant over 2 validators x 2 delegators: the invariant (validator stake = sum of its delegators' locked amounts; everything >= 0) is preserved, unstake moves exactly the amount into the maturing record of the given height, only the block-end step of that height makes it withdrawable (exactly once, record cleared), withdraw never exceeds the withdrawable amount, and a delegator's locked+maturing+withdrawable potential changes only by stake/withdraw. Handler level (maturity height = now + MaturityTime, charge = amount) is covered by the C02 staking harnesses.",
 "Store level; refused operations may leave partial writes that the caller's transaction session discards (C06). The frozen-validator guard and penalties are not yet encoded here. Histories are covered by induction on the invariant (argued).",
 "DESIGN.md §6 C11")

claim("C04",
 "Obligation A (mempool): the real Validate of SEND is executed symbolically on a transaction whose signature list is arbitrary (count, signer key of each, and what each signature was made over: this transaction, a copy differing in fee gas/price/currency, memo, type or payload amount by symbolic deltas, or non-signature bytes); accepted implies exactly the required signature by the From key over exactly the transaction's signed content. Obligation D (delivery): a transaction Validate rejects must have no effect when delivered - violated by design of txDeliverer, reported as a known finding.",
 "SEND only so far (ValidateBasic is shared by all kinds; the per-kind Signers() lists and the three other key algorithms are not yet encoded); cryptography is the functional signature stub (unforgeability assumed); JSON envelope parsing is the blob model.",
 "DESIGN.md §6 C04")
claim("C05",
 "The real txChecker/txDeliverer with an in-memory transaction index: a SEND that was executed and indexed is refused by CheckTx and changes no ledger cell when delivered again byte-identically (holds for all amounts, fees, roles); the same signed content in another byte encoding is examined too and is the known finding (replay key = hash of received bytes).",
 "SEND only; the index is a harness implementation of Tendermint's TxIndexer contract; OLVM nonce handling not yet encoded. Re-encodings are refuted by witness, their absence cannot be shown by this technique.",
 "DESIGN.md §6 C05")
claim("C06",
 "For every encoded kind (SEND, SENDPOOL, staking and network delegation kinds), in both regimes (admitted by Validate / delivered directly), a delivered transaction with non-zero code leaves the block-level write cache (keys, order, values) and every ledger cell unchanged, for all payloads, fees and funded states within the bound.",
 "One transaction per block; in-memory fields of the stores and the EVM object cache are not compared yet; kinds not yet encoded are outside.",
 "DESIGN.md §6 C06")
claim("C18",
 "For every encoded kind with hostile payload fields (any integer amount, unregistered/empty/foreign currency, any role assignment, zero signatures) no feasible path of txDeliverer (and Validate + deliver in the admitted regime) ends in a panic, os.Exit (logger.Fatal) or application close; every crash outcome is a first-class path result decided by the solver and replayed in a child process.",
 "Kinds not yet encoded are outside; byte strings that are not a well-formed envelope are outside (the JSON parser is not encoded).",
 "DESIGN.md §6 C18")

claim("C10",
 "One block-end election (InitValidatorQueue + GetEndBlockUpdate of the real ValidatorStore on real stores) from arbitrary candidate records at version h-1: powers, presence, last-commit membership, malicious flags, purge heights, minimum self delegation all symbolic, TopValidatorCount a choice. Goals: no duplicate key, positive updates only for candidates with recorded power >= minimum that are not flagged malicious, carrying exactly that power, at most the top count, preferring higher stake; zero updates only for validators of the last commit.",
 "2 candidates (quick) / 3 (thorough); acceptability to Tendermint's UpdateWithChangeSet (non-empty set, total power range), the multi-block pipeline of pending updates and the five-block convergence are not yet encoded and are outside this claim.",
 "DESIGN.md §6 C10")
claim("C13",
 "Three harnesses on the real code: (1) PullRewards/Calculate with arbitrary yearly supplies, year table, burnout rate and pool over three block-time scenarios and five heights: amount >= 0, within (year supply - distributed till last cycle) of the selected year, burnout capped by the pool; (2) restart independence: a calculator that cached the amount at the first block of a cycle and a fresh one agree at later heights of the cycle although Distributed moved; (3) handleBlockRewards with symbolic voting powers, signed flags, proposer, delegation pool and delegator amounts: everything credited to validators, delegators and proposer together is at most the pulled amount (nonlinear; goals discharged by z3 over the integers or on the real relaxation).",
 "Block times are three concrete scenarios, not arbitrary sequences; 2/3 validators, 2 delegators; validator reward withdrawal (matured balance) not yet encoded. The BlockStore is a harness-supplied table of header times.",
 "DESIGN.md §6 C13")

claim("C01",
 "2-run non-interference over whole blocks through the real blockBeginner/txDeliverer/blockEnder/commitor: a plain full node with insertion-ordered maps versus a node carrying validator A's identity with every rotation of the iteration order of every Go map ranged over; same genesis (2 validators), same two blocks (one SEND with symbolic amount/currency/fee, then an empty block): DeliverTx results, validator updates and the ordered write set replayed into the tree are equal on every path.",
 "Thin: the environment dimensions wall clock, uuid, witness role and job store are not reached by these blocks; hooks with non-empty inputs (allegation verdicts, proposal expiry/finalisation, tracker transitions) and the other kinds are not yet in the compared blocks. The application hash is compared through the ordered write set (iavl stub: hash = injective function of the write history).",
 "DESIGN.md §6 C01")
claim("C07",
 "2-run comparison over two whole blocks: a replica on which one CheckTx of an arbitrary SEND/STAKE/DELEGATE transaction is injected at any of the 5 ABCI call boundaries of the first block versus a twin without it: DeliverTx results, validator updates and ordered write sets of both blocks are equal on every path (symbolic amounts, currencies, fees, balances).",
 "One injected CheckTx; quick tier pins party A to every role of the checked transaction (thorough: all role assignments); real concurrency is outside (the engine is sequential, Tendermint serialises the two connections).",
 "DESIGN.md §6 C07")
claim("C08",
 "Relational crash/restart harness over the real App on the iavl model: a node dying at any of the 5 ABCI call boundaries of a block (in-memory heap dropped, a new App opened on the same database, options reloaded as Prepare does) reports the version/hash of the last completed commit through Info and, after the block is replayed, produces the same transcripts for it and for the next block as a node that never stopped.",
 "Decided relative to the IAVL contract (SaveVersion atomic, Load returns last saved version): durability below the iavl API and Tendermint's handshake are not decided by this technique. One crash, one transaction kind (SEND), 2 blocks. The reward-calculator restart independence is C13's harness.",
 "DESIGN.md §6 C08")

claim("C14",
 "One create / fund / withdraw-funds / cancel transaction through the real txDeliverer from an arbitrary proposal record (absent; funding or voting in the active store; cancelled or under-funded in the failed store; arbitrary proposer, goal, deadline, per-funder contributions): stage moves only forward (fund only while funding and before the deadline, voting begins exactly when the goal is met; cancel only by the proposer while funding), withdrawals only from cancelled / under-funded proposals, at most the own contribution, crediting the beneficiary with at most what left the escrow and debiting nobody else; the total-funds record stays the sum of the contributions; create only for an id without a record.",
 "Thin: vote, expire and finalise (tally, configuration update exactly once, distribution of funds) are not yet encoded and are outside this claim; general-type proposals only; 2 parties; one step.",
 "DESIGN.md §6 C14")
claim("C20",
 "One ONS transaction of any of the 7 kinds through the real txDeliverer from a symbolic registry (a.ol absent/present with arbitrary owner, beneficiary, expiry, sale flag/price, active flag; sub-domain x.a.ol absent/present), actor any party: records change only by their owner or through a purchase; a purchase on sale debits the buyer at least the asking price and credits the previous owner exactly that; an expired name costs at least the base price (to the fee pool); create only for a free name with expiry = version + floor((price-base)/perBlock), sub-names inherit the parent's expiry; renew extends by exactly floor(price/perBlock) and sub-names follow.",
 "Names limited to a.ol / x.a.ol (regexp and URL parsing run natively on concrete text); balances < 2^100 nue so that the Int64() conversion of purchased block counts stays in range (above that the expiry arithmetic wraps: outside the bound, stated); devnet ONS options; one step.",
 "DESIGN.md §6 C20")
claim("C19",
 "Three harnesses on the real code. (1) Block-end tally ExecuteAllegationTracker (real ValidatorStore, evidence and delegation stores): one open request, 3 potential voters each yes/no/absent, 1-4 active validators, symbolic stake: the accused is frozen and penalised exactly when yes votes exceed the configured percentage of the active validators, the penalty is the configured percentage of the stake (rounded as the code documents), the bounty is the configured share of it, the remainder stays staked, innocent/undecided verdicts change no stake, and a decided request leaves the tracker. (2) ALLEGATION / ALLEGATION_VOTE / RELEASE through the real txDeliverer from arbitrary validator, active-flag, freeze-record, open-request and recorded-vote states: only an active validator opens or votes, one vote per validator, yes or no only, no allegation against a frozen validator or oneself, release only when frozen and the release time has elapsed, refused transactions record nothing. (3) STAKE / UNSTAKE / WITHDRAW naming a frozen validator fail.",
 "One request, one step each; 2-3 parties; concrete option values (devnet percentages, release time 1 day, four block times); big.Float arithmetic of the penalty is encoded over the reals (exact for the integer inputs in range: stake < 2^40 OLT); the vote count over more than 3 voters / 4 active validators and multi-request trackers are outside.",
 "DESIGN.md §6 C19")
