for _p in ["C%02d" % i for i in range(1, 21)]:
    NA[_p] = "check under construction in this round (harness not registered yet); see DESIGN.md §6"
