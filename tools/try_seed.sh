#!/bin/bash
# usage: try_seed.sh <patch.diff> <property> [more properties...]
# applies the patch to /repo, runs the quick checks, reverts.
set -u
patch=$1; shift
cd /repo || exit 2
if ! git diff --quiet; then echo "repo dirty"; exit 2; fi
git apply "$patch" || { echo "patch does not apply"; exit 2; }
for p in "$@"; do
  echo "=== $p"
  /verif/bin/gosym check --property $p --tier ${TIER:-quick} ${EXTRA:-} 2>&1 | grep -v "^\[C" | cut -c1-400 | tail -${TAIL:-6}
  echo "exit=$?"
done
git -C /repo checkout -- . 
git -C /repo status --short | head -3
