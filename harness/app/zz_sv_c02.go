package app

// C02 — no value creation (handler level, through the real txDeliverer).

import sv "github.com/Oneledger/protocol/zz_sv"

var _ = sv.Tier

// SV_C02_send: one SEND delivered in a block, from an arbitrary funded state.
//
// sv:bounds parties A,B (A signs); sender/recipient roles any of them; amount any integer (negative, zero, > 2^63) in {OLT, ETH, unregistered, empty currency}; fee price any integer, fee gas any int64; OLT/ETH balances of all parties, pools and the fee pool arbitrary >= 0; mempool-admitted regime (the real Validate accepted the transaction on the same committed state)
// sv:outside sequences of transactions (one inductive step); more than 2 parties; transactions delivered without having passed Validate (C04 obligation D)
// sv:goal per currency the ledger total does not increase; no stored amount is negative
func SV_C02_send() {
	e := svNewEnv(2, 2, nil)
	e.step(svBuildSend(e), []int{0}, true).goalsC02(nil)
}

// SV_C02_sendpool: one SENDPOOL.
//
// sv:bounds as SV_C02_send; pool name in {DelegationPool, RewardsPool, BountyPool, FeePool, unknown}
// sv:goal per currency the ledger total does not increase; no stored amount is negative
func SV_C02_sendpool() {
	e := svNewEnv(2, 2, nil)
	e.step(svBuildSendPool(e), []int{0}, true).goalsC02(nil)
}

// SV_C02_stake / unstake / stake_withdraw: the staking kinds.
//
// sv:bounds parties A,B,C; B may be a validator with stake address A; delegators A and C with arbitrary locked / withdrawable / maturing amounts (whole OLT, heights now and now+10); payload addresses any parties, signed by the parties it names; amount any integer in any currency name; mempool-admitted regime
// sv:outside sequences; the allegation/freeze records (fresh evidence store)
// sv:goal per currency the ledger total (balances, fee pool, locked, maturing and withdrawable stake at 10^18 per whole OLT) does not increase; no stored amount is negative
func SV_C02_stake() {
	e := svNewEnv(3, 20, svPreStaking)
	raw, signers := svBuildStake(e)
	e.step(raw, signers, true).goalsC02(nil)
}

// SV_C02_unstake — see SV_C02_stake.
//
// sv:bounds as SV_C02_stake
// sv:goal as SV_C02_stake
func SV_C02_unstake() {
	e := svNewEnv(3, 20, svPreStaking)
	raw, signers := svBuildUnstake(e)
	e.step(raw, signers, true).goalsC02(nil)
}

// SV_C02_stake_withdraw — see SV_C02_stake.
//
// sv:bounds as SV_C02_stake
// sv:goal as SV_C02_stake
func SV_C02_stake_withdraw() {
	e := svNewEnv(3, 20, svPreStaking)
	raw, signers := svBuildStakeWithdraw(e)
	e.step(raw, signers, true).goalsC02(nil)
}

// SV_C02_delegate / undelegate / deleg_withdraw / deleg_reinvest: the network
// delegation kinds.
//
// sv:bounds parties A,B; each with arbitrary active delegation, pending undelegations and pending reward withdrawals at heights {now, now+4}, arbitrary reward balance; delegation pool >= sum of active amounts; payload names any party and that party signs; amount any integer in any currency name; mempool-admitted regime
// sv:outside sequences
// sv:goal per currency the ledger total (balances, pools, fee pool, active/pending delegation, reward balance and pending reward withdrawals) does not increase; no stored amount is negative
func SV_C02_delegate() {
	e := svNewEnv(2, 20, svPreDeleg)
	raw, signers := svBuildDelegate(e)
	e.step(raw, signers, true).goalsC02(nil)
}

// SV_C02_undelegate — see SV_C02_delegate.
//
// sv:bounds as SV_C02_delegate
// sv:goal as SV_C02_delegate
func SV_C02_undelegate() {
	e := svNewEnv(2, 20, svPreDeleg)
	raw, signers := svBuildUndelegate(e)
	e.step(raw, signers, true).goalsC02(nil)
}

// SV_C02_deleg_withdraw — see SV_C02_delegate.
//
// sv:bounds as SV_C02_delegate
// sv:goal as SV_C02_delegate
func SV_C02_deleg_withdraw() {
	e := svNewEnv(2, 20, svPreDeleg)
	raw, signers := svBuildDelegWithdraw(e)
	e.step(raw, signers, true).goalsC02(nil)
}

// SV_C02_deleg_reinvest — see SV_C02_delegate.
//
// sv:bounds as SV_C02_delegate
// sv:goal as SV_C02_delegate
func SV_C02_deleg_reinvest() {
	e := svNewEnv(2, 20, svPreDeleg)
	raw, signers := svBuildDelegReinvest(e)
	e.step(raw, signers, true).goalsC02(nil)
}

// SV_C02_ons: the seven domain-name kinds.
//
// sv:bounds as SV_C20_ons_step (registry with a.ol / x.a.ol, kind a choice, actor any of 2 parties), amounts any integer in {OLT, unregistered}
// sv:goal per currency the ledger total does not increase; no stored amount is negative
func SV_C02_ons() {
	svCurrencyLimit = 2
	pre := &svDomainPre{}
	e := svNewEnv(2, 20, svPreONS(pre))
	raw, signers := svBuildONS(e, sv.Choice("kind", 7))
	e.step(raw, signers, true).goalsC02(nil)
}

// SV_C02_gov / SV_C03-style goals for the governance fund kinds are asserted
// by SV_C14_funds_and_stage; the ledger goal:
//
// sv:bounds as SV_C14_funds_and_stage
// sv:goal per currency the ledger total (incl. proposal escrows) does not increase; no stored amount is negative
func SV_C02_gov() {
	svCurrencyLimit = 2
	pre := &svPropPre{}
	e := svNewEnv(2, 20, svPreGov(pre))
	raw, signers := svBuildGov(e, sv.Choice("kind", 4))
	e.step(raw, signers, true).goalsC02(nil)
}
