package app

// C02 — no value creation (handler level, through the real txDeliverer).

import (
	"math/big"

	"github.com/Oneledger/protocol/action"
	"github.com/Oneledger/protocol/action/transfer"
	"github.com/Oneledger/protocol/data/balance"
	sv "github.com/Oneledger/protocol/zz_sv"
)

var svCurrencyNames = []string{"OLT", "ETH", "XXX", ""}

// SV_C02_send: one SEND delivered in a block, from an arbitrary funded state.
//
// sv:bounds parties A,B,C (A signs); sender/recipient roles any of them; amount any integer (negative, zero, > 2^63); amount currency in {OLT, ETH, unregistered, empty}; fee price any integer, fee gas any int64; balances of all parties and the fee pool arbitrary >= 0
// sv:outside sequences of transactions (one inductive step); more than 3 parties
// sv:goal total OLT over all holders does not increase; no stored amount becomes negative; on a non-zero code nothing changes
func SV_C02_send() {
	app := svNewApp()
	svGenesis(app, svDefaultState())
	svInstallIndexer()
	n := 3
	var before []*big.Int
	for i := 0; i < n; i++ {
		b := svNonNeg("bal" + string(rune('A'+i)))
		before = append(before, b)
		svFundOLT(app, svParty_(i).Addr, b)
	}
	svCommitBlock(app)
	svOpenBlock(app, 2)
	pool0 := svFeePool(app)

	from := sv.Choice("from", n)
	to := sv.Choice("to", n)
	cur := svCurrencyNames[sv.Choice("currency", len(svCurrencyNames))]
	amt := sv.BigInt("amount")
	msg := transfer.Send{From: svParty_(from).Addr, To: svParty_(to).Addr,
		Amount: action.Amount{Currency: cur, Value: *balance.NewAmountFromBigInt(amt)}}
	data, _ := msg.Marshal()
	raw := action.RawTx{Type: action.SEND, Data: data, Fee: svFee("OLT"), Memo: "m"}
	tx := svSign(raw, 0)

	resp := svDeliver(app, tx)

	total0, total1 := new(big.Int).Set(pool0), new(big.Int).Set(svFeePool(app))
	for i := 0; i < n; i++ {
		after := svBalOLT(app, svParty_(i).Addr)
		total0.Add(total0, before[i])
		total1.Add(total1, after)
		sv.Assert(after.Sign() >= 0, "no-negative-balance")
		if resp.Code != 0 {
			sv.Assert(after.Cmp(before[i]) == 0, "failed-tx-changes-nothing")
		}
		sv.Observe("after"+string(rune('A'+i)), after)
	}
	sv.Assert(svFeePool(app).Sign() >= 0, "no-negative-feepool")
	sv.Assert(total1.Cmp(total0) <= 0, "no-value-created")
	sv.Cover(resp.Code == 0, "delivered-ok")
	sv.Cover(resp.Code != 0, "delivered-fail")
	sv.Observe("code", resp.Code)
}
