package app

// The ledger: every value-bearing record of the universe owners, read through
// the real store getters (DESIGN §3.3), and the generic one-transaction step.

import (
	"math/big"

	"github.com/Oneledger/protocol/action"
	"github.com/Oneledger/protocol/data/balance"
	"github.com/Oneledger/protocol/data/fees"
	"github.com/Oneledger/protocol/data/keys"
	netwkDeleg "github.com/Oneledger/protocol/data/network_delegation"
	sv "github.com/Oneledger/protocol/zz_sv"
)

type svCell struct {
	Name, Owner, Cur string
	V                *big.Int
	// Mirror: a claim whose backing coins are another cell (active network
	// delegation is held as the delegation pool's balance): counted in its
	// owner's holdings (C03) but not in the currency total (C02).
	Mirror bool
}

type svLedger struct{ cells []svCell }

func (l *svLedger) add(name, owner, cur string, v *big.Int) {
	l.cells = append(l.cells, svCell{Name: name, Owner: owner, Cur: cur, V: new(big.Int).Set(v)})
}

func (l *svLedger) addMirror(name, owner, cur string, v *big.Int) {
	l.cells = append(l.cells, svCell{Name: name, Owner: owner, Cur: cur, V: new(big.Int).Set(v), Mirror: true})
}

func (l *svLedger) total(cur string) *big.Int {
	t := new(big.Int)
	for _, c := range l.cells {
		if c.Cur == cur && !c.Mirror {
			t.Add(t, c.V)
		}
	}
	return t
}

func (l *svLedger) holdings(owner string) *big.Int {
	t := new(big.Int)
	for _, c := range l.cells {
		if c.Owner == owner {
			t.Add(t, c.V)
		}
	}
	return t
}

func (l *svLedger) get(name string) *big.Int {
	for _, c := range l.cells {
		if c.Name == name {
			return c.V
		}
	}
	return new(big.Int)
}

// svEnv: an App at an open block with a symbolic funded state.
type svEnv struct {
	app    *App
	n      int // parties 0..n-1
	height int64
	extra  []func(l *svLedger) // kind-specific ledger readers
	// beforeDeliver runs right before the delivery (after the ledger was
	// read): in-memory residue a previous handler may have left behind
	beforeDeliver func()
}

type svPool struct {
	name string
	addr keys.Address
}

func svPools() []svPool {
	return []svPool{
		{"pool:delegation", keys.Address(netwkDeleg.DELEGATION_POOL_KEY)},
		{"pool:rewards", keys.Address("rewardpool")},
		{"pool:bounty", keys.Address("oneledgerBountyProgram")},
		{"pool:feeaddr", keys.Address(fees.POOL_KEY)},
	}
}

func svPartyName(i int) string { return string(rune('A' + i)) }

// svNewEnv builds the app, applies genesis, gives every party and pool an
// arbitrary non-negative OLT balance (parties also ETH), an arbitrary
// non-negative fee pool, commits that as version 1 and opens block `height`.
func svNewEnv(n int, height int64, pre func(e *svEnv)) *svEnv {
	e := &svEnv{app: svNewApp(), n: n, height: height}
	svGenesis(e.app, svDefaultState())
	svInstallIndexer()
	bal := e.app.Context.balances.WithState(e.app.Context.deliver)
	for i := 0; i < n; i++ {
		svFundOLT(e.app, svParty_(i).Addr, svNonNeg("olt"+svPartyName(i)))
		c := svETH.NewCoinFromAmount(*balance.NewAmountFromBigInt(svNonNeg("eth" + svPartyName(i))))
		if err := bal.AddToAddress(svParty_(i).Addr, c); err != nil {
			sv.Unreachable("funding eth")
		}
	}
	for _, p := range svPools() {
		svFundOLT(e.app, p.addr, svNonNeg("olt:"+p.name))
	}
	fp := svOLT.NewCoinFromAmount(*balance.NewAmountFromBigInt(svNonNeg("feepool")))
	if err := e.app.Context.feePool.WithState(e.app.Context.deliver).AddToPool(fp); err != nil {
		sv.Unreachable("funding fee pool")
	}
	if pre != nil {
		pre(e)
	}
	svCommitBlock(e.app)
	svOpenBlock(e.app, height)
	return e
}

// ledger reads every record of the universe from the deliver state.
func (e *svEnv) ledger() *svLedger {
	l := &svLedger{}
	ctx := &e.app.Context
	bal := ctx.balances.WithState(ctx.deliver)
	read := func(owner string, addr keys.Address) {
		for _, cur := range []balance.Currency{svOLT, svETH} {
			c, err := bal.GetBalanceForCurr(addr, &cur)
			if err != nil {
				sv.Unreachable("ledger: balance read")
			}
			l.add("b:"+owner+":"+cur.Name, owner, cur.Name, c.Amount.BigInt())
		}
	}
	for i := 0; i < e.n; i++ {
		read(svPartyName(i), svParty_(i).Addr)
	}
	for _, p := range svPools() {
		read(p.name, p.addr)
	}
	fp := ctx.feePool.WithState(ctx.deliver)
	c, _ := fp.Get([]byte(fees.POOL_KEY))
	l.add("f:pool", "pool:fee", "OLT", c.Amount.BigInt())
	for i := 0; i < e.n; i++ {
		c, _ := fp.Get(svParty_(i).Addr)
		l.add("f:"+svPartyName(i), svPartyName(i), "OLT", c.Amount.BigInt())
	}
	for _, f := range e.extra {
		f(l)
	}
	return l
}

// svValidated: the mempool-admitted regime — the real Validate of the kind's
// handler accepts the transaction (run on the check state of the same
// committed tree).
func (e *svEnv) validate(tx action.SignedTx) bool {
	txCtx := e.app.Context.Action(&e.app.header, e.app.Context.check)
	h := txCtx.Router.Handler(tx.Type)
	ok, err := h.Validate(txCtx, tx)
	return ok && err == nil
}

// svStepResult is what one delivered transaction did to the ledger.
type svStepResult struct {
	before, after *svLedger
	resp          ResponseDeliverTx
	signers       []int
}

// deliver runs the in-memory residue hook, then the real txDeliverer.
func (e *svEnv) deliver(tx action.SignedTx) ResponseDeliverTx {
	if e.beforeDeliver != nil {
		e.beforeDeliver()
	}
	return svDeliver(e.app, tx)
}

// step signs, (optionally) assumes mempool admission, delivers in the open block.
func (e *svEnv) step(raw action.RawTx, signers []int, admitted bool) *svStepResult {
	tx := svSign(raw, signers...)
	if admitted {
		sv.Assume(e.validate(tx))
	}
	r := &svStepResult{signers: signers}
	r.before = e.ledger()
	if e.beforeDeliver != nil {
		e.beforeDeliver()
	}
	r.resp = svDeliver(e.app, tx)
	r.after = e.ledger()
	// observables for cross-validation against the native run
	sv.Observe("code", r.resp.Code)
	for _, c := range r.after.cells {
		sv.Observe(c.Name, c.V)
	}
	return r
}

// ---- goal sets ----

// goalsC02: no value creation, no negative stored amount. `mint` is the
// allowed increase per currency (nil = none).
func (r *svStepResult) goalsC02(mint map[string]*big.Int) {
	for _, cur := range []string{"OLT", "ETH"} {
		allowed := new(big.Int).Set(r.before.total(cur))
		if m, ok := mint[cur]; ok {
			allowed.Add(allowed, m)
		}
		sv.Assert(r.after.total(cur).Cmp(allowed) <= 0, "no-value-created:"+cur)
	}
	for _, c := range r.after.cells {
		sv.Assert(c.V.Sign() >= 0, "no-negative-stored-amount")
	}
	sv.Cover(r.resp.Code == 0, "delivered-ok")
	sv.Cover(r.resp.Code != 0, "delivered-fail")
}

// goalsC03: only signers' holdings may decrease.
func (r *svStepResult) goalsC03(n int, alsoAllowed ...string) {
	for i := 0; i < n; i++ {
		name := svPartyName(i)
		signed := false
		for _, s := range r.signers {
			if s == i {
				signed = true
			}
		}
		for _, a := range alsoAllowed {
			if a == name {
				signed = true
			}
		}
		if !signed {
			sv.Assert(r.after.holdings(name).Cmp(r.before.holdings(name)) >= 0, "non-signer-not-debited")
		}
	}
	sv.Cover(r.resp.Code == 0, "delivered-ok")
}

// goalsC06: a failed transaction leaves every ledger cell unchanged.
func (r *svStepResult) goalsC06() {
	if r.resp.Code != 0 {
		for k, c := range r.after.cells {
			sv.Assert(c.V.Cmp(r.before.cells[k].V) == 0, "failed-tx-changes-no-record")
		}
		sv.Cover(true, "delivered-fail")
	}
	sv.Cover(r.resp.Code == 0, "delivered-ok")
}
