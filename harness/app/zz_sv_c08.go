package app

// C08 — crash-restart equivalence (relative to the IAVL contract: SaveVersion
// is atomic and Load returns the last saved version). C01 — determinism.

import (
	"bytes"

	tmdb "github.com/tendermint/tm-db"

	"github.com/Oneledger/protocol/action"
	"github.com/Oneledger/protocol/app/node"
	"github.com/Oneledger/protocol/data/balance"
	"github.com/Oneledger/protocol/data/governance"
	"github.com/Oneledger/protocol/data/keys"
	sv "github.com/Oneledger/protocol/zz_sv"
)

// svLoadOptions does what Prepare() does for a chain that is already
// initialised: the in-memory option copies are loaded from the committed
// governance store.
func svLoadOptions(app *App) {
	ctx := &app.Context
	g := ctx.govern.WithHeight(app.header.Height)
	must := func(err error) {
		if err != nil {
			panic("svLoadOptions: " + err.Error())
		}
	}
	currencies, err := g.GetCurrencies()
	must(err)
	for _, c := range currencies {
		must(ctx.currencies.Register(c))
	}
	feeOpt, err := g.GetFeeOption()
	must(err)
	ctx.feePool.SetupOpt(feeOpt)
	cdOpt, err := g.GetETHChainDriverOption()
	must(err)
	ctx.ethTrackers.SetupOption(cdOpt)
	propOpt, err := g.GetProposalOptions()
	must(err)
	ctx.proposalMaster.Proposal.SetOptions(propOpt)
	rewardsOpt, err := g.GetRewardOptions()
	must(err)
	ctx.rewardMaster.SetOptions(rewardsOpt)
	ctx.SetBlockStore(sv.BlockStore([]int64{1}, []int64{1600000000}))
}

// SV_C08_crash_restart: a node that dies at an ABCI call boundary of block 3
// and is restarted from its database reports the last completed commit and,
// after the missing block is replayed to it, produces the same results as a
// node that never stopped.
//
// sv:bounds genesis with 2 validators and symbolic funded balances (version 2 committed); block 3 carries one SEND A->B with arbitrary amount/currency/fee; crash point: any of the 5 call boundaries of block 3 (before/after BeginBlock, after DeliverTx, after EndBlock, after Commit); then block 3 is replayed (unless its Commit completed) and block 4 is processed on both nodes
// sv:outside everything below the iavl API (LevelDB, partial batches, fsync) and Tendermint's handshake/replay logic: the stub contract is that SaveVersion is atomic and Load returns the last saved version; repeated crashes; the wallet/job databases
// sv:goal after reopening, Info reports the version and hash of the last completed commit; the transcripts (tx results, validator updates, ordered write sets) of the replayed block and of the next block equal those of the uninterrupted node
func SV_C08_crash_restart() {
	sv.NominalSizes(64)
	nv := 2
	fundA, fundB := svNonNeg("fundA"), svNonNeg("fundB")
	mk := func(db tmdb.DB) *App {
		app := svOpenApp(db)
		svInstallIndexer()
		svGenesisWithValidators(app, []int64{3000000, 3000000})
		svFundOLT(app, svParty_(0).Addr, fundA)
		svFundOLT(app, svParty_(1).Addr, fundB)
		svCommitBlock(app)
		return app
	}
	tx := svBlockTx()
	// node A never stops
	a := mk(tmdb.NewMemDB())
	ta3 := svBlock(a, 3, nv, []action.SignedTx{tx}, nil)
	ta4 := svBlock(a, 4, nv, nil, nil)

	// node B crashes at a boundary of block 3
	dbB := tmdb.NewMemDB()
	b := mk(dbB)
	verBefore, hashBefore := b.getAppHash()
	crashAt := sv.Choice("crash.at", 5)
	crashed := false
	func() {
		defer func() {
			if r := recover(); r != nil {
				if r != "sv-crash" {
					panic(r)
				}
				crashed = true
			}
		}()
		svBlock(b, 3, nv, []action.SignedTx{tx}, func(pos int) {
			if pos == crashAt {
				panic("sv-crash") // the process dies: everything in memory is lost
			}
		})
	}()
	sv.Assert(crashed, "crash-injected")
	committed := crashAt == 4 // the boundary after Commit
	// restart from the database
	b2 := svOpenApp(dbB)
	svLoadOptions(b2)
	info := b2.infoServer()(RequestInfo{})
	if committed {
		sv.Assert(info.LastBlockHeight == verBefore+1 && bytes.Equal(info.LastBlockAppHash, ta3.Hash), "info-reports-the-completed-commit")
		sv.Cover(true, "crash-after-commit")
	} else {
		sv.Assert(info.LastBlockHeight == verBefore && bytes.Equal(info.LastBlockAppHash, hashBefore), "info-reports-the-last-completed-commit")
		tb3 := svBlock(b2, 3, nv, []action.SignedTx{tx}, nil)
		sv.Assert(tb3.equal(ta3), "replayed-block-has-the-same-results")
		sv.Cover(true, "crash-mid-block")
	}
	tb4 := svBlock(b2, 4, nv, nil, nil)
	sv.Assert(tb4.equal(ta4), "next-block-has-the-same-results")
	sv.Observe("infoHeight", info.LastBlockHeight)
}

// SV_C01_node_identity_and_map_order: two replicas fed the same blocks; one is
// a plain full node whose Go maps iterate in insertion order, the other runs
// with the validator identity of party A and with every rotation of every
// map iteration order.
//
// sv:bounds genesis with 4 validators in the last commit, two of them below the minimum self delegation (both purged at the first block end), unstakes of A maturing at blocks 3 and 4, symbolic funded balances, a proposal in voting whose deadline has passed (expired by the internal transaction of block 3), a proposal in the passed store with an escrow of 1000003 (finalised by the internal transaction of block 3: distribution to the 4 validators, proposer and pools), a bid conversation past its deadline (expired by the bid application's block hooks) beside an open one; block 3 carries one SEND A->B with arbitrary amount/currency/fee, block 4 is empty; replica 2 = validator A's node key, and every rotation of the iteration order of every Go map ranged over during its two blocks (maps of 2..4 entries)
// sv:outside the wall clock (not reached by these blocks; the uuid of the internal transactions is a fresh value per call), the cross-chain witness role and job store (no tracker in these blocks), other transaction kinds and block-level hooks with non-empty inputs (allegations, trackers), IAVL internals, float behaviour on other CPU architectures
// sv:goal same DeliverTx results, validator updates and ordered write sets in both blocks
func SV_C01_node_identity_and_map_order() {
	sv.NominalSizes(64)
	nv := 4
	fundA, fundB := svNonNeg("fundA"), svNonNeg("fundB")
	mk := func(validatorNode bool) *App {
		app := svNewApp()
		if validatorNode {
			p := svParty_(0)
			app.Context.node = node.SVNewContext("nodeA", keys.PrivateKey{Keytype: keys.ED25519, Data: p.Priv[:]})
		}
		svInstallIndexer()
		svGenesisWithValidators(app, []int64{3000000, 3000000, 100, 200})
		svFundOLT(app, svParty_(0).Addr, fundA)
		svFundOLT(app, svParty_(1).Addr, fundB)
		// a proposal in voting whose deadline (2) has passed: block 3 queues the
		// internal expiry at BeginBlock and executes it at EndBlock, built with the
		// node's own validator address
		pm := app.Context.proposalMaster.WithState(app.Context.deliver)
		prop := governance.NewProposal(svPropID, governance.ProposalTypeGeneral, "descr", "headline", svParty_(1).Addr,
			1, balance.NewAmountFromInt(10), 2, 51, "")
		prop.Status = governance.ProposalStatusVoting
		if err := pm.Proposal.WithPrefixType(governance.ProposalStateActive).Set(prop); err != nil {
			sv.Unreachable("proposal")
		}
		for i := 0; i < 2; i++ {
			if err := pm.ProposalVote.Setup(svPropID, governance.NewProposalVote(svParty_(i).Addr, governance.OPIN_UNKNOWN, 3000000)); err != nil {
				sv.Unreachable("vote setup")
			}
		}
		if err := pm.ProposalFund.AddFunds(svPropID, svParty_(1).Addr, balance.NewAmountFromInt(10)); err != nil {
			sv.Unreachable("funds")
		}
		// a proposal voted yes by both voters, waiting in the passed store: block 3 queues
		// its finalisation (built with the node's own validator address) and the block end
		// distributes its escrow to the validators, the proposer and the pools
		passed := governance.NewProposal(svPropID3, governance.ProposalTypeGeneral, "descr", "headline", svParty_(1).Addr,
			1, balance.NewAmountFromInt(10), 1000, 51, "")
		passed.Status, passed.Outcome = governance.ProposalStatusCompleted, governance.ProposalOutcomeCompletedYes
		if err := pm.Proposal.WithPrefixType(governance.ProposalStatePassed).Set(passed); err != nil {
			sv.Unreachable("passed proposal")
		}
		for i := 0; i < 2; i++ {
			pv := governance.NewProposalVote(svParty_(i).Addr, governance.OPIN_UNKNOWN, 3000000)
			if err := pm.ProposalVote.Setup(svPropID3, pv); err != nil {
				sv.Unreachable("vote setup")
			}
			pv.Opinion = governance.OPIN_POSITIVE
			if err := pm.ProposalVote.Update(svPropID3, pv); err != nil {
				sv.Unreachable("vote record")
			}
		}
		if err := pm.ProposalFund.AddFunds(svPropID3, svParty_(1).Addr, balance.NewAmountFromInt(1000003)); err != nil {
			sv.Unreachable("funds")
		}
		// a bid conversation past its deadline: the external application's block
		// hooks queue its expiry (built with the node's own validator address) and run it
		svBidGenesis(app, 7, 9)
		svCommitBlock(app)
		return app
	}
	tx := svBlockTx()
	a := mk(false)
	ta3 := svBlock(a, 3, nv, []action.SignedTx{tx}, nil)
	ta4 := svBlock(a, 4, nv, nil, nil)
	b := mk(true)
	sv.Assert(len(b.Context.node.ValidatorAddress()) == 20, "replica-2-has-a-validator-identity")
	sv.MapOrders(true)
	tb3 := svBlock(b, 3, nv, []action.SignedTx{tx}, nil)
	tb4 := svBlock(b, 4, nv, nil, nil)
	sv.MapOrders(false)
	sv.Assert(tb3.equal(ta3), "block-results-independent-of-node-identity-and-map-order")
	sv.Assert(tb4.equal(ta4), "next-block-results-independent-of-node-identity-and-map-order")
	_, stP := svPropStageOf(a, svPropID3)
	sv.Cover(stP == governance.ProposalStateFinalized, "passed-proposal-finalised-in-the-compared-blocks")
	sv.Cover(true, "compared")
}
