package app

// Governance, second half: vote, expire, finalise (C14).

import (
	"fmt"
	"math/big"

	"github.com/Oneledger/protocol/action"
	action_gov "github.com/Oneledger/protocol/action/governance"
	"github.com/Oneledger/protocol/data/balance"
	"github.com/Oneledger/protocol/data/governance"
	"github.com/Oneledger/protocol/data/keys"
	"github.com/Oneledger/protocol/identity"
	sv "github.com/Oneledger/protocol/zz_sv"
)

type svVotePre struct {
	where    int // 0 voting, 1 funding, 2 passed store, 3 failed store (voted no), 4 finalized, 5 failed store (cancelled)
	pass     int
	powers   []int64
	opinions []governance.VoteOpinion
	isVal    []bool
	voteDL   int64
	funds    *big.Int
	proposer int
	// configuration-update harness: proposal type (zero value = general), the
	// update text of the proposal and the stages to choose from (6 = finalize-failed store)
	ptype  governance.ProposalType
	update string
	stages []int
	// zeroRec: party C has a validator record with zero power (it unstaked everything a
	// few blocks ago; the record is kept until tendermint has dropped it): not in any
	// snapshot, but a record the fund distribution walks over
	zeroRec bool
	// plainValidators: leave the zero-power record choices out (configuration harness)
	plainValidators bool
}

// svZeroRecordsInLean: the reduced pre-states of the generic second-batch harnesses take the
// zero-power validator records too (set by the C02 / C03 harnesses, where they matter)
var svZeroRecordsInLean bool

var svPowerTables = [][]int64{{1, 1, 1}, {1, 1, 2}, {33, 33, 34}, {49, 2, 49}}

// svPreVote: proposal svPropID in a given stage with a snapshot of up to 3
// validators (the parties), their recorded opinions, an arbitrary voting
// deadline and an arbitrary escrowed total contributed by party A.
func svPreVote(pre *svVotePre, kind int) func(e *svEnv) {
	return func(e *svEnv) {
		ctx := &e.app.Context
		pm := ctx.proposalMaster.WithState(ctx.deliver)
		vs := ctx.validators.WithState(ctx.deliver)
		// pass percentage of the proposal options (store record and in-memory copy)
		quick := sv.Tier() == 0 || svLean
		if svLean {
			pre.pass = 51
		} else if quick {
			pre.pass = []int{51, 75}[sv.Choice("prop.pass", 2)]
		} else {
			pre.pass = []int{51, 67, 75}[sv.Choice("prop.pass", 3)]
		}
		g := ctx.govern.WithState(ctx.deliver).WithHeight(0)
		opts, err := g.GetProposalOptions()
		if err != nil {
			sv.Unreachable("proposal options")
		}
		opts.General.PassPercentage = pre.pass
		if err := g.SetProposalOptions(*opts); err != nil {
			sv.Unreachable("set proposal options")
		}
		ctx.proposalMaster.Proposal.SetOptions(opts)

		if pre.stages != nil {
			pre.where = pre.stages[sv.Choice("prop.where", len(pre.stages))]
		} else if svLean {
			pre.where = []int{0, 2, 3}[sv.Choice("prop.where", 3)] // voting, passed, failed
		} else if kind == 0 && quick {
			pre.where = sv.Choice("prop.where", 2) // voting, funding
		} else {
			pre.where = sv.Choice("prop.where", 6)
		}
		pre.powers = svPowerTables[1]
		if !quick {
			pre.powers = svPowerTables[sv.Choice("prop.powers", len(svPowerTables))]
		}
		pre.voteDL = sv.Int64("prop.votingDeadline")
		sv.Assume(pre.voteDL >= 0 && pre.voteDL < 1<<40)
		if kind == 2 {
			pre.proposer = sv.Choice("prop.proposer", e.n)
		}
		ptype := governance.ProposalTypeGeneral
		if pre.ptype != 0 {
			ptype = pre.ptype
		}
		p := governance.NewProposal(svPropID, ptype, "descr", "headline", svParty_(pre.proposer).Addr,
			10, balance.NewAmountFromInt(10), pre.voteDL, pre.pass, pre.update)
		state := governance.ProposalStateActive
		switch pre.where {
		case 0:
			p.Status = governance.ProposalStatusVoting
		case 2:
			p.Status, p.Outcome, state = governance.ProposalStatusCompleted, governance.ProposalOutcomeCompletedYes, governance.ProposalStatePassed
		case 3:
			p.Status, p.Outcome, state = governance.ProposalStatusCompleted, governance.ProposalOutcomeCompletedNo, governance.ProposalStateFailed
		case 4:
			p.Status, p.Outcome, state = governance.ProposalStatusCompleted, governance.ProposalOutcomeCompletedYes, governance.ProposalStateFinalized
		case 5:
			p.Status, p.Outcome, state = governance.ProposalStatusCompleted, governance.ProposalOutcomeCancelled, governance.ProposalStateFailed
		case 6:
			p.Status, p.Outcome, state = governance.ProposalStatusCompleted, governance.ProposalOutcomeCompletedYes, governance.ProposalStateFinalizeFailed
		}
		if err := pm.Proposal.WithPrefixType(state).Set(p); err != nil {
			sv.Unreachable("proposal setup")
		}
		for i := 0; i < e.n; i++ {
			pt := svParty_(i)
			isVal := i < 2
			if i >= 2 && (!svLean || (kind == 2 && svZeroRecordsInLean)) && !pre.plainValidators {
				switch sv.Choice("prop.validator"+svPartyName(i), 3) {
				case 0:
					isVal = !svLean
				case 2:
					if kind == 2 && !pre.zeroRec {
						pre.zeroRec = true
						z := identity.NewValidator(pt.Addr, pt.Addr, pt.Pub, pt.Pub, *balance.NewAmount(0), "n"+svPartyName(i))
						z.Power = 0
						if err := vs.Set(*z); err != nil {
							sv.Unreachable("zero-power validator")
						}
					}
				}
			}
			pre.isVal = append(pre.isVal, isVal)
			op := governance.OPIN_UNKNOWN
			if isVal {
				v := identity.NewValidator(pt.Addr, pt.Addr, pt.Pub, pt.Pub, *balance.NewAmount(pre.powers[i]), "n"+svPartyName(i))
				v.Power = pre.powers[i]
				if err := vs.Set(*v); err != nil {
					sv.Unreachable("validator")
				}
				if pre.where != 1 && pre.where != 5 {
					if i == 2 {
						// C has not voted (in every tier: a third free opinion multiplies the paths by 4 for no new behaviour; the tally harness covers all combinations)
						op = governance.OPIN_UNKNOWN
					} else if svLean && pre.where == 0 {
						op = governance.VoteOpinion(sv.Choice("prop.opinion"+svPartyName(i), 2)) // unknown / yes
					} else if quick && (kind == 2 || svLean) {
						// two recorded vectors: (yes, yes) and (no, no)
						op = governance.VoteOpinion(1 + sv.Choice("prop.opinions", 2))
					} else {
						op = governance.VoteOpinion(sv.Choice("prop.opinion"+svPartyName(i), 4))
					}
					pv := governance.NewProposalVote(pt.Addr, op, pre.powers[i])
					if err := pm.ProposalVote.Setup(svPropID, pv); err != nil {
						sv.Unreachable("vote setup")
					}
					pv.Opinion = op
					if err := pm.ProposalVote.Update(svPropID, pv); err != nil {
						sv.Unreachable("vote record")
					}
				}
			}
			pre.opinions = append(pre.opinions, op)
		}
		// B may have unstaked everything since the snapshot was taken: its vote record keeps
		// the snapshot power, its validator record (kept for a few blocks) has none
		if kind == 2 && !pre.plainValidators && (!svLean || svZeroRecordsInLean) && sv.Choice("prop.bUnstakedSinceTheSnapshot", 2) == 1 {
			pt := svParty_(1)
			z := identity.NewValidator(pt.Addr, pt.Addr, pt.Pub, pt.Pub, *balance.NewAmount(0), "nB")
			z.Power = 0
			if err := vs.Set(*z); err != nil {
				sv.Unreachable("unstaked validator")
			}
		}
		// representation invariant: a proposal sits in the passed / failed(voted no)
		// store only with a recorded tally that says so
		if t := svTally(pre, pre.opinions); ((pre.where == 2 || pre.where == 6) && t != governance.VOTE_RESULT_PASSED) || (pre.where == 3 && t != governance.VOTE_RESULT_FAILED) ||
			(pre.where == 0 && t != governance.VOTE_RESULT_TBD) {
			sv.Assume(false)
		}
		pre.funds = new(big.Int)
		if pre.where != 4 {
			pre.funds = svNonNeg("prop.funds")
			if err := pm.ProposalFund.AddFunds(svPropID, svParty_(0).Addr, balance.NewAmountFromBigInt(pre.funds)); err != nil {
				sv.Unreachable("funds setup")
			}
		}
		// a bystander: another proposal in voting with its own snapshot, a yes vote
		// of A and an escrow of 5, which no transaction of the harness names
		by := governance.NewProposal(svPropID2, governance.ProposalTypeGeneral, "descr", "headline", svParty_(1).Addr,
			10, balance.NewAmountFromInt(5), 1<<39, pre.pass, "")
		by.Status = governance.ProposalStatusVoting
		if err := pm.Proposal.WithPrefixType(governance.ProposalStateActive).Set(by); err != nil {
			sv.Unreachable("bystander proposal")
		}
		for i := 0; i < 2; i++ {
			pv := governance.NewProposalVote(svParty_(i).Addr, governance.OPIN_UNKNOWN, pre.powers[i])
			if err := pm.ProposalVote.Setup(svPropID2, pv); err != nil {
				sv.Unreachable("bystander vote setup")
			}
		}
		byVote := governance.NewProposalVote(svParty_(0).Addr, governance.OPIN_POSITIVE, pre.powers[0])
		if err := pm.ProposalVote.Update(svPropID2, byVote); err != nil {
			sv.Unreachable("bystander vote")
		}
		if err := pm.ProposalFund.AddFunds(svPropID2, svParty_(1).Addr, balance.NewAmountFromInt(5)); err != nil {
			sv.Unreachable("bystander funds")
		}
		e.extra = append(e.extra, func(l *svLedger) {
			pm := ctx.proposalMaster.WithState(ctx.deliver)
			l.add("propFunds:bystander", "escrow2", "OLT", pm.ProposalFund.GetCurrentFundsForProposal(svPropID2).BigInt())
			l.add("propFunds:total", "escrow", "OLT", pm.ProposalFund.GetCurrentFundsForProposal(svPropID).BigInt())
			bal := ctx.balances.WithState(ctx.deliver)
			c, err := bal.GetBalanceForCurr(keys.Address("executionCostGeneral"), &svOLT)
			if err != nil {
				sv.Unreachable("ledger: execution cost balance")
			}
			l.add("b:execCost:OLT", "pool:execCost", "OLT", c.Amount.BigInt())
		})
	}
}

// svTally: the reference tally over recorded opinions, in exact integers.
func svTally(pre *svVotePre, ops []governance.VoteOpinion) governance.VoteResult {
	var all, yes, no, giveup int64
	for i, op := range ops {
		if !pre.isVal[i] {
			continue
		}
		all += pre.powers[i]
		switch op {
		case governance.OPIN_POSITIVE:
			yes += pre.powers[i]
		case governance.OPIN_NEGATIVE:
			no += pre.powers[i]
		case governance.OPIN_GIVEUP:
			giveup += pre.powers[i]
		}
	}
	total := all - giveup
	if total <= 0 {
		return governance.VOTE_RESULT_TBD
	}
	if yes*100 >= int64(pre.pass)*total {
		return governance.VOTE_RESULT_PASSED
	}
	// failed once the power that has not voted no can no longer reach the pass share
	if (total-no)*100 < int64(pre.pass)*total {
		return governance.VOTE_RESULT_FAILED
	}
	return governance.VOTE_RESULT_TBD
}

// svBystanderProposalUntouched: the other proposal keeps its stage, votes and escrow.
func svBystanderProposalUntouched(e *svEnv) {
	p, st := svPropStage(e, svPropID2)
	sv.Assert(p != nil && st == governance.ProposalStateActive && p.Status == governance.ProposalStatusVoting, "a-proposal-no-transaction-names-is-untouched")
	pm := e.app.Context.proposalMaster.WithState(e.app.Context.deliver)
	_, votes, err := pm.ProposalVote.GetVotesByID(svPropID2)
	sv.Assert(err == nil && len(votes) == 2, "a-proposal-no-transaction-names-is-untouched")
	for _, v := range votes {
		want := governance.OPIN_UNKNOWN
		if v.Validator.Equal(svParty_(0).Addr) {
			want = governance.OPIN_POSITIVE
		}
		sv.Assert(v.Opinion == want, "a-proposal-no-transaction-names-is-untouched")
	}
	sv.Assert(pm.ProposalFund.GetCurrentFundsForProposal(svPropID2).BigInt().Cmp(big.NewInt(5)) == 0, "a-proposal-no-transaction-names-is-untouched")
}

// SV_C14_vote_expire_finalize: one vote / expire / finalise transaction.
//
// sv:bounds proposal (general type) in voting, funding, passed, failed (voted no), finalized or failed (cancelled) stage; pass percentage 51, 67 or 75; validator snapshot of 2-3 parties with power table {1,1,2} (the third party may instead hold a zero-power validator record outside the snapshot, for finalise) (thorough: also {1,1,1}, {33,33,34}, {49,2,49}); recorded opinions of A and B unknown/yes/no/give-up consistent with the stage, C has not voted (quick: finalise from the vectors yes,yes / no,no); pass percentage quick 51 or 75; voting deadline arbitrary (any relation to block height 20); escrowed total arbitrary; the shared proposal store's selected stage prefix (in-memory residue of the previous handler) active, failed or passed; kind: vote (any validator field and voter, opinion yes/no/give-up), expire, finalise (delivered twice); mempool-admitted regime
// sv:outside configuration-update proposals (the update function table); more than 3 validators; validator-set changes between snapshot and vote; the BeginBlock queueing of internal transactions (the handlers are driven directly, as a mempool submission does)
// sv:goal a second proposal (in voting, with votes and an escrow) that no transaction names keeps its stage, votes and escrow; a vote succeeds only while voting and not after the deadline, only for a snapshotted validator, changes only that validator's opinion, and moves the proposal to passed / failed exactly when the exact-integer tally over the recorded opinions says so; expire succeeds only for a proposal in voting whose deadline has passed and moves it to failed (insufficient votes); finalise succeeds with a distribution only for a completed proposal whose tally is decided, empties the escrow, credits nobody more than the escrow held in total, debits nobody, moves it to finalized, and a second finalise changes nothing
func SV_C14_vote_expire_finalize() {
	svCurrencyLimit = 1
	pre := &svVotePre{}
	kind := sv.Choice("kind", 3)
	e := svNewEnv(3, 20, svPreVote(pre, kind))
	p0, st0 := svPropStage(e, svPropID)
	// in-memory residue: the proposal store is one shared object whose selected
	// stage prefix is whatever the previous handler left
	residue := []governance.ProposalState{governance.ProposalStateActive, governance.ProposalStateFailed, governance.ProposalStatePassed}[sv.Choice("residue.prefix", 3)]
	e.beforeDeliver = func() { e.app.Context.proposalMaster.Proposal.WithPrefixType(residue) }
	pm := func() *governance.ProposalMasterStore {
		return e.app.Context.proposalMaster.WithState(e.app.Context.deliver)
	}
	switch kind {
	case 0: // vote
		vi, valAddr := svAnyParty("vote.validator", e.n)
		ai := (vi + sv.Choice("vote.voterOffset", 2)) % e.n // the validator's own account or another one
		voter := svParty_(ai).Addr
		op := governance.VoteOpinion(1 + sv.Choice("vote.opinion", 3))
		raw := svRaw(action.PROPOSAL_VOTE, &action_gov.VoteProposal{ProposalID: svPropID, Address: voter, ValidatorAddress: valAddr, Opinion: op})
		r := e.step(raw, []int{ai, vi}, true)
		svBystanderProposalUntouched(e)
		p1, st1 := svPropStage(e, svPropID)
		if r.resp.Code != 0 {
			sv.Assert(st1 == st0, "refused-vote-does-not-move-the-proposal")
			return
		}
		sv.Assert(p0 != nil && st0 == governance.ProposalStateActive && p0.Status == governance.ProposalStatusVoting && e.height <= p0.VotingDeadline, "vote-only-while-voting-and-before-the-deadline")
		sv.Assert(pre.isVal[vi], "vote-only-by-a-snapshotted-validator")
		_, votes, err := pm().ProposalVote.GetVotesByID(svPropID)
		sv.Assert(err == nil, "votes-readable")
		ops := append([]governance.VoteOpinion{}, pre.opinions...)
		ops[vi] = op
		for _, v := range votes {
			for i := 0; i < e.n; i++ {
				if v.Validator.Equal(svParty_(i).Addr) {
					sv.Assert(v.Opinion == ops[i] && v.Power == pre.powers[i], "only-the-voting-validator's-opinion-changes")
				}
			}
		}
		want := svTally(pre, ops)
		switch want {
		case governance.VOTE_RESULT_PASSED:
			sv.Assert(p1 != nil && st1 == governance.ProposalStatePassed && p1.Outcome == governance.ProposalOutcomeCompletedYes, "passes-exactly-when-the-yes-share-is-reached")
			sv.Cover(true, "vote-passed")
		case governance.VOTE_RESULT_FAILED:
			sv.Assert(p1 != nil && st1 == governance.ProposalStateFailed && p1.Outcome == governance.ProposalOutcomeCompletedNo, "fails-exactly-when-the-yes-share-is-out-of-reach")
			sv.Cover(true, "vote-failed")
		default:
			sv.Assert(p1 != nil && st1 == governance.ProposalStateActive && p1.Status == governance.ProposalStatusVoting, "stays-in-voting-while-undecided")
			sv.Cover(true, "vote-undecided")
		}
	case 1: // expire
		ai, who := svAnyParty("actor", e.n)
		raw := svRaw(action.EXPIRE_VOTES, &action_gov.ExpireVotes{ProposalID: svPropID, ValidatorAddress: who})
		r := e.step(raw, []int{ai}, true)
		svBystanderProposalUntouched(e)
		p1, st1 := svPropStage(e, svPropID)
		if r.resp.Code != 0 {
			sv.Assert(st1 == st0, "refused-expiry-does-not-move-the-proposal")
			return
		}
		sv.Assert(p0 != nil && st0 == governance.ProposalStateActive && p0.Status == governance.ProposalStatusVoting, "expire-only-a-proposal-in-voting")
		sv.Assert(p0 != nil && e.height > p0.VotingDeadline, "expire-only-after-the-voting-deadline")
		sv.Assert(p1 != nil && st1 == governance.ProposalStateFailed && p1.Outcome == governance.ProposalOutcomeInsufficientVotes, "expired-proposal-moves-to-failed")
		sv.Cover(true, "expired")
	default: // finalise, twice
		ai, who := svAnyParty("actor", e.n)
		raw := svRaw(action.PROPOSAL_FINALIZE, &action_gov.FinalizeProposal{ProposalID: svPropID, ValidatorAddress: who})
		r := e.step(raw, []int{ai}, true)
		svBystanderProposalUntouched(e)
		_, st1 := svPropStage(e, svPropID)
		if r.resp.Code != 0 {
			sv.Assert(st1 == st0, "refused-finalise-does-not-move-the-proposal")
			for k, c := range r.after.cells {
				sv.Assert(c.V.Cmp(r.before.cells[k].V) == 0, "refused-finalise-moves-no-funds")
			}
			return
		}
		if st0 == governance.ProposalStateFinalized {
			for k, c := range r.after.cells {
				sv.Assert(c.V.Cmp(r.before.cells[k].V) == 0, "finalise-of-a-finalized-proposal-changes-nothing")
			}
			sv.Cover(true, "already-finalized")
			return
		}
		sv.Assert(p0 != nil && p0.Status == governance.ProposalStatusCompleted && (st0 == governance.ProposalStatePassed || st0 == governance.ProposalStateFailed), "finalise-only-a-completed-proposal")
		want := svTally(pre, pre.opinions)
		sv.Assert(want != governance.VOTE_RESULT_TBD, "finalise-only-with-a-decided-tally")
		sv.Assert(st1 == governance.ProposalStateFinalized || st1 == governance.ProposalStateFinalizeFailed, "finalised-proposal-moves-to-a-final-store")
		if st1 == governance.ProposalStateFinalized {
			sv.Assert(r.after.get("propFunds:total").Sign() == 0, "finalise-empties-the-escrow")
			credited := new(big.Int)
			for k, c := range r.after.cells {
				if c.Name == "propFunds:total" {
					continue
				}
				d := new(big.Int).Sub(c.V, r.before.cells[k].V)
				sv.Assert(d.Sign() >= 0, "finalise-debits-nobody")
				credited.Add(credited, d)
			}
			sv.Assert(credited.Cmp(pre.funds) <= 0, "distribution-never-exceeds-the-contributions")
			// exact shares of the configured distribution (percent x 10000 / 10^6, floor)
			dist := []int64{18, 18, 18, 18, 10, 18} // passed: validators, fee pool, burn, execution cost, bounty, proposer
			if want == governance.VOTE_RESULT_FAILED {
				dist = []int64{10, 10, 10, 20, 50, 0}
			}
			share := func(pct int64) *big.Int {
				x := new(big.Int).Mul(pre.funds, big.NewInt(pct*10000))
				return x.Div(x, big.NewInt(1000000))
			}
			nval := int64(0)
			for i := 0; i < e.n; i++ {
				if pre.isVal[i] {
					nval++
				}
			}
			if pre.zeroRec {
				nval++ // the distribution walks over every validator record
			}
			perVal := new(big.Int).Div(share(dist[0]), big.NewInt(nval))
			wantGain := map[string]*big.Int{}
			add := func(cell string, v *big.Int) {
				if wantGain[cell] == nil {
					wantGain[cell] = new(big.Int)
				}
				wantGain[cell].Add(wantGain[cell], v)
			}
			if pre.zeroRec {
				add("b:C:OLT", perVal)
				sv.Cover(true, "distribution-with-a-zero-power-record")
			}
			for i := 0; i < e.n; i++ {
				if pre.isVal[i] {
					add("b:"+svPartyName(i)+":OLT", perVal)
				}
			}
			add("b:"+svPartyName(pre.proposer)+":OLT", share(dist[5]))
			add("b:pool:bounty:OLT", share(dist[4]))
			add("b:execCost:OLT", share(dist[3]))
			rest := new(big.Int).Set(pre.funds)
			for _, k := range []int{0, 2, 3, 4, 5} {
				rest.Sub(rest, share(dist[k]))
			}
			add("f:pool", rest)
			for k, c := range r.after.cells {
				if c.Name == "propFunds:total" || c.Name == "propFunds:bystander" {
					continue
				}
				w := wantGain[c.Name]
				if w == nil {
					w = new(big.Int)
				}
				sv.Assert(new(big.Int).Sub(c.V, r.before.cells[k].V).Cmp(w) == 0, "each-recipient-gets-exactly-its-configured-share")
			}
			sv.Cover(true, fmt.Sprint("finalized-from-", st0 == governance.ProposalStatePassed))
		}
		// a second finalise changes nothing
		l1 := e.ledger()
		resp2 := svDeliver(e.app, svSign(raw, ai))
		l2 := e.ledger()
		_, st2 := svPropStage(e, svPropID)
		sv.Observe("code2", resp2.Code)
		sv.Assert(st2 == st1, "second-finalise-does-not-move-the-proposal")
		for k, c := range l2.cells {
			sv.Assert(c.V.Cmp(l1.cells[k].V) == 0, "funds-are-distributed-once")
		}
	}
}

// svBuildGov2: a vote / expire / finalise transaction with any roles (the
// builder used by the generic goals; hostile adds opinions outside the
// enumeration).
func svBuildGov2(e *svEnv, kind int, hostile bool) (action.RawTx, []int) {
	switch kind {
	case 0:
		vi, valAddr := svAnyParty("vote.validator", e.n)
		ai := (vi + sv.Choice("vote.voterOffset", 2)) % e.n
		nop := 3
		if hostile {
			nop = 5
		}
		op := governance.VoteOpinion([]int{1, 2, 3, 0, 9}[sv.Choice("vote.opinion", nop)])
		return svRaw(action.PROPOSAL_VOTE, &action_gov.VoteProposal{ProposalID: svPropID, Address: svParty_(ai).Addr, ValidatorAddress: valAddr, Opinion: op}), []int{ai, vi}
	case 1:
		ai, who := svAnyParty("actor", e.n)
		return svRaw(action.EXPIRE_VOTES, &action_gov.ExpireVotes{ProposalID: svPropID, ValidatorAddress: who}), []int{ai}
	}
	ai, who := svAnyParty("actor", e.n)
	return svRaw(action.PROPOSAL_FINALIZE, &action_gov.FinalizeProposal{ProposalID: svPropID, ValidatorAddress: who}), []int{ai}
}
