package app

// C07 — mempool checks are isolated from consensus execution.

import (
	"github.com/Oneledger/protocol/action"
	sv "github.com/Oneledger/protocol/zz_sv"
)

// svSomeTx: a transaction of a state-changing kind with havoc payload, signed
// by the parties it names (valid or not: amounts and funds are arbitrary).
func svSomeTx(n int) action.SignedTx {
	e := &svEnv{n: n}
	var raw action.RawTx
	var signers []int
	switch sv.Choice("chk.kind", 3) {
	case 0:
		raw, signers = svBuildSend(e), []int{0}
	case 1:
		raw, signers = svBuildStake(e)
	default:
		raw, signers = svBuildDelegate(e)
	}
	return svSign(raw, signers...)
}

// SV_C07_checktx_isolated: two replicas process the same two blocks; on one of
// them a CheckTx of an arbitrary transaction is injected at one ABCI call
// boundary of the first block. All consensus results must be equal.
//
// sv:bounds genesis with 2 validators (stake 3,000,000 each) and symbolic funded balances; block 2 carries one SEND with havoc payload, block 3 is empty; one injected CheckTx (SEND, STAKE or DELEGATE with havoc payload, signed by the parties it names) at any of the 6 call boundaries of block 2 (before/after BeginBlock, after DeliverTx, after EndBlock, after Commit)
// sv:outside several CheckTx calls; other kinds in the mempool; real concurrency between the mempool and consensus connections (Tendermint serialises them); longer histories
// sv:goal DeliverTx codes/gas/data, validator updates and the ordered write set of both blocks are the same with and without the injected CheckTx
func SV_C07_checktx_isolated() {
	nv := 2
	mk := func() *App {
		app := svNewApp()
		svInstallIndexer()
		svGenesisWithValidators(app, []int64{3000000, 3000000})
		return app
	}
	// symbolic funding, applied identically to both replicas
	fundA, fundB := svNonNeg("fundA"), svNonNeg("fundB")
	fund := func(app *App) {
		svFundOLT(app, svParty_(0).Addr, fundA)
		svFundOLT(app, svParty_(1).Addr, fundB)
		svCommitBlock(app)
	}
	a, b := mk(), mk()
	fund(a)
	fund(b)
	tx := svSign(svBuildSend(&svEnv{n: 2}), 0)
	chk := svSomeTx(2)
	where := sv.Choice("inject.at", 6)
	ta1 := svBlock(a, 3, nv, []action.SignedTx{tx}, func(pos int) {
		if pos == where {
			svCheck(a, chk)
			sv.Cover(true, "checktx-injected")
		}
	})
	tb1 := svBlock(b, 3, nv, []action.SignedTx{tx}, nil)
	sv.Assert(ta1.equal(tb1), "block-with-injected-checktx-has-the-same-results")
	ta2 := svBlock(a, 4, nv, nil, nil)
	tb2 := svBlock(b, 4, nv, nil, nil)
	sv.Assert(ta2.equal(tb2), "next-block-has-the-same-results")
	sv.Observe("code", ta1.Codes[0])
}
