package app

// C07 — mempool checks are isolated from consensus execution.

import (
	"github.com/Oneledger/protocol/action"
	"github.com/Oneledger/protocol/action/transfer"
	sv "github.com/Oneledger/protocol/zz_sv"
)

// svSomeTx: a transaction of a state-changing kind with havoc payload, signed
// by the parties it names (valid or not: amounts and funds are arbitrary).
func svSomeTx(n int) action.SignedTx {
	if sv.Tier() == 0 {
		n = 1 // quick: party A plays every role (thorough: all role assignments)
	}
	e := &svEnv{n: n}
	var raw action.RawTx
	var signers []int
	switch sv.Choice("chk.kind", 3) {
	case 0:
		raw, signers = svBuildSend(e), []int{0}
	case 1:
		raw, signers = svBuildStake(e)
	default:
		raw, signers = svBuildDelegate(e)
	}
	return svSign(raw, signers...)
}

// svBlockTx: the transaction carried by the block in the relational harnesses:
// a SEND from A to B with arbitrary amount (any integer), currency name and fee.
func svBlockTx() action.SignedTx {
	raw := svRaw(action.SEND, &transfer.Send{From: svParty_(0).Addr, To: svParty_(1).Addr, Amount: svAnyAmount("blk.amount")})
	return svSign(raw, 0)
}

// SV_C07_checktx_isolated: two replicas process the same two blocks; on one of
// them a CheckTx of an arbitrary transaction is injected at one ABCI call
// boundary of the first block. All consensus results must be equal.
//
// sv:bounds genesis with 2 validators (stake 3,000,000 each) and symbolic funded balances; block 3 carries one SEND A->B with arbitrary amount/currency/fee, block 4 is empty; one injected CheckTx (SEND, STAKE or DELEGATE with havoc amount/currency; quick: party A in every role, thorough: every role assignment over 2 parties) at any of the 5 call boundaries of block 3 (before/after BeginBlock, after DeliverTx, after EndBlock, after Commit)
// sv:outside several CheckTx calls; other kinds in the mempool; real concurrency between the mempool and consensus connections (Tendermint serialises them); longer histories
// sv:goal DeliverTx codes/gas/data, validator updates and the ordered write set of both blocks are the same with and without the injected CheckTx
func SV_C07_checktx_isolated() {
	sv.NominalSizes(64)
	nv := 2
	mk := func() *App {
		app := svNewApp()
		svInstallIndexer()
		svGenesisWithValidators(app, []int64{3000000, 3000000})
		return app
	}
	// symbolic funding, applied identically to both replicas
	fundA, fundB := svNonNeg("fundA"), svNonNeg("fundB")
	fund := func(app *App) {
		svFundOLT(app, svParty_(0).Addr, fundA)
		svFundOLT(app, svParty_(1).Addr, fundB)
		svCommitBlock(app)
	}
	a, b := mk(), mk()
	fund(a)
	fund(b)
	tx := svBlockTx()
	chk := svSomeTx(2)
	where := sv.Choice("inject.at", 5)
	ta1 := svBlock(a, 3, nv, []action.SignedTx{tx}, func(pos int) {
		if pos == where {
			svCheck(a, chk)
			sv.Cover(true, "checktx-injected")
		}
	})
	tb1 := svBlock(b, 3, nv, []action.SignedTx{tx}, nil)
	sv.Assert(ta1.equal(tb1), "block-with-injected-checktx-has-the-same-results")
	ta2 := svBlock(a, 4, nv, nil, nil)
	tb2 := svBlock(b, 4, nv, nil, nil)
	sv.Assert(ta2.equal(tb2), "next-block-has-the-same-results")
	sv.Observe("code", ta1.Codes[0])
}
