package app

// C07 — mempool checks are isolated from consensus execution.

import (
	"strconv"

	"github.com/Oneledger/protocol/action"
	"github.com/Oneledger/protocol/action/olvm"
	"github.com/Oneledger/protocol/action/transfer"
	"github.com/Oneledger/protocol/data/balance"
	"github.com/Oneledger/protocol/utils"
	sv "github.com/Oneledger/protocol/zz_sv"
	ethcmn "github.com/ethereum/go-ethereum/common"
)

// svSomeTx: a transaction of a state-changing kind with havoc payload, signed
// by the parties it names (valid or not: amounts and funds are arbitrary).
func svSomeTx(n int) action.SignedTx {
	if sv.Tier() == 0 {
		n = 1 // quick: party A plays every role (thorough: all role assignments)
	}
	e := &svEnv{n: n}
	var raw action.RawTx
	var signers []int
	switch sv.Choice("chk.kind", 3) {
	case 0:
		raw, signers = svBuildSend(e), []int{0}
	case 1:
		raw, signers = svBuildStake(e)
	default:
		raw, signers = svBuildDelegate(e)
	}
	return svSign(raw, signers...)
}

// svBlockTx: the transaction carried by the block in the relational harnesses:
// a SEND from A to B with arbitrary amount (any integer), currency name and fee.
func svBlockTx() action.SignedTx {
	raw := svRaw(action.SEND, &transfer.Send{From: svParty_(0).Addr, To: svParty_(1).Addr, Amount: svAnyAmount("blk.amount")})
	return svSign(raw, 0)
}

// SV_C07_checktx_isolated: two replicas process the same two blocks; on one of
// them a CheckTx of an arbitrary transaction is injected at one ABCI call
// boundary of the first block. All consensus results must be equal.
//
// sv:bounds genesis with 2 validators (stake 3,000,000 each) and symbolic funded balances; block 3 carries one SEND A->B with arbitrary amount/currency/fee, block 4 is empty; one injected CheckTx (SEND, STAKE or DELEGATE with havoc amount/currency; quick: party A in every role, thorough: every role assignment over 2 parties) at any of the 5 call boundaries of block 3 (before/after BeginBlock, after DeliverTx, after EndBlock, after Commit)
// sv:outside several CheckTx calls; other kinds in the mempool; real concurrency between the mempool and consensus connections (Tendermint serialises them); longer histories
// sv:goal DeliverTx codes/gas/data, validator updates and the ordered write set of both blocks are the same with and without the injected CheckTx
func SV_C07_checktx_isolated() {
	sv.NominalSizes(64)
	nv := 2
	mk := func() *App {
		app := svNewApp()
		svInstallIndexer()
		svGenesisWithValidators(app, []int64{3000000, 3000000})
		return app
	}
	// symbolic funding, applied identically to both replicas
	fundA, fundB := svNonNeg("fundA"), svNonNeg("fundB")
	fund := func(app *App) {
		svFundOLT(app, svParty_(0).Addr, fundA)
		svFundOLT(app, svParty_(1).Addr, fundB)
		svCommitBlock(app)
	}
	a, b := mk(), mk()
	fund(a)
	fund(b)
	tx := svBlockTx()
	chk := svSomeTx(2)
	where := sv.Choice("inject.at", 5)
	ta1 := svBlock(a, 3, nv, []action.SignedTx{tx}, func(pos int) {
		if pos == where {
			svCheckEnvGas(a, chk)
			sv.Cover(true, "checktx-injected")
		}
	})
	tb1 := svBlock(b, 3, nv, []action.SignedTx{tx}, nil)
	sv.Assert(ta1.equal(tb1), "block-with-injected-checktx-has-the-same-results")
	ta2 := svBlock(a, 4, nv, nil, nil)
	tb2 := svBlock(b, 4, nv, nil, nil)
	sv.Assert(ta2.equal(tb2), "next-block-has-the-same-results")
	sv.Observe("code", ta1.Codes[0])
}

// SV_C07_olvm_checktx: the EVM state adapter is one object shared by the
// mempool path and block execution; an OLVM CheckTx must leave nothing in it.
//
// sv:bounds genesis with 2 validators; the OLVM sender X (secp256k1 address) and party B funded with symbolic balances; block 3 carries a native SEND B->X with an arbitrary amount followed by an OLVM transfer X->B (amount and price arbitrary in [0,2^128), gas limit 50000; nonce 0), block 4 is empty; one injected CheckTx of that same OLVM transaction (thorough: or of another transfer from X with its own amount) at any of the 6 call boundaries of block 3 (before / after BeginBlock, after each DeliverTx, after EndBlock, after Commit)
// sv:outside several CheckTx calls; contract targets; real concurrency
// sv:goal DeliverTx codes / gas, validator updates and the ordered write set of both blocks are the same with and without the injected CheckTx
func SV_C07_olvm_checktx() {
	sv.NominalSizes(64)
	nv := 2
	x := svEthAddr(0)
	fundX, fundB := svNonNeg("fundX"), svNonNeg("fundB")
	sv.Assume(fundX.Cmp(svTwo128) < 0 && fundB.Cmp(svTwo128) < 0)
	mk := func() *App {
		app := svNewApp()
		svInstallIndexer()
		svGenesisWithValidators(app, []int64{3000000, 3000000})
		app.Context.stateDB.SetBlockHash(ethcmn.BytesToHash([]byte{1})) // the EVM is enabled
		svFundOLT(app, x, fundX)
		svFundOLT(app, svParty_(1).Addr, fundB)
		svCommitBlock(app)
		return app
	}
	to := svParty_(1).Addr
	price := svNonNeg("olvm.price")
	sv.Assume(price.Cmp(svTwo128) < 0)
	mkOLVM := func(tag string) action.SignedTx {
		amt := svNonNeg(tag + ".amount")
		sv.Assume(amt.Cmp(svTwo128) < 0)
		msg := &olvm.Transaction{Nonce: 0, From: x, To: &to,
			Amount:  action.Amount{Currency: "OLT", Value: *balance.NewAmountFromBigInt(amt)},
			ChainID: utils.HashToBigInt(svHeader(0).ChainID)}
		data, err := msg.Marshal()
		if err != nil {
			sv.Unreachable("marshal")
		}
		raw := action.RawTx{Type: action.OLVM, Data: data, Memo: strconv.FormatUint(0, 10),
			Fee: action.Fee{Price: action.Amount{Currency: "OLT", Value: *balance.NewAmountFromBigInt(price)}, Gas: 50000}}
		return svSignOLVM(raw, 0)
	}
	a, b := mk(), mk()
	fp := sv.BigInt("fee.price") // the SEND's fee price (shared input of svRaw)
	sv.Assume(fp.Sign() >= 0 && fp.Cmp(svTwo128) < 0)
	sendAmt := svNonNeg("send.amount")
	sv.Assume(sendAmt.Cmp(svTwo128) < 0)
	sendRaw := svRaw(action.SEND, &transfer.Send{From: svParty_(1).Addr, To: x, Amount: action.Amount{Currency: "OLT", Value: *balance.NewAmountFromBigInt(sendAmt)}})
	sendRaw.Fee.Gas = 1 << 40 // ample: the store gas of the native run (real record sizes) differs from the nominal sizes used here
	send := svSign(sendRaw, 1)
	blk := []action.SignedTx{send, mkOLVM("blk")}
	chk := blk[1] // the mempool checks the very transaction the block carries
	if sv.Tier() > 0 && sv.Choice("chk.other", 2) == 1 {
		chk = mkOLVM("chk")
	}
	where := sv.Choice("inject.at", 6)
	ta1 := svBlock(a, 3, nv, blk, func(pos int) {
		if pos == where {
			svCheckEnvGas(a, chk)
			sv.Cover(true, "checktx-injected")
		}
	})
	tb1 := svBlock(b, 3, nv, blk, nil)
	sv.Assert(ta1.equal(tb1), "block-with-injected-olvm-checktx-has-the-same-results")
	ta2 := svBlock(a, 4, nv, nil, nil)
	tb2 := svBlock(b, 4, nv, nil, nil)
	sv.Assert(ta2.equal(tb2), "next-block-has-the-same-results")
	sv.Observe("code.send", ta1.Codes[0])
	sv.Observe("code.olvm", ta1.Codes[1])
	sv.Cover(ta1.Codes[1] == 0, "olvm-executed")
}
