package node

import "github.com/Oneledger/protocol/data/keys"

// SVNewContext builds a node context with the given validator key (the real
// constructor reads key files). Used by the determinism harness to vary the
// node's identity.
func SVNewContext(name string, privval keys.PrivateKey) Context {
	return Context{NodeName: name, privateKey: privval, privval: privval, ecdsaPrivVal: privval}
}
