package app

// Governance: configuration-update proposals (C14: "a configuration change is
// applied exactly once, only for a passed proposal").

import (
	"math/big"
	"strings"

	"github.com/Oneledger/protocol/action"
	action_gov "github.com/Oneledger/protocol/action/governance"
	"github.com/Oneledger/protocol/data/balance"
	"github.com/Oneledger/protocol/data/governance"
	"github.com/Oneledger/protocol/data/keys"
	sv "github.com/Oneledger/protocol/zz_sv"
)

// svCfgCase: an update text, what the documented validation ranges say about it
// (data/governance/validations.go) and the option it names.
type svCfgCase struct {
	update string
	// 0 valid, 1 refused by the range validation / unparsable value, 2 key not in the update table, 3 malformed text
	class int
	field string
	want  int64
}

var svPropID3 = governance.ProposalID(strings.Repeat("ef", 32))

var svCfgCases = []svCfgCase{
	{"stakingOptions.topValidatorCount:16", 0, "staking.topValidatorCount", 16},
	{"stakingOptions.topValidatorCount:7", 1, "", 0}, // below the minimum of 8
	{"stakingOptions.maturityTime:200000", 0, "staking.maturityTime", 200000},
	{"propOptions.configUpdate.passPercentage:67", 0, "prop.config.passPercentage", 67},
	{"propOptions.general.passPercentage:81", 1, "", 0}, // above the maximum of 80
	{"onsOptions.perBlockFees:200000000000000", 0, "ons.perBlockFees", 200000000000000},
	{"feeOption.minFeeDecimal:10", 0, "fee.minFeeDecimal", 10},
	{"evidenceOptions.minVotesRequired:3", 1, "", 0}, // the genesis block-votes window (4) is below the documented minimum: every evidence update is refused
	{"stakingOptions.topValidatorCount:abc", 1, "", 0},
	{"stakingOptions.unknownField:1", 2, "", 0},
	{"stakingOptions.topValidatorCount:16:17", 3, "", 0},
}

type svOptCell struct {
	name string
	v    *big.Int
}

// svOptionsSnapshot reads every option a configuration update can name from
// the governance store of the deliver state, and the in-memory copies the node
// keeps of some of them (reloaded from the store at start).
func svOptionsSnapshot(e *svEnv) []svOptCell {
	ctx := &e.app.Context
	g := ctx.govern.WithState(ctx.deliver)
	var out []svOptCell
	add := func(n string, v *big.Int) { out = append(out, svOptCell{n, v}) }
	so, err := g.GetStakingOptions()
	if err != nil {
		sv.Unreachable("staking options")
	}
	add("staking.topValidatorCount", big.NewInt(so.TopValidatorCount))
	add("staking.maturityTime", big.NewInt(so.MaturityTime))
	add("staking.minSelfDelegationAmount", so.MinSelfDelegationAmount.BigInt())
	po, err := g.GetProposalOptions()
	if err != nil {
		sv.Unreachable("proposal options")
	}
	for _, t := range []struct {
		n string
		o *governance.ProposalOption
	}{{"config", &po.ConfigUpdate}, {"code", &po.CodeChange}, {"general", &po.General}} {
		add("prop."+t.n+".initialFunding", t.o.InitialFunding.BigInt())
		add("prop."+t.n+".fundingGoal", t.o.FundingGoal.BigInt())
		add("prop."+t.n+".fundingDeadline", big.NewInt(t.o.FundingDeadline))
		add("prop."+t.n+".votingDeadline", big.NewInt(t.o.VotingDeadline))
		add("prop."+t.n+".passPercentage", big.NewInt(int64(t.o.PassPercentage)))
	}
	oo, err := g.GetONSOptions()
	if err != nil {
		sv.Unreachable("ons options")
	}
	add("ons.perBlockFees", oo.PerBlockFees.BigInt())
	add("ons.baseDomainPrice", oo.BaseDomainPrice.BigInt())
	fo, err := g.GetFeeOption()
	if err != nil {
		sv.Unreachable("fee option")
	}
	add("fee.minFeeDecimal", big.NewInt(fo.MinFeeDecimal))
	eo, err := g.GetEvidenceOptions()
	if err != nil {
		sv.Unreachable("evidence options")
	}
	add("evidence.minVotesRequired", big.NewInt(eo.MinVotesRequired))
	add("evidence.blockVotesDiff", big.NewInt(eo.BlockVotesDiff))
	add("evidence.penaltyBasePercentage", big.NewInt(eo.PenaltyBasePercentage))
	// in-memory copies
	add("mem.ons.perBlockFees", ctx.domains.GetOptions().PerBlockFees.BigInt())
	add("mem.fee.minFeeDecimal", big.NewInt(ctx.feePool.GetOpt().MinFeeDecimal))
	add("mem.prop.config.passPercentage", big.NewInt(int64(ctx.proposalMaster.Proposal.GetOptions().ConfigUpdate.PassPercentage)))
	add("mem.prop.general.passPercentage", big.NewInt(int64(ctx.proposalMaster.Proposal.GetOptions().General.PassPercentage)))
	return out
}

func svOptGet(s []svOptCell, name string) *big.Int {
	for _, c := range s {
		if c.name == name {
			return c.v
		}
	}
	sv.Unreachable("option cell " + name)
	return nil
}

// svCfgPre: genesis options moved into the documented ranges (the devnet values
// of the shared genesis are outside them for staking and the base domain
// price), then the vote pre-state with a configuration-update proposal.
func svCfgPre(pre *svVotePre, kind int) func(e *svEnv) {
	inner := svPreVote(pre, kind)
	return func(e *svEnv) {
		ctx := &e.app.Context
		g := ctx.govern.WithState(ctx.deliver).WithHeight(0)
		so, err := g.GetStakingOptions()
		if err != nil {
			sv.Unreachable("staking options")
		}
		so.TopValidatorCount, so.MaturityTime = 8, 109200
		if err := g.SetStakingOptions(*so); err != nil {
			sv.Unreachable("set staking options")
		}
		oo, err := g.GetONSOptions()
		if err != nil {
			sv.Unreachable("ons options")
		}
		oo.BaseDomainPrice = svAmt("1000000000000000000")
		if err := g.SetONSOptions(*oo); err != nil {
			sv.Unreachable("set ons options")
		}
		ctx.domains.SetOptions(oo)
		inner(e)
		e.extra = append(e.extra, func(l *svLedger) {
			bal := ctx.balances.WithState(ctx.deliver)
			c, err := bal.GetBalanceForCurr(keys.Address("executionCostConfig"), &svOLT)
			if err != nil {
				sv.Unreachable("ledger: execution cost balance")
			}
			l.add("b:execCostConfig:OLT", "pool:execCostConfig", "OLT", c.Amount.BigInt())
		})
	}
}

// SV_C14_config_update: finalise (twice) of a configuration-update proposal in
// any stage, and creation of one (validation only).
//
// sv:bounds configuration-update proposal in voting, passed, failed (voted no), finalized or finalize-failed stage with the recorded vectors yes,yes / no,no (consistent with the stage) of validators A and B (power 1,1,2; C has not voted), pass percentage 51 or 75, escrow arbitrary; update text one of 11: four valid updates of different option groups (staking count, staking maturity, proposal pass percentage, ONS per-block fee, fee decimal), values outside the documented ranges, an unparsable value, an evidence update (refused: the genesis window is below the documented minimum), a key that is not in the update table, a text with two separators; kind: finalise delivered twice by any party, or PROPOSAL_CREATE of a configuration-update proposal with that text (funding deadline arbitrary); the governance store's last-update height of every option group is the genesis one or the current block (an update of another group finalised earlier in this block); mempool-admitted regime; genesis options inside the documented ranges
// sv:outside values other than the listed ones (the value is text parsed by strconv / big.Int.SetString: not symbolic); two proposals updating the same option; the block-begin queueing of the finalise transaction
// sv:goal finalise changes an option only for a proposal in the passed store whose recorded tally passes and whose update is valid, then exactly the named option becomes exactly the proposed value (store and in-memory copy) and nothing else changes; an invalid update moves the passed proposal to the finalize-failed store with all options unchanged and the escrow intact; an unknown key or malformed text leaves the proposal where it is; finalise of a proposal voted down distributes without touching any option; finalise from any other stage and the second finalise change no option; creating a configuration-update proposal never changes an option, stored or in memory
func SV_C14_config_update() {
	svCurrencyLimit = 1
	pre := &svVotePre{ptype: governance.ProposalTypeConfigUpdate, stages: []int{0, 2, 3, 4, 6}, plainValidators: true}
	cs := svCfgCases[sv.Choice("cfg.update", len(svCfgCases))]
	pre.update = cs.update
	kind := sv.Choice("kind", 2)
	if kind == 1 {
		pre.stages = []int{2} // the other proposal's stage does not matter to a creation
	}
	e := svNewEnv(3, 20, svCfgPre(pre, 2))
	// another option group was updated earlier in this block (its last-update height is the current one)
	if sv.Choice("luh.now", 2) == 1 {
		g := e.app.Context.govern.WithState(e.app.Context.deliver).WithHeight(e.height)
		for _, k := range []string{governance.LAST_UPDATE_HEIGHT_STAKING, governance.LAST_UPDATE_HEIGHT_PROPOSAL, governance.LAST_UPDATE_HEIGHT_ONS,
			governance.LAST_UPDATE_HEIGHT_FEE, governance.LAST_UPDATE_HEIGHT_EVIDENCE} {
			if err := svRewriteGroupAt(e, k); err != nil {
				sv.Unreachable("rewrite option group")
			}
			if err := g.SetLUH(k); err != nil {
				sv.Unreachable("set luh")
			}
		}
	}
	_, st0 := svPropStage(e, svPropID)
	o0 := svOptionsSnapshot(e)
	unchanged := func(o1 []svOptCell, label string) {
		for i, c := range o1 {
			sv.Assert(c.v.Cmp(o0[i].v) == 0, label)
		}
	}
	if kind == 1 {
		// create another configuration-update proposal with this text
		ai, who := svAnyParty("actor", e.n)
		fd := sv.Int64("create.fundingDeadline")
		sv.Assume(fd >= 0 && fd < 1<<40)
		raw := svRaw(action.PROPOSAL_CREATE, &action_gov.CreateProposal{ProposalID: svPropID3, ProposalType: governance.ProposalTypeConfigUpdate,
			Headline: "h", Description: "d", Proposer: who, InitialFunding: action.Amount{Currency: "OLT", Value: *balance.NewAmountFromInt(2000000000)}, FundingDeadline: fd,
			FundingGoal: balance.NewAmountFromInt(10000000000), VotingDeadline: fd + 150000, PassPercentage: 51, ConfigUpdate: cs.update})
		r := e.step(raw, []int{ai}, true)
		o1 := svOptionsSnapshot(e)
		for _, c := range o1 {
			sv.Observe("opt:"+c.name, c.v)
		}
		unchanged(o1, "creating-a-configuration-proposal-changes-no-option")
		if r.resp.Code == 0 {
			sv.Assert(cs.class == 0, "a-configuration-proposal-is-created-only-with-a-valid-update")
			sv.Cover(true, "config-proposal-created")
		} else if cs.class != 0 {
			sv.Cover(true, "config-proposal-refused")
		}
		return
	}
	ai, who := svAnyParty("actor", e.n)
	raw := svRaw(action.PROPOSAL_FINALIZE, &action_gov.FinalizeProposal{ProposalID: svPropID, ValidatorAddress: who})
	r := e.step(raw, []int{ai}, true)
	svBystanderProposalUntouched(e)
	_, st1 := svPropStage(e, svPropID)
	o1 := svOptionsSnapshot(e)
	for _, c := range o1 {
		sv.Observe("opt:"+c.name, c.v)
	}
	tally := svTally(pre, pre.opinions)
	applies := st0 == governance.ProposalStatePassed && tally == governance.VOTE_RESULT_PASSED && cs.class == 0 && r.resp.Code == 0
	if applies {
		sv.Assert(st1 == governance.ProposalStateFinalized, "a-valid-update-of-a-passed-proposal-finalises-it")
		for i, c := range o1 {
			switch c.name {
			case cs.field, "mem." + cs.field:
				sv.Assert(c.v.Cmp(big.NewInt(cs.want)) == 0, "the-named-option-becomes-the-proposed-value")
			default:
				sv.Assert(c.v.Cmp(o0[i].v) == 0, "no-other-option-changes")
			}
		}
		sv.Assert(r.after.get("propFunds:total").Sign() == 0, "finalise-empties-the-escrow")
		sv.Cover(true, "config-applied")
	} else {
		unchanged(o1, "options-change-only-for-a-passed-proposal-with-a-valid-update")
	}
	if st0 == governance.ProposalStatePassed && r.resp.Code == 0 {
		switch cs.class {
		case 0:
			sv.Assert(st1 == governance.ProposalStateFinalized, "a-valid-update-of-a-passed-proposal-finalises-it")
		case 1:
			sv.Assert(st1 == governance.ProposalStateFinalizeFailed, "an-invalid-update-moves-the-proposal-to-finalize-failed")
			sv.Assert(r.after.get("propFunds:total").Cmp(pre.funds) == 0, "a-failed-finalisation-keeps-the-escrow")
			for k, c := range r.after.cells {
				sv.Assert(c.V.Cmp(r.before.cells[k].V) == 0, "a-failed-finalisation-moves-no-funds")
			}
			sv.Cover(true, "config-invalid")
		}
	}
	if st0 == governance.ProposalStatePassed && cs.class >= 2 {
		sv.Assert(r.resp.Code != 0 && st1 == governance.ProposalStatePassed, "an-unknown-or-malformed-update-is-refused")
		sv.Cover(true, "config-unknown-key")
	}
	if st0 == governance.ProposalStateFailed && r.resp.Code == 0 {
		sv.Assert(st1 == governance.ProposalStateFinalized, "a-proposal-voted-down-is-finalised-without-an-update")
		sv.Cover(true, "config-voted-down")
	}
	if st0 != governance.ProposalStatePassed && st0 != governance.ProposalStateFailed {
		sv.Assert(st1 == st0, "finalise-does-not-move-a-proposal-of-another-stage")
	}
	// conservation whatever happened
	credited := new(big.Int)
	for k, c := range r.after.cells {
		if c.Name == "propFunds:total" {
			continue
		}
		d := new(big.Int).Sub(c.V, r.before.cells[k].V)
		sv.Assert(d.Sign() >= 0, "finalise-debits-nobody")
		credited.Add(credited, d)
	}
	spent := new(big.Int).Sub(r.before.get("propFunds:total"), r.after.get("propFunds:total"))
	sv.Assert(credited.Cmp(spent) <= 0, "distribution-never-exceeds-what-left-the-escrow")
	// the second finalise changes nothing
	l1 := e.ledger()
	resp2 := svDeliver(e.app, svSign(raw, ai))
	sv.Observe("code2", resp2.Code)
	l2 := e.ledger()
	_, st2 := svPropStage(e, svPropID)
	o2 := svOptionsSnapshot(e)
	if st1 != governance.ProposalStatePassed {
		sv.Assert(st2 == st1, "second-finalise-does-not-move-the-proposal")
		for i, c := range o2 {
			sv.Assert(c.v.Cmp(o1[i].v) == 0, "a-configuration-change-is-applied-once")
		}
		for k, c := range l2.cells {
			sv.Assert(c.V.Cmp(l1.cells[k].V) == 0, "funds-are-distributed-once")
		}
	}
}

// svRewriteGroupAt stores the current value of one option group under the
// current block height (what an update of that group finalised earlier in this
// block does before it moves the last-update height).
func svRewriteGroupAt(e *svEnv, group string) error {
	ctx := &e.app.Context
	rd := ctx.govern.WithState(ctx.deliver)
	switch group {
	case governance.LAST_UPDATE_HEIGHT_STAKING:
		o, err := rd.GetStakingOptions()
		if err != nil {
			return err
		}
		return rd.WithHeight(e.height).SetStakingOptions(*o)
	case governance.LAST_UPDATE_HEIGHT_PROPOSAL:
		o, err := rd.GetProposalOptions()
		if err != nil {
			return err
		}
		return rd.WithHeight(e.height).SetProposalOptions(*o)
	case governance.LAST_UPDATE_HEIGHT_ONS:
		o, err := rd.GetONSOptions()
		if err != nil {
			return err
		}
		return rd.WithHeight(e.height).SetONSOptions(*o)
	case governance.LAST_UPDATE_HEIGHT_FEE:
		o, err := rd.GetFeeOption()
		if err != nil {
			return err
		}
		return rd.WithHeight(e.height).SetFeeOption(*o)
	case governance.LAST_UPDATE_HEIGHT_EVIDENCE:
		o, err := rd.GetEvidenceOptions()
		if err != nil {
			return err
		}
		return rd.WithHeight(e.height).SetEvidenceOptions(*o)
	}
	return nil
}
