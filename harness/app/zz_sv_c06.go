package app

// C06 — failed transactions are atomic no-ops; C18 — no crash. Both regimes
// (admitted by Validate, and delivered directly in a block without it).

import (
	"bytes"

	"github.com/Oneledger/protocol/action"
	sv "github.com/Oneledger/protocol/zz_sv"
)

type svKV struct{ k, v []byte }

// svBlockWrites lists the block-level write cache of the deliver state (what
// Commit would replay into the tree), in first-write order.
func svBlockWrites(app *App) []svKV {
	var out []svKV
	app.Context.deliver.GetGasStore().GetIterable().Iterate(func(k, v []byte) bool {
		out = append(out, svKV{k, v})
		return false
	})
	return out
}

func svSameWrites(a, b []svKV) bool {
	if len(a) != len(b) {
		return false
	}
	for i := range a {
		if !bytes.Equal(a[i].k, b[i].k) || !bytes.Equal(a[i].v, b[i].v) {
			return false
		}
	}
	return true
}

// svExtraCurrencies widens the currency alphabet of the domain-name family by
// that many names (C18 sets 1: OLT, unregistered, and the registered ETH).
var svExtraCurrencies = 0

// svAnyKind builds a transaction of one of the encoded kinds (family choice).
func svAnyKindEnv() (*svEnv, action.RawTx, []int) {
	switch sv.Choice("family", 4) {
	case 3:
		svCurrencyLimit = 2 + svExtraCurrencies // C18: also a registered foreign currency (ETH)
		pre := &svDomainPre{}
		e := svNewEnv(2, 20, svPreONS(pre))
		raw, s := svBuildONS(e, sv.Choice("kind", 7))
		return e, raw, s
	case 0:
		e := svNewEnv(2, 20, nil)
		if sv.Choice("kind", 2) == 0 {
			return e, svBuildSend(e), []int{0}
		}
		return e, svBuildSendPool(e), []int{0}
	case 1:
		e := svNewEnv(3, 20, svPreStaking)
		switch sv.Choice("kind", 3) {
		case 0:
			raw, s := svBuildStake(e)
			return e, raw, s
		case 1:
			raw, s := svBuildUnstake(e)
			return e, raw, s
		}
		raw, s := svBuildStakeWithdraw(e)
		return e, raw, s
	}
	e := svNewEnv(2, 20, svPreDeleg)
	raw, s := svBuildAnyDeleg(e)
	return e, raw, s
}

// SV_C06_failed_tx_noop: a delivered transaction with a non-zero code leaves
// the block write cache and every ledger cell exactly as before.
//
// sv:bounds every encoded kind (SEND, SENDPOOL, STAKE, UNSTAKE, WITHDRAW, 4 delegation kinds, 7 domain-name kinds) with havoc payload, fee and roles from an arbitrary funded state; both regimes: admitted by Validate, or delivered directly (regime choice); one transaction
// sv:outside kinds not yet encoded; OLVM transactions (EVM object cache); in-memory fields of the stores (only the state writes and the ledger are compared); removal of the failed transaction from a multi-transaction block
// sv:goal Code != 0 implies the block-level write cache (keys, order, values) and all ledger cells are unchanged
func SV_C06_failed_tx_noop() {
	e, raw, signers := svAnyKindEnv()
	admitted := sv.Choice("regime", 2) == 0
	tx := svSign(raw, signers...)
	if admitted {
		sv.Assume(e.validate(tx))
	}
	w0 := svBlockWrites(e.app)
	l0 := e.ledger()
	resp := svDeliver(e.app, tx)
	if resp.Code != 0 {
		sv.Assert(svSameWrites(w0, svBlockWrites(e.app)), "failed-tx-leaves-no-write")
		l1 := e.ledger()
		for k, c := range l1.cells {
			sv.Assert(c.V.Cmp(l0.cells[k].V) == 0, "failed-tx-changes-no-record")
		}
		sv.Cover(true, "delivered-fail")
	}
	sv.Cover(resp.Code == 0, "delivered-ok")
	sv.Observe("code", resp.Code)
}

// SV_C18_no_crash_admitted: a transaction admitted by Validate never makes
// CheckTx processing or DeliverTx panic, exit or close the application.
//
// sv:bounds every encoded kind with havoc payload (any integer amount, any currency name incl. unregistered and empty, any role assignment), fee and gas, from an arbitrary funded state; the real Validate accepted it; then the real txDeliverer runs
// sv:outside kinds not yet encoded; byte strings that are not a well-formed SignedTx envelope; resource exhaustion
// sv:goal no path ends in a panic, os.Exit (logger.Fatal) or application close
func SV_C18_no_crash_admitted() {
	sv.CrashIsViolation("admitted-tx-crashes-node")
	svExtraCurrencies = 1
	e, raw, signers := svAnyKindEnv()
	tx := svSign(raw, signers...)
	sv.Assume(e.validate(tx))
	resp := svDeliver(e.app, tx)
	sv.Cover(resp.Code == 0, "delivered-ok")
	sv.Cover(resp.Code != 0, "delivered-fail")
}

// SV_C18_no_crash_unvalidated: the same transaction delivered directly in a
// block (DeliverTx does not call Validate: a proposer can include anything).
//
// sv:bounds as SV_C18_no_crash_admitted without the Validate assumption; additionally 0 signatures
// sv:outside as SV_C18_no_crash_admitted
// sv:goal no path ends in a panic, os.Exit (logger.Fatal) or application close
func SV_C18_no_crash_unvalidated() {
	sv.CrashIsViolation("delivered-tx-crashes-node")
	svExtraCurrencies = 1
	e, raw, signers := svAnyKindEnv()
	if sv.Choice("nosig", 2) == 1 {
		signers = nil
	}
	tx := svSign(raw, signers...)
	resp := svDeliver(e.app, tx)
	sv.Cover(resp.Code == 0, "delivered-ok")
	sv.Cover(resp.Code != 0, "delivered-fail")
}
