package app

// Staking kinds (STAKE, UNSTAKE, WITHDRAW) for the generic step driver.

import (
	"fmt"
	"math/big"

	"github.com/Oneledger/protocol/action"
	"github.com/Oneledger/protocol/action/staking"
	"github.com/Oneledger/protocol/data/balance"
	"github.com/Oneledger/protocol/data/delegation"
	"github.com/Oneledger/protocol/identity"
	sv "github.com/Oneledger/protocol/zz_sv"
)

var svWei = new(big.Int).Exp(big.NewInt(10), big.NewInt(18), nil)

// svStakeHeights: heights at which a maturing record can exist at block `now`
// (unstake at h' <= now creates the record h' + MaturityTime; options: 10).
func svStakeHeights(now int64) []int64 { return []int64{now, now + 10} }

// svPreStaking: party 1 is a validator (present or not) whose stake address is
// party 0; delegators party 0 and party 2 have arbitrary locked, withdrawable
// and maturing amounts (whole OLT) consistent with the store invariant.
func svPreStaking(e *svEnv) {
	ctx := &e.app.Context
	ds := ctx.delegators.WithState(ctx.deliver)
	vs := ctx.validators.WithState(ctx.deliver)
	val := svParty_(1)
	total := new(big.Int)
	for _, d := range []int{0, 2} {
		if d >= e.n {
			continue
		}
		E := svNonNeg("st.E" + svPartyName(d))
		total.Add(total, E)
		ds.SetValidatorDelegationAmount(val.Addr, svParty_(d).Addr, *balance.NewAmountFromBigInt(E))
		ds.SetDelegatorEffectiveAmount(svParty_(d).Addr, *balance.NewAmountFromBigInt(E))
		ds.SetDelegatorBoundedAmount(svParty_(d).Addr, *balance.NewAmountFromBigInt(svNonNeg("st.B" + svPartyName(d))))
	}
	ds.SetValidatorAmount(val.Addr, *balance.NewAmountFromBigInt(total))
	for _, h := range svStakeHeights(e.height) {
		mb := &delegation.MatureBlock{Height: h}
		for _, d := range []int{0, 2} {
			if d >= e.n {
				continue
			}
			m := svNonNeg(fmt.Sprint("st.M", h, svPartyName(d)))
			mb.Data = append(mb.Data, &delegation.MatureData{Address: svParty_(d).Addr, Amount: *balance.NewAmountFromBigInt(m), Height: h})
		}
		ds.SetMatureAmounts(h, mb)
	}
	if sv.Choice("validatorExists", 2) == 0 {
		v := identity.NewValidator(val.Addr, svParty_(0).Addr, val.Pub, val.Pub, *balance.NewAmountFromBigInt(total), "node")
		if err := vs.Set(*v); err != nil {
			sv.Unreachable("validator setup")
		}
	}
	e.extra = append(e.extra, func(l *svLedger) {
		ds := ctx.delegators.WithState(ctx.deliver)
		for _, d := range []int{0, 2} {
			if d >= e.n {
				continue
			}
			name := svPartyName(d)
			a, _ := ds.GetValidatorDelegationAmount(val.Addr, svParty_(d).Addr)
			l.add("st:E:"+name, name, "OLT", new(big.Int).Mul(a.BigInt(), svWei))
			b, _ := ds.GetDelegatorBoundedAmount(svParty_(d).Addr)
			l.add("st:B:"+name, name, "OLT", new(big.Int).Mul(b.BigInt(), svWei))
		}
		hs := append(svStakeHeights(e.height), e.height+1, e.height+11)
		for _, h := range hs {
			mb, _ := ds.GetMatureAmounts(h)
			for _, d := range []int{0, 2} {
				if d >= e.n {
					continue
				}
				t := new(big.Int)
				for _, m := range mb.Data {
					if m.Address.Equal(svParty_(d).Addr) {
						t.Add(t, m.Amount.BigInt())
					}
				}
				l.add(fmt.Sprint("st:M:", h, ":", svPartyName(d)), svPartyName(d), "OLT", new(big.Int).Mul(t, svWei))
			}
		}
	})
}

// the payload names any parties; the two required signatures come from the
// parties it names (otherwise Validate rejects, which C04 examines)
func svBuildStake(e *svEnv) (action.RawTx, []int) {
	si, stakeAddr := svAnyParty("stakeAddress", e.n)
	vi, valAddr := svAnyParty("validatorAddress", e.n)
	msg := &staking.Stake{ValidatorAddress: valAddr, StakeAddress: stakeAddr, ValidatorPubKey: svParty_(vi).Pub,
		ValidatorECDSAPubKey: svParty_(vi).Pub, NodeName: "node", Stake: svAnyAmount("amount")}
	return svRaw(action.STAKE, msg), []int{si, vi}
}

func svBuildUnstake(e *svEnv) (action.RawTx, []int) {
	si, stakeAddr := svAnyParty("stakeAddress", e.n)
	vi, valAddr := svAnyParty("validatorAddress", e.n)
	msg := &staking.Unstake{ValidatorAddress: valAddr, StakeAddress: stakeAddr, Stake: svAnyAmount("amount")}
	return svRaw(action.UNSTAKE, msg), []int{si, vi}
}

func svBuildStakeWithdraw(e *svEnv) (action.RawTx, []int) {
	si, stakeAddr := svAnyParty("stakeAddress", e.n)
	vi, valAddr := svAnyParty("validatorAddress", e.n)
	msg := &staking.Withdraw{ValidatorAddress: valAddr, StakeAddress: stakeAddr, Stake: svAnyAmount("amount")}
	return svRaw(action.WITHDRAW, msg), []int{si, vi}
}

func svStakeValidator(raw action.RawTx) []byte {
	m := &staking.Stake{}
	m.Unmarshal(raw.Data)
	return m.ValidatorAddress
}

func svUnstakeValidator(raw action.RawTx) []byte {
	m := &staking.Unstake{}
	m.Unmarshal(raw.Data)
	return m.ValidatorAddress
}

func svWithdrawValidator(raw action.RawTx) []byte {
	m := &staking.Withdraw{}
	m.Unmarshal(raw.Data)
	return m.ValidatorAddress
}
