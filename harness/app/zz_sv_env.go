package app

// Harness environment for package app: an App / context built without a
// Tendermint node, wallet, RPC server or job store (none of which may
// influence consensus results), on the real stores over one chain state, with
// a genesis-like set of options. Mirrors newContext() and setupState().

import (
	"os"

	abci "github.com/tendermint/tendermint/abci/types"
	tmtypes "github.com/tendermint/tendermint/types"
	tmdb "github.com/tendermint/tm-db"

	"github.com/Oneledger/protocol/action"
	"github.com/Oneledger/protocol/action/eth"
	action_pen "github.com/Oneledger/protocol/action/evidence"
	action_gov "github.com/Oneledger/protocol/action/governance"
	action_netwkdeleg "github.com/Oneledger/protocol/action/network_delegation"
	action_olvm "github.com/Oneledger/protocol/action/olvm"
	action_ons "github.com/Oneledger/protocol/action/ons"
	action_rewards "github.com/Oneledger/protocol/action/rewards"
	"github.com/Oneledger/protocol/action/staking"
	"github.com/Oneledger/protocol/action/transfer"
	ethchain "github.com/Oneledger/protocol/chains/ethereum"
	"github.com/Oneledger/protocol/config"
	"github.com/Oneledger/protocol/consensus"
	"github.com/Oneledger/protocol/data"
	"github.com/Oneledger/protocol/data/balance"
	"github.com/Oneledger/protocol/data/bitcoin"
	"github.com/Oneledger/protocol/data/chain"
	"github.com/Oneledger/protocol/data/delegation"
	"github.com/Oneledger/protocol/data/ethereum"
	"github.com/Oneledger/protocol/data/evidence"
	"github.com/Oneledger/protocol/data/evm"
	"github.com/Oneledger/protocol/data/fees"
	"github.com/Oneledger/protocol/data/governance"
	"github.com/Oneledger/protocol/data/keys"
	netwkDeleg "github.com/Oneledger/protocol/data/network_delegation"
	"github.com/Oneledger/protocol/data/ons"
	"github.com/Oneledger/protocol/data/rewards"
	"github.com/Oneledger/protocol/data/transactions"
	"github.com/Oneledger/protocol/external_apps"
	"github.com/Oneledger/protocol/external_apps/common"
	"github.com/Oneledger/protocol/identity"
	"github.com/Oneledger/protocol/log"
	"github.com/Oneledger/protocol/storage"
	"github.com/Oneledger/protocol/vm"
	sv "github.com/Oneledger/protocol/zz_sv"
)

var svOLT = balance.Currency{Id: 0, Name: "OLT", Chain: chain.ONELEDGER, Decimal: 18, Unit: "nue"}
var svETH = balance.Currency{Id: 3, Name: "ETH", Chain: chain.ETHEREUM, Decimal: 18, Unit: "wei"}

// svAddr returns the i-th member of the address universe (20 bytes).
func svAddr(i int) keys.Address {
	a := make([]byte, 20)
	for k := range a {
		a[k] = byte(0xA0 + i)
	}
	return a
}

// svNewApp builds an App on a fresh in-memory database.
func svNewApp() *App {
	return svOpenApp(tmdb.NewMemDB())
}

// svOpenApp builds an App over an existing database (restart).
func svOpenApp(db tmdb.DB) *App {
	w := os.Stdout
	cfg := config.Server{Node: &config.NodeConfig{}}
	app := &App{
		name:   "OneLedger",
		logger: log.NewLoggerWithPrefix(w, "app"),
	}
	// MaxGas -1 (no block gas limit) is what Tendermint's default consensus params carry
	app.genesisDoc = &config.GenesisDoc{ForkParams: &config.ForkParams{},
		ConsensusParams: &tmtypes.ConsensusParams{Block: tmtypes.BlockParams{MaxBytes: 22020096, MaxGas: -1}}}
	ctx := context{cfg: cfg, logWriter: w, currencies: balance.NewCurrencySet()}
	ctx.db = db
	ctx.chainstate = storage.NewChainState("chainstate", db)
	ctx.chainstate.SetupRotation(config.ChainStateRotationCfg{Recent: 10})
	ctx.deliver = storage.NewState(ctx.chainstate)
	ctx.check = storage.NewState(ctx.chainstate)

	ctx.validators = identity.NewValidatorStore("v", "purged", storage.NewState(ctx.chainstate))
	ctx.witnesses = identity.NewWitnessStore("w", storage.NewState(ctx.chainstate))
	ctx.balances = balance.NewStore("b", storage.NewState(ctx.chainstate))
	ctx.domains = ons.NewDomainStore("d", storage.NewState(ctx.chainstate))
	ctx.feePool = fees.NewStore("f", storage.NewState(ctx.chainstate))
	ctx.govern = governance.NewStore("g", storage.NewState(ctx.chainstate))
	ctx.proposalMaster = NewProposalMasterStore(ctx.chainstate)
	ctx.delegators = delegation.NewDelegationStore("st", storage.NewState(ctx.chainstate))
	ctx.netwkDelegators = netwkDeleg.NewMasterStore("deleg", "delegRwz", storage.NewState(ctx.chainstate))
	ctx.evidenceStore = evidence.NewEvidenceStore("es", storage.NewState(ctx.chainstate))
	ctx.rewardMaster = NewRewardMasterStore(ctx.chainstate)
	ctx.btcTrackers = bitcoin.NewTrackerStore("btct", storage.NewState(ctx.chainstate))
	newDB := tmdb.NewDB("internaltxdb", tmdb.MemDBBackend, "")
	cs := storage.NewState(storage.NewChainState("chainstateTX", newDB))
	ctx.transaction = transactions.NewTransactionStore("intx", cs)
	ctx.ethTrackers = ethereum.NewTrackerStore("etht", "ethfailed", "ethsuccess", storage.NewState(ctx.chainstate))

	ctx.actionRouter = action.NewRouter("action")
	ctx.internalRouter = action.NewRouter("internal")
	ctx.extStores = data.NewStorageRouter()
	ctx.extServiceMap = common.NewExtServiceMap()
	ctx.extFunctions = common.NewFunctionRouter()

	ctx.contracts = evm.NewContractStore(storage.NewState(ctx.chainstate))
	ctx.accountKeeper = balance.NewNesterAccountKeeper(storage.NewState(ctx.chainstate), ctx.balances, ctx.currencies)
	ctx.stateDB = vm.NewCommitStateDB(ctx.contracts, ctx.accountKeeper, log.NewLoggerWithPrefix(w, "stateDB"))

	_ = external_apps.RegisterExtApp(ctx.chainstate, ctx.actionRouter, ctx.extStores, ctx.extServiceMap, ctx.extFunctions)
	ctx.govupdate = action.NewGovUpdate()

	_ = transfer.EnableSend(ctx.actionRouter)
	_ = action_olvm.EnableOLVM(ctx.actionRouter)
	_ = action_ons.EnableONS(ctx.actionRouter)
	_ = eth.EnableETH(ctx.actionRouter)
	_ = eth.EnableInternalETH(ctx.internalRouter)
	_ = action_rewards.EnableRewards(ctx.actionRouter)
	_ = action_netwkdeleg.EnableNetworkDelegation(ctx.actionRouter)
	_ = action_gov.EnableGovernance(ctx.actionRouter)
	_ = action_gov.EnableInternalGovernance(ctx.internalRouter)
	_ = staking.EnableStaking(ctx.actionRouter)
	_ = action_pen.EnablePenalization(ctx.actionRouter)

	app.Context = ctx
	app.setNewABCI()
	return app
}

func svAmt(s string) balance.Amount {
	a, _ := balance.NewAmountFromString(s, 10)
	return *a
}

// svDefaultState is a genesis-like application state (options as in the
// repository's devnet initialiser).
func svDefaultState() consensus.AppState {
	dist := func(v, f, b, e, bo, p float64) governance.ProposalFundDistribution {
		return governance.ProposalFundDistribution{Validators: v, FeePool: f, Burn: b, ExecutionCost: e, BountyPool: bo, ProposerReward: p}
	}
	popt := func(exec string) governance.ProposalOption {
		return governance.ProposalOption{
			InitialFunding: balance.NewAmountFromInt(1000000000), FundingGoal: balance.NewAmountFromInt(10000000000),
			FundingDeadline: 75001, VotingDeadline: 150000, PassPercentage: 51,
			PassedFundDistribution: dist(18, 18, 18, 18, 10, 18), FailedFundDistribution: dist(10, 10, 10, 20, 50, 0),
			ProposalExecutionCost: exec,
		}
	}
	st := consensus.AppState{}
	st.Currencies = balance.Currencies{svOLT, svETH}
	st.Governance = governance.GovernanceState{
		FeeOption:   fees.FeeOption{FeeCurrency: svOLT, MinFeeDecimal: 9},
		ETHCDOption: ethchain.ChainDriverOption{},
		ONSOptions: ons.Options{Currency: "OLT", PerBlockFees: svAmt("100000000000000"), FirstLevelDomains: []string{"ol"},
			BaseDomainPrice: svAmt("1000000000000000000000")},
		PropOptions: governance.ProposalOptionSet{ConfigUpdate: popt("executionCostConfig"), CodeChange: popt("executionCostCodeChange"),
			General: popt("executionCostGeneral"), BountyProgramAddr: "oneledgerBountyProgram"},
		StakingOptions: delegation.Options{MinSelfDelegationAmount: *balance.NewAmount(3000000), MinDelegationAmount: *balance.NewAmount(1),
			TopValidatorCount: 4, MaturityTime: 10},
		DelegOptions: netwkDeleg.Options{RewardsMaturityTime: 4},
		EvidenceOptions: evidence.Options{MinVotesRequired: 2, BlockVotesDiff: 4, PenaltyBasePercentage: 30, PenaltyBaseDecimals: 100,
			PenaltyBountyPercentage: 50, PenaltyBountyDecimals: 100, PenaltyBurnPercentage: 50, PenaltyBurnDecimals: 100,
			ValidatorReleaseTime: 0, ValidatorVotePercentage: 50, ValidatorVoteDecimals: 100, AllegationPercentage: 50, AllegationDecimals: 100},
		RewardOptions: rewards.Options{RewardInterval: 150, RewardPoolAddress: "rewardpool", RewardCurrency: "OLT",
			EstimatedSecondsPerCycle: 1728, BlockSpeedCalculateCycle: 100, YearCloseWindow: 3600 * 24,
			YearBlockRewardShares: []balance.Amount{svAmt("70000000000000000000000000"), svAmt("70000000000000000000000000")},
			BurnoutRate:           svAmt("5000000000000000000")},
	}
	return st
}

// svGenesis applies a genesis-like state the way setupState() does (options,
// currencies, in-memory option copies) without the JSON document and without
// validators, then commits it as version 1.
func svGenesis(app *App, initial consensus.AppState) {
	ctx := &app.Context
	g := ctx.govern.WithState(ctx.deliver).WithHeight(0)
	must := func(err error) {
		if err != nil {
			panic("svGenesis: " + err.Error())
		}
	}
	must(g.SetStakingOptions(initial.Governance.StakingOptions))
	must(g.SetEvidenceOptions(initial.Governance.EvidenceOptions))
	must(g.SetCurrencies(initial.Currencies))
	must(g.SetProposalOptions(initial.Governance.PropOptions))
	ctx.proposalMaster.Proposal.SetOptions(&initial.Governance.PropOptions)
	must(g.SetETHChainDriverOption(initial.Governance.ETHCDOption))
	ctx.ethTrackers.SetupOption(&initial.Governance.ETHCDOption)
	must(g.SetBTCChainDriverOption(initial.Governance.BTCCDOption))
	must(g.SetONSOptions(initial.Governance.ONSOptions))
	ctx.domains.SetOptions(&initial.Governance.ONSOptions)
	must(g.SetRewardOptions(initial.Governance.RewardOptions))
	ctx.rewardMaster.SetOptions(&initial.Governance.RewardOptions)
	for _, c := range initial.Currencies {
		must(ctx.currencies.Register(c))
	}
	must(g.SetFeeOption(initial.Governance.FeeOption))
	ctx.feePool.SetupOpt(&initial.Governance.FeeOption)
	must(g.SetNetworkDelegOptions(initial.Governance.DelegOptions))
	must(g.SetAllLUH())
	g.Initiated()
	svAimAll(app, ctx.deliver)
}

// svAimAll points every store at the given state (what Action() does).
func svAimAll(app *App, st *storage.State) {
	app.Context.Action(&app.header, st)
	app.Context.contracts.WithState(st)
}

// svCommitBlock writes the deliver state and saves a new version (Commit()).
func svCommitBlock(app *App) []byte {
	return app.commitor()().Data
}

// svGasCalc replaces the byte-length based store gas accounting by an
// environment choice: the store gas consumed by one transaction is an
// arbitrary number 0 <= used < 2^40 (sizes of serialised records are not
// modelled; every real consumption is some such number). The first reading is
// the start mark (0), later readings are the total.
type svGasCalc struct {
	reads int
	used  storage.Gas
}

func (g *svGasCalc) Consume(amount, category storage.Gas, allowOverflow bool) bool { return true }
func (g *svGasCalc) GetLimit() storage.Gas                                        { return storage.Gas(1) << 62 }
func (g *svGasCalc) IsEnough() bool                                               { return false }
func (g *svGasCalc) GetLeft() uint64                                              { return 1 << 62 }
func (g *svGasCalc) GetConsumed() storage.Gas {
	g.reads++
	if g.reads == 1 {
		return 0
	}
	return g.used
}

// svFreshDeliver gives the deliver state BeginBlock would create (with the
// environment gas calculator above).
func svFreshDeliver(app *App) {
	used := sv.Int64("gas.used")
	sv.Assume(used >= 0 && used < 1<<40)
	app.Context.deliver = storage.NewState(app.Context.chainstate).WithGas(&svGasCalc{used: storage.Gas(used)})
}

func svHeader(h int64) abci.Header { return abci.Header{Height: h, ChainID: "sv"} }

func svCoin(a *balance.Amount) balance.Coin { return svOLT.NewCoinFromAmount(*a) }
