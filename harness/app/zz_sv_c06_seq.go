package app

// C06 — a refused transaction followed by another one of its family: the
// refused one must leave nothing behind, neither in the stores nor in the
// memory of the store objects every transaction of the block shares.

import (
	"fmt"

	"github.com/Oneledger/protocol/action"
	action_gov "github.com/Oneledger/protocol/action/governance"
	action_nd "github.com/Oneledger/protocol/action/network_delegation"
	"github.com/Oneledger/protocol/data/balance"
	netwkDeleg "github.com/Oneledger/protocol/data/network_delegation"
	sv "github.com/Oneledger/protocol/zz_sv"
)

// svPreDelegFree: like svPreDeleg for one party, but the delegation pool's
// balance is arbitrary (a genesis or migrated state whose pool does not cover
// the listed delegations makes the last step of an undelegation fail).
func svPreDelegFree(e *svEnv) {
	ctx := &e.app.Context
	ds := ctx.netwkDelegators.Deleg.WithState(ctx.deliver)
	rs := ctx.netwkDelegators.Rewards.WithState(ctx.deliver)
	for i := 0; i < e.n; i++ {
		p := svParty_(i)
		c := svCoin(balance.NewAmountFromBigInt(svNonNeg("deleg.active" + svPartyName(i))))
		ds.WithPrefix(netwkDeleg.ActiveType).Set(p.Addr, &c)
		pc := svCoin(balance.NewAmountFromBigInt(svNonNeg("deleg.pend" + svPartyName(i))))
		ds.SetPendingAmount(p.Addr, e.height+4, &pc)
		rs.AddRewardsBalance(p.Addr, balance.NewAmountFromBigInt(svNonNeg("deleg.rw"+svPartyName(i))))
	}
	e.extra = append(e.extra, func(l *svLedger) {
		ds := ctx.netwkDelegators.Deleg.WithState(ctx.deliver)
		for i := 0; i < e.n; i++ {
			p := svParty_(i)
			name := svPartyName(i)
			c, _ := ds.WithPrefix(netwkDeleg.ActiveType).Get(p.Addr)
			l.addMirror("deleg:a:"+name, name, "OLT", c.Amount.BigInt())
			for _, h := range []int64{e.height + 4, e.height + 5} {
				pc, _ := ds.GetPendingAmount(p.Addr, h)
				l.add(fmt.Sprint("deleg:p:", h, ":", name), name, "OLT", pc.Amount.BigInt())
			}
			rb, _ := ctx.netwkDelegators.Rewards.WithState(ctx.deliver).GetRewardsBalance(p.Addr)
			l.add("delegRwz:b:"+name, name, "OLT", rb.BigInt())
		}
	})
}

// SV_C06_failed_delegation_then_next: block [refused, next] against block [next].
//
// sv:bounds one delegator A with arbitrary balance, active delegation, pending undelegation and reward balance; the delegation pool's balance arbitrary (it need not cover the active delegations); the refused transaction: undelegate, reward withdrawal or reinvestment of A with an arbitrary amount, admitted by Validate and refused at delivery; the next transaction: delegate or reinvest of A with another arbitrary amount
// sv:outside other families in sequence (SV_C06_failed_olvm_leaves_no_trace for OLVM); more than one refused transaction; other delegators
// sv:goal the next transaction has the same code and gas, and the block ends with the same ledger and the same block writes (keys, order, values) as the block without the refused transaction
func SV_C06_failed_delegation_then_next() {
	svCurrencyLimit = 1
	sv.NominalSizes(64)
	build := func() *svEnv { return svNewEnv(1, 20, svPreDelegFree) }
	a := svParty_(0).Addr
	amt := func(tag string) action.Amount {
		return action.Amount{Currency: "OLT", Value: *balance.NewAmountFromBigInt(sv.BigInt(tag + ".value"))}
	}
	var raw1 action.RawTx
	switch sv.Choice("refused.kind", 3) {
	case 0:
		raw1 = svRaw(action.NETWORK_UNDELEGATE, &action_nd.Undelegate{Delegator: a, Amount: amt("amount1")})
	case 1:
		raw1 = svRaw(action.REWARDS_WITHDRAW_NETWORK_DELEGATE, &action_nd.Withdraw{Delegator: a, Amount: amt("amount1")})
	default:
		raw1 = svRaw(action.REWARDS_REINVEST_NETWORK_DELEGATE, &action_nd.Reinvest{Delegator: a, Amount: amt("amount1")})
	}
	var raw2 action.RawTx
	if sv.Choice("next.kind", 2) == 0 {
		raw2 = svRaw(action.ADD_NETWORK_DELEGATE, &action_nd.AddNetworkDelegation{DelegationAddress: a, Amount: amt("amount2")})
	} else {
		raw2 = svRaw(action.REWARDS_REINVEST_NETWORK_DELEGATE, &action_nd.Reinvest{Delegator: a, Amount: amt("amount2")})
	}
	raw2.Memo = "next"
	tx1, tx2 := svSign(raw1, 0), svSign(raw2, 0)
	e1, e2 := build(), build()
	sv.Assume(e1.validate(tx1))
	sv.Assume(e1.validate(tx2))
	// the environment gas calculator counts per transaction (the real one is a running
	// total of which each transaction is charged its own difference)
	fresh := func(e *svEnv) { e.app.Context.deliver = e.app.Context.deliver.WithGas(svEnvGas()) }
	fresh(e1)
	r1 := svDeliver(e1.app, tx1)
	sv.Assume(r1.Code != 0)
	fresh(e1)
	r2 := svDeliver(e1.app, tx2)
	fresh(e2)
	q2 := svDeliver(e2.app, tx2)
	sv.Observe("code2", r2.Code)
	sv.Assert(q2.Code == r2.Code && q2.GasUsed == r2.GasUsed, "same-result-without-the-refused-transaction")
	l1, l2 := e1.ledger(), e2.ledger()
	for k, c := range l1.cells {
		sv.Assert(c.V.Cmp(l2.cells[k].V) == 0, "same-ledger-without-the-refused-transaction")
	}
	sv.Assert(svSameWrites(svBlockWrites(e1.app), svBlockWrites(e2.app)), "same-block-writes-without-the-refused-transaction")
	sv.Cover(r2.Code == 0, "next-executed")
	sv.Cover(raw1.Type == action.NETWORK_UNDELEGATE && r2.Code == 0, "refused-undelegation-then-executed")
}

// SV_C06_failed_governance_then_next: block [refused, next] against block [next]
// for the proposal funding family.
//
// sv:bounds the proposal pre-state of SV_C14_funds_and_stage for 2 parties (absent, funding, voting, cancelled, under-funded, expired, voted down, passed, finalised; arbitrary goal, deadline and contributions; A elected, B staked but not elected); the refused transaction: fund, withdraw-funds or cancel by A with an arbitrary amount, admitted by Validate and refused at delivery; the next transaction: fund or withdraw-funds by B with another arbitrary amount
// sv:outside create / vote / finalise in the sequence; more than one refused transaction
// sv:goal the next transaction has the same code and gas, and the block ends with the same ledger, the same proposal stage and the same block writes as the block without the refused transaction
func SV_C06_failed_governance_then_next() {
	svCurrencyLimit = 1
	sv.NominalSizes(64)
	build := func() *svEnv { return svNewEnv(2, 20, svPreGov(&svPropPre{})) }
	a, b := svParty_(0).Addr, svParty_(1).Addr
	amt := func(tag string) action.Amount {
		return action.Amount{Currency: "OLT", Value: *balance.NewAmountFromBigInt(sv.BigInt(tag + ".value"))}
	}
	var raw1 action.RawTx
	switch sv.Choice("refused.kind", 3) {
	case 0:
		raw1 = svRaw(action.PROPOSAL_FUND, &action_gov.FundProposal{ProposalId: svPropID, FunderAddress: a, FundValue: amt("amount1")})
	case 1:
		raw1 = svRaw(action.PROPOSAL_WITHDRAW_FUNDS, &action_gov.WithdrawFunds{ProposalID: svPropID, Funder: a, WithdrawValue: amt("amount1"), Beneficiary: a})
	default:
		raw1 = svRaw(action.PROPOSAL_CANCEL, &action_gov.CancelProposal{ProposalId: svPropID, Proposer: a, Reason: "r"})
	}
	var raw2 action.RawTx
	if sv.Choice("next.kind", 2) == 0 {
		raw2 = svRaw(action.PROPOSAL_FUND, &action_gov.FundProposal{ProposalId: svPropID, FunderAddress: b, FundValue: amt("amount2")})
	} else {
		raw2 = svRaw(action.PROPOSAL_WITHDRAW_FUNDS, &action_gov.WithdrawFunds{ProposalID: svPropID, Funder: b, WithdrawValue: amt("amount2"), Beneficiary: b})
	}
	raw2.Memo = "next"
	tx1, tx2 := svSign(raw1, 0), svSign(raw2, 1)
	e1, e2 := build(), build()
	sv.Assume(e1.validate(tx1))
	sv.Assume(e1.validate(tx2))
	fresh := func(e *svEnv) { e.app.Context.deliver = e.app.Context.deliver.WithGas(svEnvGas()) }
	fresh(e1)
	r1 := svDeliver(e1.app, tx1)
	sv.Assume(r1.Code != 0)
	fresh(e1)
	r2 := svDeliver(e1.app, tx2)
	fresh(e2)
	q2 := svDeliver(e2.app, tx2)
	sv.Observe("code2", r2.Code)
	sv.Assert(q2.Code == r2.Code && q2.GasUsed == r2.GasUsed, "same-result-without-the-refused-transaction")
	l1, l2 := e1.ledger(), e2.ledger()
	for k, c := range l1.cells {
		sv.Assert(c.V.Cmp(l2.cells[k].V) == 0, "same-ledger-without-the-refused-transaction")
	}
	p1, s1 := svPropStage(e1, svPropID)
	p2, s2 := svPropStage(e2, svPropID)
	sv.Assert(s1 == s2 && (p1 == nil) == (p2 == nil) && (p1 == nil || (p1.Status == p2.Status && p1.Outcome == p2.Outcome)), "same-proposal-stage-without-the-refused-transaction")
	sv.Assert(svSameWrites(svBlockWrites(e1.app), svBlockWrites(e2.app)), "same-block-writes-without-the-refused-transaction")
	sv.Cover(r2.Code == 0, "next-executed")
}
