package app

// Network delegation kinds (delegate, undelegate, withdraw rewards, reinvest).

import (
	"fmt"
	"math/big"

	"github.com/Oneledger/protocol/action"
	action_nd "github.com/Oneledger/protocol/action/network_delegation"
	"github.com/Oneledger/protocol/data/balance"
	netwkDeleg "github.com/Oneledger/protocol/data/network_delegation"
	sv "github.com/Oneledger/protocol/zz_sv"
)

// heights at which pending entries can exist at block `now` (maturity 4)
func svDelegHeights(now int64) []int64 { return []int64{now, now + 4} }

// svPreDeleg: every party has arbitrary active delegation, pending
// undelegations, reward balance and pending reward withdrawals; the delegation
// pool holds at least the sum of the active amounts (the representation
// invariant, with the symbolic pool balance as the donations slack).
func svPreDeleg(e *svEnv) {
	ctx := &e.app.Context
	ds := ctx.netwkDelegators.Deleg.WithState(ctx.deliver)
	rs := ctx.netwkDelegators.Rewards.WithState(ctx.deliver)
	sumActive := new(big.Int)
	for i := 0; i < e.n; i++ {
		p := svParty_(i)
		a := svNonNeg("deleg.active" + svPartyName(i))
		sumActive.Add(sumActive, a)
		c := svCoin(balance.NewAmountFromBigInt(a))
		ds.WithPrefix(netwkDeleg.ActiveType).Set(p.Addr, &c)
		for _, h := range svDelegHeights(e.height) {
			pc := svCoin(balance.NewAmountFromBigInt(svNonNeg(fmt.Sprint("deleg.pend", h, svPartyName(i)))))
			ds.SetPendingAmount(p.Addr, h, &pc)
			rs.SetPendingRewards(p.Addr, balance.NewAmountFromBigInt(svNonNeg(fmt.Sprint("deleg.rwpend", h, svPartyName(i)))), h)
		}
		rs.AddRewardsBalance(p.Addr, balance.NewAmountFromBigInt(svNonNeg("deleg.rw"+svPartyName(i))))
	}
	// pool >= sum of active: add the active total on top of the symbolic slack
	svFundOLT(e.app, svPools()[0].addr, sumActive)
	e.extra = append(e.extra, func(l *svLedger) {
		ds := ctx.netwkDelegators.Deleg.WithState(ctx.deliver)
		hs := append(svDelegHeights(e.height), e.height+1, e.height+5)
		for i := 0; i < e.n; i++ {
			p := svParty_(i)
			name := svPartyName(i)
			c, _ := ds.WithPrefix(netwkDeleg.ActiveType).Get(p.Addr)
			l.addMirror("deleg:a:"+name, name, "OLT", c.Amount.BigInt())
			for _, h := range hs {
				pc, _ := ds.GetPendingAmount(p.Addr, h)
				l.add(fmt.Sprint("deleg:p:", h, ":", name), name, "OLT", pc.Amount.BigInt())
				// read the record by its key (GetPendingRewards filters zero amounts, which would fork the reader)
				l.add(fmt.Sprint("delegRwz:p:", h, ":", name), name, "OLT",
					svAmountAt(e.app, fmt.Sprintf("delegRwz_pending_%d_%s", h, p.Addr)))
			}
			rb, _ := ctx.netwkDelegators.Rewards.WithState(ctx.deliver).GetRewardsBalance(p.Addr)
			l.add("delegRwz:b:"+name, name, "OLT", rb.BigInt())
		}
	})
}

func svBuildDelegate(e *svEnv) (action.RawTx, []int) {
	i, addr := svAnyParty("delegator", e.n)
	return svRaw(action.ADD_NETWORK_DELEGATE, &action_nd.AddNetworkDelegation{DelegationAddress: addr, Amount: svAnyAmount("amount")}), []int{i}
}

func svBuildUndelegate(e *svEnv) (action.RawTx, []int) {
	i, addr := svAnyParty("delegator", e.n)
	return svRaw(action.NETWORK_UNDELEGATE, &action_nd.Undelegate{Delegator: addr, Amount: svAnyAmount("amount")}), []int{i}
}

func svBuildDelegWithdraw(e *svEnv) (action.RawTx, []int) {
	i, addr := svAnyParty("delegator", e.n)
	return svRaw(action.REWARDS_WITHDRAW_NETWORK_DELEGATE, &action_nd.Withdraw{Delegator: addr, Amount: svAnyAmount("amount")}), []int{i}
}

func svBuildDelegReinvest(e *svEnv) (action.RawTx, []int) {
	i, addr := svAnyParty("delegator", e.n)
	return svRaw(action.REWARDS_REINVEST_NETWORK_DELEGATE, &action_nd.Reinvest{Delegator: addr, Amount: svAnyAmount("amount")}), []int{i}
}

var _ = sv.Tier

func svBuildAnyDeleg(e *svEnv) (action.RawTx, []int) {
	switch sv.Choice("kind", 4) {
	case 0:
		return svBuildDelegate(e)
	case 1:
		return svBuildUndelegate(e)
	case 2:
		return svBuildDelegWithdraw(e)
	}
	return svBuildDelegReinvest(e)
}
