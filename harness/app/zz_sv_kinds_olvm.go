package app

// OLVM kinds for the generic step driver and the C17 harnesses.

import (
	"encoding/json"
	"errors"
	"math/big"
	"os"
	"strconv"

	"github.com/Oneledger/protocol/data/evm"
	"github.com/Oneledger/protocol/log"
	"github.com/Oneledger/protocol/vm"

	"github.com/Oneledger/protocol/action"
	"github.com/Oneledger/protocol/action/olvm"
	"github.com/Oneledger/protocol/data/balance"
	"github.com/Oneledger/protocol/data/keys"
	"github.com/Oneledger/protocol/utils"
	sv "github.com/Oneledger/protocol/zz_sv"
	ethcmn "github.com/ethereum/go-ethereum/common"
	ethtypes "github.com/ethereum/go-ethereum/core/types"
	ethcrypto "github.com/ethereum/go-ethereum/crypto"
)

// secp256k1 keys of the OLVM parties and their addresses (checked natively by
// svSignOLVM); under the engine the curve is not evaluated.
var svEthKeys = []struct{ priv, addr string }{
	{"4c0883a69102937d6231471b5dbb6204fe5129617082792ae468d01a3f362318", "2c7536e3605d9c16a7a3d7b1898e529396a65c23"},
	{"8da4ef21b864d2cc526dbdb2a120bd2874c36c9d0a1fb7f8c63d7f7a8b41de8f", "63fac9201494f0bd17b9892b9fae4d52fe3bd377"},
}

// svEthAddr: the address of OLVM party i's secp256k1 key.
func svEthAddr(i int) keys.Address { return keys.Address(ethcmn.FromHex(svEthKeys[i].addr)) }

// svUseEthParties gives parties 0 and 1 the addresses of their secp256k1 keys.
func svUseEthParties() {
	svParty_(1)
	for i := range svEthKeys {
		svParties[i].Addr = svEthAddr(i)
	}
}

// the pre-deployed contract and its programs
var svContractAddr = keys.Address(ethcmn.FromHex("c0000000000000000000000000000000000000c1"))
var svBeneficiary = keys.Address(ethcmn.FromHex("be000000000000000000000000000000000000ef"))

type svProgram struct {
	name string
	code []byte
}

func svPrograms() []svProgram {
	suicide := append(append([]byte{0x73}, svBeneficiary...), 0xff) // PUSH20 beneficiary; SELFDESTRUCT
	return []svProgram{
		{"stop", []byte{0x00}},
		{"revert", []byte{0x60, 0x00, 0x60, 0x00, 0xfd}},      // PUSH1 0 PUSH1 0 REVERT
		{"invalid", []byte{0xfe}},                             // INVALID: all gas consumed
		{"store", []byte{0x60, 0x01, 0x60, 0x00, 0x55, 0x00}}, // SSTORE(0,1); STOP
		{"selfdestruct", suicide},                             //
		{"log", []byte{0x60, 0x00, 0x60, 0x00, 0xa0, 0x00}},   // LOG0(0,0); STOP
		{"clear", []byte{0x60, 0x00, 0x60, 0x00, 0x55, 0x00}}, // SSTORE(0,0) (refund when the slot was set); STOP
	}
}

type svOLVMPre struct {
	nonce0  uint64
	delta   int // transaction nonce = nonce0 + delta
	target  int // 0 EOA B, 1 creation, 2 empty address, 3 the deployed contract
	program int // -1: no contract deployed
}

// svPreOLVM: the EVM is enabled (a block hash is set, as BeginBlock does), the
// sender has a keeper account with an arbitrary small nonce or none (legacy
// account), and a contract with one of the programs may be deployed at
// svContractAddr with an arbitrary balance and slot 0 set.
func svPreOLVM(pre *svOLVMPre) func(e *svEnv) {
	return func(e *svEnv) {
		ctx := &e.app.Context
		ctx.stateDB.SetBlockHash(ethcmn.BytesToHash([]byte{1}))
		// (account nonce, transaction nonce - account nonce)
		nn := 5
		if svLean {
			nn = 2
		}
		nc := [][2]int{{0, 0}, {1, 0}, {0, 1}, {1, -1}, {2, 0}}[sv.Choice("olvm.nonces", nn)]
		pre.nonce0, pre.delta = uint64(nc[0]), nc[1]
		pre.target = sv.Choice("olvm.target", 4)
		withContract := pre.target == 3
		if pre.nonce0 > 0 {
			k := ctx.accountKeeper.WithState(ctx.deliver)
			acc, err := k.NewAccountWithAddress(svParty_(0).Addr)
			if err != nil {
				sv.Unreachable("keeper account")
			}
			acc.Sequence = pre.nonce0
			if err := k.SetAccount(*acc); err != nil {
				sv.Unreachable("keeper set")
			}
		}
		pre.program = -1
		if withContract {
			np := len(svPrograms())
			if svLean {
				np = 2 // stop, revert
			}
			pre.program = sv.Choice("olvm.program", np)
			sdb := ctx.stateDB.WithState(ctx.deliver)
			c := ethcmn.BytesToAddress(svContractAddr)
			sdb.SetCode(c, svPrograms()[pre.program].code)
			sdb.SetState(c, ethcmn.Hash{}, ethcmn.BytesToHash([]byte{7}))
			if err := sdb.Finalise(true); err != nil {
				sv.Unreachable("deploy")
			}
			svFundOLT(e.app, svContractAddr, svOLVMBalance("olt:contract"))
		}
		if pre.target == 2 || pre.program == 4 {
			svFundOLT(e.app, svBeneficiary, svOLVMBalance("olt:beneficiary"))
		}
		e.extra = append(e.extra, func(l *svLedger) {
			bal := ctx.balances.WithState(ctx.deliver)
			for _, a := range []struct {
				name string
				addr keys.Address
			}{{"contract", svContractAddr}, {"beneficiary", svBeneficiary}, {"created", svCreatedAddr(pre.nonce0)}} {
				c, err := bal.GetBalanceForCurr(a.addr, &svOLT)
				if err != nil {
					sv.Unreachable("ledger: contract balance")
				}
				l.add("b:"+a.name+":OLT", a.name, "OLT", c.Amount.BigInt())
			}
		})
	}
}

func svOLVMBalance(name string) *big.Int {
	v := svNonNeg(name)
	sv.Assume(v.Cmp(svTwo128) < 0)
	return v
}

var svTwo128 = new(big.Int).Lsh(big.NewInt(1), 128)

// the address a contract created by party 0 at the given account nonce gets
func svCreatedAddr(nonce uint64) keys.Address {
	return keys.Address(ethcrypto.CreateAddress(ethcmn.BytesToAddress(svParty_(0).Addr), nonce).Bytes())
}

// ---- signing ----

// svOLVMDigest: what the EIP-155 signing hash of the Ethereum form of the
// transaction covers (nonce, gas price, gas, to, value, data, chain id).
func svOLVMDigest(tx *olvm.Transaction, fee action.Fee, chain *big.Int) []byte {
	type digest struct {
		Nonce uint64
		Price *big.Int
		Gas   int64
		To    *action.Address
		Value *big.Int
		Data  []byte
		Chain *big.Int
	}
	b, err := json.Marshal(digest{tx.Nonce, fee.Price.Value.BigInt(), fee.Gas, tx.To, tx.Amount.Value.BigInt(), tx.Data, chain})
	if err != nil {
		sv.Unreachable("digest")
	}
	return b
}

// svSignOLVM signs raw (an OLVM transaction) with party's key for the chain id
// of the harness header. Natively this is a real secp256k1 EIP-155 signature;
// under the engine it is the functional signature model over svOLVMDigest.
func svSignOLVM(raw action.RawTx, party int) action.SignedTx {
	tx := &olvm.Transaction{}
	if err := tx.Unmarshal(raw.Data); err != nil {
		sv.Unreachable("olvm payload")
	}
	chain := utils.HashToBigInt(svHeader(0).ChainID)
	var sig []byte
	if sv.Symbolic() {
		sig, _ = svParty_(party).Priv.Sign(svOLVMDigest(tx, raw.Fee, chain))
	} else {
		key, err := ethcrypto.HexToECDSA(svEthKeys[party].priv)
		if err != nil || !keys.Address(ethcrypto.PubkeyToAddress(key.PublicKey).Bytes()).Equal(svEthAddr(party)) {
			panic("sv: secp256k1 key table is wrong")
		}
		var to *ethcmn.Address
		if tx.To != nil {
			a := ethcmn.BytesToAddress(tx.To.Bytes())
			to = &a
		}
		ethTx := ethtypes.NewTx(&ethtypes.LegacyTx{Nonce: tx.Nonce, To: to, Value: tx.Amount.Value.BigInt(),
			Gas: uint64(raw.Fee.Gas), GasPrice: raw.Fee.Price.Value.BigInt(), Data: tx.Data})
		h := ethtypes.NewEIP155Signer(chain).Hash(ethTx)
		sig, err = ethcrypto.Sign(h.Bytes(), key)
		if err != nil {
			panic(err)
		}
	}
	return action.SignedTx{RawTx: raw, Signatures: []action.Signature{{Signer: svParty_(party).Pub, Signed: sig}}}
}

// svModel_validateSigner replaces the secp256k1 recovery of the real function
// under the engine: a signature is well-formed when it is non-empty, it
// recovers to the party whose (model) key verifies it over the signing digest
// of this transaction, and to an address nobody controls otherwise.
//
// sv:models (*github.com/Oneledger/protocol/action/olvm.Transaction).validateSigner
func svModel_validateSigner(tx *olvm.Transaction, ctx *action.Context, signedTx action.SignedTx) error {
	if len(signedTx.Signatures) != 1 {
		return errors.New("invalid signatures count")
	}
	sig := signedTx.Signatures[0].Signed
	if len(sig) == 0 {
		return ethtypes.ErrInvalidSig
	}
	chain := utils.HashToBigInt(ctx.Header.ChainID)
	if tx.ChainID == nil || chain.Cmp(tx.ChainID) != 0 {
		return ethtypes.ErrInvalidChainId
	}
	d := svOLVMDigest(tx, signedTx.RawTx.Fee, chain)
	for i := range svEthKeys {
		if svParty_(i).Priv.PubKey().VerifyBytes(d, sig) {
			if !tx.From.Equal(svEthAddr(i)) {
				return errors.New("mismatch sender")
			}
			return nil
		}
	}
	return errors.New("mismatch sender")
}

// ---- builders ----

type svOLVMTx struct {
	raw     action.RawTx
	msg     *olvm.Transaction
	to      string // ledger owner of the recipient ("" = none)
	created bool
}

// svBuildOLVM: an OLVM transaction from party 0 with arbitrary amount, gas
// limit and gas price; target: transfer to B, call of the contract, creation
// (init code STOP / REVERT / INVALID), or a transfer to an empty address.
func svBuildOLVM(e *svEnv, pre *svOLVMPre, nonce uint64) *svOLVMTx {
	t := &svOLVMTx{}
	msg := &olvm.Transaction{Nonce: nonce, From: svParty_(0).Addr,
		Amount:  action.Amount{Currency: "OLT", Value: *balance.NewAmountFromBigInt(sv.BigInt("amount.value"))},
		ChainID: utils.HashToBigInt(svHeader(0).ChainID)}
	switch pre.target {
	case 0:
		a := svParty_(1).Addr
		msg.To, t.to = &a, "B"
	case 1:
		msg.Data = [][]byte{{0x00}, {0x60, 0x00, 0x60, 0x00, 0xfd}, {0xfe}}[sv.Choice("olvm.initcode", 3)]
		t.to, t.created = "created", true
	case 2:
		a := svBeneficiary
		msg.To, t.to = &a, "beneficiary"
	default:
		a := svContractAddr
		msg.To, t.to = &a, "contract"
		msg.Data = []byte{0x01}
	}
	t.msg = msg
	t.raw = svRaw(action.OLVM, msg)
	t.raw.Memo = strconv.FormatUint(nonce, 10)
	return t
}

func svOLVMStatus(resp ResponseDeliverTx) string {
	for _, ev := range resp.Events {
		for _, a := range ev.Attributes {
			if string(a.Key) == "tx.status" {
				return string(a.Value)
			}
		}
	}
	return ""
}

func (e *svEnv) nonceOf(addr keys.Address) uint64 {
	return e.app.Context.accountKeeper.WithState(e.app.Context.deliver).GetNonce(addr)
}

// evmView reads an address's balance through the EVM state adapter the way an
// RPC query does: a fresh CommitStateDB over the same stores (the node's own
// adapter object is only read inside OLVM transactions; reading it here would
// leave cached objects behind that no real caller leaves).
func (e *svEnv) evmView(addr keys.Address) *big.Int {
	ctx := &e.app.Context
	st := ctx.deliver
	sdb := vm.NewCommitStateDB(evm.NewContractStore(st),
		balance.NewNesterAccountKeeper(st, balance.NewStore("b", st), ctx.currencies), log.NewLoggerWithPrefix(os.Stdout, "svview"))
	return sdb.GetBalance(ethcmn.BytesToAddress(addr))
}

// SV_C17_olvm_step: one OLVM transaction through the real txDeliverer.
//
// sv:bounds sender A with (account nonce, transaction nonce) in {(0,0),(0,1),(1,0),(1,1),(2,2)} (0 = legacy account without keeper record); target: EOA B, an empty address, contract creation (init code STOP, REVERT, INVALID) or the pre-deployed contract (programs stop, revert, invalid, store, selfdestruct, log, clear); arbitrary integer amount, gas limit (int64) and gas price; balances arbitrary in [0, 2^128); admitted by the real Validate (signature recovery replaced by svModel_validateSigner); every balance not involved is concrete 0
// sv:outside the unvalidated DeliverTx regime (C04's known finding: negative amounts are not refused there); nested calls and creates from contract code, precompiles, access lists, contract programs other than the seven listed; balances >= 2^128; several OLVM transactions in one block (SV_C17_two_step)
// sv:goal the OLT balance of every address is the same read natively and through the EVM, before and after; Code 0 implies: 0 <= gas used <= gas limit, the sender pays exactly gas used * price + the value transferred (the amount when the execution succeeded, 0 when it reverted or failed), the fee pool receives exactly gas used * price, the recipient (EOA, created address, contract, or the self-destruct beneficiary) receives exactly the value, the sender's nonce rises by exactly one, no other cell changes and the total is conserved; Code != 0 implies no cell and no nonce changes
func SV_C17_olvm_step() {
	svCurrencyLimit = 1
	svUseEthParties()
	pre := &svOLVMPre{}
	e := svNewEnv(2, 20, svPreOLVM(pre))
	sv.Assume(e.ledger().get("b:A:OLT").Cmp(svTwo128) < 0 && e.ledger().get("b:B:OLT").Cmp(svTwo128) < 0)
	t := svBuildOLVM(e, pre, uint64(int(pre.nonce0)+pre.delta))
	tx := svSignOLVM(t.raw, 0)
	sv.Assume(e.validate(tx))
	addrs := map[string]keys.Address{"A": svParty_(0).Addr, "B": svParty_(1).Addr, "contract": svContractAddr, "beneficiary": svBeneficiary, "created": svCreatedAddr(pre.nonce0)}
	views := []string{"A", t.to}
	if pre.program == 4 {
		views = append(views, "beneficiary")
	}
	l0 := e.ledger()
	for _, name := range views {
		sv.Assert(e.evmView(addrs[name]).Cmp(l0.get("b:"+name+":OLT")) == 0, "evm-and-native-balance-agree-before")
	}
	n0 := e.nonceOf(svParty_(0).Addr)
	resp := svDeliver(e.app, tx)
	l1 := e.ledger()
	n1 := e.nonceOf(svParty_(0).Addr)
	for _, name := range views {
		sv.Assert(e.evmView(addrs[name]).Cmp(l1.get("b:"+name+":OLT")) == 0, "evm-and-native-balance-agree-after")
	}
	sv.Observe("code", resp.Code)
	sv.Observe("gasUsed", resp.GasUsed)
	for _, c := range l1.cells {
		sv.Observe(c.Name, c.V)
	}
	sv.Assert(l1.total("OLT").Cmp(l0.total("OLT")) == 0, "olvm-conserves-the-total")
	for _, c := range l1.cells {
		sv.Assert(c.V.Sign() >= 0, "no-negative-balance")
	}
	if resp.Code != 0 {
		for k, c := range l1.cells {
			sv.Assert(c.V.Cmp(l0.cells[k].V) == 0, "failed-olvm-tx-changes-no-balance")
		}
		sv.Assert(n1 == n0, "failed-olvm-tx-keeps-the-nonce")
		return
	}
	status := svOLVMStatus(resp)
	g := big.NewInt(resp.GasUsed)
	sv.Assert(resp.GasUsed >= 0 && resp.GasUsed <= t.raw.Fee.Gas, "gas-used-within-the-limit")
	fee := new(big.Int).Mul(g, t.raw.Fee.Price.Value.BigInt())
	moved := new(big.Int)
	if status == "1" {
		moved.Set(t.msg.Amount.Value.BigInt())
	}
	// expected movement per cell
	want := map[string]*big.Int{}
	for _, c := range l0.cells {
		want[c.Name] = new(big.Int).Set(c.V)
	}
	want["b:A:OLT"].Sub(want["b:A:OLT"], fee).Sub(want["b:A:OLT"], moved)
	want["f:pool"].Add(want["f:pool"], fee)
	dest := "b:" + t.to + ":OLT"
	if t.to == "contract" && pre.program == 4 && status == "1" {
		// self-destruct: the contract's whole balance (with the value) goes to the beneficiary
		want["b:beneficiary:OLT"].Add(want["b:beneficiary:OLT"], want["b:contract:OLT"]).Add(want["b:beneficiary:OLT"], moved)
		want["b:contract:OLT"].SetInt64(0)
	} else {
		want[dest].Add(want[dest], moved)
	}
	for _, c := range l1.cells {
		sv.Assert(c.V.Cmp(want[c.Name]) == 0, "exact-olvm-accounting:"+c.Name)
	}
	sv.Assert(n1 == n0+1, "nonce-rises-by-exactly-one")
	sv.Cover(status == "1", "executed-ok:"+t.to)
	sv.Cover(status == "0", "executed-reverted:"+t.to)
}

// SV_C17_two_step: two OLVM transfers from the same sender in one block, both
// admitted by Validate against the committed state (the mempool reserves
// nothing, so the second may no longer be payable when it is delivered), then
// a native SEND.
//
// sv:bounds sender A (account nonce 0 or 1), recipient B; two OLVM transfers with nonces n and n+1, arbitrary amounts, gas limits and gas prices, both admitted against the state before the block; delivered in order, then a third OLVM transfer with the then-current nonce (admitted against the state before the block as well), then a native SEND from B to A of an arbitrary amount; balances symbolic in [0,2^128)
// sv:outside contract targets in the sequence (SV_C17_olvm_step), more than two OLVM transactions, other interleavings
// sv:goal after every transaction A's and B's OLT balances read through the EVM equal the native ones; each executed OLVM transaction debits exactly gas used x price + amount from A, credits the fee pool and B exactly, raises the nonce by one; a refused one changes no balance and no nonce; the native SEND moves exactly its amount and the EVM view follows it
func SV_C17_two_step() {
	svCurrencyLimit = 1
	svUseEthParties()
	pre := &svOLVMPre{}
	e := svNewEnv(2, 20, func(e *svEnv) {
		ctx := &e.app.Context
		ctx.stateDB.SetBlockHash(ethcmn.BytesToHash([]byte{1}))
		pre.nonce0 = uint64(sv.Choice("olvm.senderNonce", 2))
		pre.program = -1
		if pre.nonce0 > 0 {
			k := ctx.accountKeeper.WithState(ctx.deliver)
			acc, err := k.NewAccountWithAddress(svParty_(0).Addr)
			if err != nil {
				sv.Unreachable("keeper account")
			}
			acc.Sequence = pre.nonce0
			if err := k.SetAccount(*acc); err != nil {
				sv.Unreachable("keeper set")
			}
		}
	})
	sv.Assume(e.ledger().get("b:A:OLT").Cmp(svTwo128) < 0 && e.ledger().get("b:B:OLT").Cmp(svTwo128) < 0)
	to := svParty_(1).Addr
	mk := func(tag string, nonce uint64) action.SignedTx {
		msg := &olvm.Transaction{Nonce: nonce, From: svParty_(0).Addr, To: &to,
			Amount:  action.Amount{Currency: "OLT", Value: *balance.NewAmountFromBigInt(sv.BigInt(tag + ".amount"))},
			ChainID: utils.HashToBigInt(svHeader(0).ChainID)}
		data, err := msg.Marshal()
		if err != nil {
			sv.Unreachable("marshal")
		}
		raw := action.RawTx{Type: action.OLVM, Data: data, Memo: strconv.FormatUint(nonce, 10),
			Fee: action.Fee{Price: action.Amount{Currency: "OLT", Value: *balance.NewAmountFromBigInt(sv.BigInt(tag + ".price"))}, Gas: sv.Int64(tag + ".gas")}}
		return svSignOLVM(raw, 0)
	}
	tx1, tx2 := mk("tx1", pre.nonce0), mk("tx2", pre.nonce0+1)
	sv.Assume(e.validate(tx1))
	sv.Assume(e.validate(tx2))
	agree := func() {
		l := e.ledger()
		sv.Assert(e.evmView(svParty_(0).Addr).Cmp(l.get("b:A:OLT")) == 0 && e.evmView(svParty_(1).Addr).Cmp(l.get("b:B:OLT")) == 0, "evm-and-native-balance-agree")
	}
	deliver := func(tag string, tx action.SignedTx) {
		l0, n0 := e.ledger(), e.nonceOf(svParty_(0).Addr)
		resp := svDeliver(e.app, tx)
		l1, n1 := e.ledger(), e.nonceOf(svParty_(0).Addr)
		sv.Observe(tag+".code", resp.Code)
		sv.Observe(tag+".A", l1.get("b:A:OLT"))
		agree()
		if resp.Code != 0 {
			for k, c := range l1.cells {
				sv.Assert(c.V.Cmp(l0.cells[k].V) == 0, "refused-olvm-tx-changes-no-balance")
			}
			sv.Assert(n1 == n0, "refused-olvm-tx-keeps-the-nonce")
			sv.Cover(tag == "tx2", "second-transfer-refused-at-delivery")
			return
		}
		m := &olvm.Transaction{}
		m.Unmarshal(tx.Data)
		fee := new(big.Int).Mul(big.NewInt(resp.GasUsed), tx.Fee.Price.Value.BigInt())
		moved := new(big.Int)
		if svOLVMStatus(resp) == "1" {
			moved.Set(m.Amount.Value.BigInt())
		}
		wantA := new(big.Int).Sub(new(big.Int).Sub(l0.get("b:A:OLT"), fee), moved)
		sv.Assert(l1.get("b:A:OLT").Cmp(wantA) == 0, "sender-pays-exactly-gas-and-value")
		sv.Assert(l1.get("b:B:OLT").Cmp(new(big.Int).Add(l0.get("b:B:OLT"), moved)) == 0, "recipient-receives-exactly-the-value")
		sv.Assert(l1.get("f:pool").Cmp(new(big.Int).Add(l0.get("f:pool"), fee)) == 0, "fee-pool-receives-exactly-the-gas")
		sv.Assert(n1 == n0+1, "nonce-rises-by-exactly-one")
		sv.Cover(tag == "tx2", "second-transfer-executed")
	}
	deliver("tx1", tx1)
	deliver("tx2", tx2)
	// a third transfer, built for whatever the account nonce is now: its
	// accounting shows what the adapter kept from the two before
	tx3 := mk("tx3", e.nonceOf(svParty_(0).Addr))
	sv.Assume(e.validate(tx3))
	deliver("tx3", tx3)
	// a native transfer back: the EVM view must follow the native ledger
	amt := svNonNeg("send.amount")
	bal := e.app.Context.balances.WithState(e.app.Context.deliver)
	c := svOLT.NewCoinFromAmount(*balance.NewAmountFromBigInt(amt))
	if err := bal.MinusFromAddress(svParty_(1).Addr, c); err == nil {
		if err := bal.AddToAddress(svParty_(0).Addr, c); err != nil {
			sv.Unreachable("native credit")
		}
	}
	agree()
}

// SV_C06_failed_olvm_leaves_no_trace: a block with a refused OLVM transaction
// between two others ends exactly like the block without it.
//
// sv:bounds as SV_C17_two_step: replica 1 delivers tx1, tx2, tx3 (two admitted transfers from A, then a third with the then-current nonce), replica 2 delivers tx1 and tx3 only; paths on which tx2 is refused at delivery
// sv:outside refused transactions of other kinds in a sequence (their handlers keep no per-transaction memory except the shared store selectors examined by the residue choices of C12 / C14 / C15); other orders
// sv:goal both replicas end with the same ledger, the same nonce and the same block writes (keys, order, values): the refused transaction left nothing in the stores or in the EVM adapter's memory
func SV_C06_failed_olvm_leaves_no_trace() {
	svCurrencyLimit = 1
	sv.NominalSizes(64)
	svUseEthParties()
	build := func() *svEnv {
		e := svNewEnv(2, 20, func(e *svEnv) {
			e.app.Context.stateDB.SetBlockHash(ethcmn.BytesToHash([]byte{1}))
		})
		sv.Assume(e.ledger().get("b:A:OLT").Cmp(svTwo128) < 0 && e.ledger().get("b:B:OLT").Cmp(svTwo128) < 0)
		return e
	}
	to := svParty_(1).Addr
	mk := func(tag string, nonce uint64) action.SignedTx {
		msg := &olvm.Transaction{Nonce: nonce, From: svParty_(0).Addr, To: &to,
			Amount:  action.Amount{Currency: "OLT", Value: *balance.NewAmountFromBigInt(sv.BigInt(tag + ".amount"))},
			ChainID: utils.HashToBigInt(svHeader(0).ChainID)}
		data, err := msg.Marshal()
		if err != nil {
			sv.Unreachable("marshal")
		}
		raw := action.RawTx{Type: action.OLVM, Data: data, Memo: strconv.FormatUint(nonce, 10),
			Fee: action.Fee{Price: action.Amount{Currency: "OLT", Value: *balance.NewAmountFromBigInt(sv.BigInt(tag + ".price"))}, Gas: sv.Int64(tag + ".gas")}}
		return svSignOLVM(raw, 0)
	}
	e1, e2 := build(), build()
	tx1, tx2 := mk("tx1", 0), mk("tx2", 1)
	sv.Assume(e1.validate(tx1))
	sv.Assume(e1.validate(tx2))
	r1 := svDeliver(e1.app, tx1)
	r2 := svDeliver(e1.app, tx2)
	sv.Assume(r1.Code == 0 && r2.Code != 0)
	tx3 := mk("tx3", 1)
	sv.Assume(e1.validate(tx3))
	r3 := svDeliver(e1.app, tx3)
	// the twin without the refused transaction
	q1 := svDeliver(e2.app, tx1)
	q3 := svDeliver(e2.app, tx3)
	sv.Assert(q1.Code == r1.Code && q3.Code == r3.Code && q3.GasUsed == r3.GasUsed, "same-results-without-the-refused-transaction")
	l1, l2 := e1.ledger(), e2.ledger()
	for k, c := range l1.cells {
		sv.Assert(c.V.Cmp(l2.cells[k].V) == 0, "same-ledger-without-the-refused-transaction")
	}
	sv.Assert(e1.nonceOf(svParty_(0).Addr) == e2.nonceOf(svParty_(0).Addr), "same-nonce-without-the-refused-transaction")
	sv.Assert(svSameWrites(svBlockWrites(e1.app), svBlockWrites(e2.app)), "same-block-writes-without-the-refused-transaction")
	sv.Observe("code3", r3.Code)
	sv.Cover(r3.Code == 0, "third-executed")
}

// SV_C05_olvm_nonce: an executed OLVM transaction cannot be executed again,
// whatever happens to the sender's balance in between and in whatever byte
// encoding it comes back (OLVM transactions carry a nonce).
//
// sv:bounds sender A (account nonce 0 or 1) sends an OLVM transfer to B with arbitrary amount, gas limit and price (admitted and executed, so it may spend exactly everything A has); the block is committed and indexed; A then receives an arbitrary native amount; the same signed transaction returns byte-identical or re-encoded (insignificant whitespace)
// sv:outside contract targets; other re-encodings
// sv:goal the resubmission is refused by the mempool check and, delivered in a block, changes no ledger cell and no nonce
func SV_C05_olvm_nonce() {
	svCurrencyLimit = 1
	svUseEthParties()
	pre := &svOLVMPre{}
	e := svNewEnv(2, 2, func(e *svEnv) {
		ctx := &e.app.Context
		ctx.stateDB.SetBlockHash(ethcmn.BytesToHash([]byte{1}))
		pre.nonce0 = uint64(sv.Choice("olvm.senderNonce", 2))
		if pre.nonce0 > 0 {
			k := ctx.accountKeeper.WithState(ctx.deliver)
			acc, err := k.NewAccountWithAddress(svParty_(0).Addr)
			if err != nil {
				sv.Unreachable("keeper account")
			}
			acc.Sequence = pre.nonce0
			if err := k.SetAccount(*acc); err != nil {
				sv.Unreachable("keeper set")
			}
		}
	})
	x := svInstallIndexer()
	sv.Assume(e.ledger().get("b:A:OLT").Cmp(svTwo128) < 0 && e.ledger().get("b:B:OLT").Cmp(svTwo128) < 0)
	to := svParty_(1).Addr
	msg := &olvm.Transaction{Nonce: pre.nonce0, From: svParty_(0).Addr, To: &to,
		Amount:  action.Amount{Currency: "OLT", Value: *balance.NewAmountFromBigInt(sv.BigInt("amount.value"))},
		ChainID: utils.HashToBigInt(svHeader(0).ChainID)}
	raw := svRaw(action.OLVM, msg)
	raw.Memo = strconv.FormatUint(pre.nonce0, 10)
	tx := svSignOLVM(raw, 0)
	sv.Assume(e.validate(tx))
	bytes1 := svEncode(tx)
	res := e.app.txDeliverer()(RequestDeliverTx{Tx: bytes1})
	sv.Assume(res.Code == 0)
	svIndexTx(x, 2, bytes1, res)
	e.app.Context.stateDB.Reset() // block end
	svCommitBlock(e.app)
	svOpenBlock(e.app, 3)
	// the sender is funded again
	refill := svOLVMBalance("refill")
	svFundOLT(e.app, svParty_(0).Addr, refill)
	bytes2 := bytes1
	if sv.Choice("reencoded", 2) == 1 {
		bytes2 = sv.Reencode(bytes1)
	}
	l0, n0 := e.ledger(), e.nonceOf(svParty_(0).Addr)
	chk := e.app.txChecker()(RequestCheckTx{Tx: bytes2})
	sv.Assert(chk.Code != 0, "executed-olvm-transaction-refused-by-mempool")
	res2 := e.app.txDeliverer()(RequestDeliverTx{Tx: bytes2})
	l1, n1 := e.ledger(), e.nonceOf(svParty_(0).Addr)
	same := n0 == n1
	for k, c := range l1.cells {
		if c.V.Cmp(l0.cells[k].V) != 0 {
			same = false
		}
	}
	sv.Assert(res2.Code != 0 || same, "executed-olvm-transaction-changes-nothing-when-delivered-again")
	sv.Observe("code2", res2.Code)
	sv.Cover(true, "replayed")
}
