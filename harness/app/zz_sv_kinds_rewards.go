package app

// Validator reward withdrawal (WITHDRAW_REWARD) and the C13 handler harness.

import (
	"math/big"

	"github.com/Oneledger/protocol/action"
	action_rw "github.com/Oneledger/protocol/action/rewards"
	"github.com/Oneledger/protocol/data/balance"
	"github.com/Oneledger/protocol/identity"
	sv "github.com/Oneledger/protocol/zz_sv"
)

type svRewardPre struct {
	exists  bool
	matured []*big.Int // per party (as validator address)
}

// svPreRewards: party B is a validator (present or removed) whose stake
// address is party A; every party address has an arbitrary matured reward
// balance and withdrawn total.
func svPreRewards(pre *svRewardPre) func(e *svEnv) {
	return func(e *svEnv) {
		ctx := &e.app.Context
		rw := ctx.rewardMaster.WithState(ctx.deliver).RewardCm
		for i := 0; i < e.n; i++ {
			m := svNonNeg("rw.matured" + svPartyName(i))
			pre.matured = append(pre.matured, m)
			if err := rw.AddMaturedBalance(svParty_(i).Addr, balance.NewAmountFromBigInt(m)); err != nil {
				sv.Unreachable("matured balance")
			}
		}
		// present with stake, removed, or a record without power (it unstaked everything; the
		// record is kept until tendermint has dropped the validator)
		state := sv.Choice("rw.validatorExists", 3)
		pre.exists = state != 1
		if pre.exists {
			val := svParty_(1)
			pw := int64(5)
			if state == 2 {
				pw = 0
			}
			v := identity.NewValidator(val.Addr, svParty_(0).Addr, val.Pub, val.Pub, *balance.NewAmount(pw), "node")
			v.Power = pw
			if err := ctx.validators.WithState(ctx.deliver).Set(*v); err != nil {
				sv.Unreachable("validator")
			}
		}
		e.extra = append(e.extra, func(l *svLedger) {
			rw := ctx.rewardMaster.WithState(ctx.deliver).RewardCm
			for i := 0; i < e.n; i++ {
				m, err := rw.GetMaturedBalance(svParty_(i).Addr)
				if err != nil {
					sv.Unreachable("ledger: matured")
				}
				// a claim on the rewards pool
				l.addMirror("rw:matured:"+svPartyName(i), "claim:"+svPartyName(i), "OLT", m.BigInt())
				w, err := rw.GetWithdrawnRewards(svParty_(i).Addr)
				if err != nil {
					sv.Unreachable("ledger: withdrawn")
				}
				l.addMirror("rw:withdrawn:"+svPartyName(i), "stat", "OLT", w.BigInt())
			}
		})
	}
}

func svBuildRewardWithdraw(e *svEnv) (action.RawTx, []int) {
	i, who := svAnyParty("actor", e.n)
	_, val := svAnyParty("validatorAddress", e.n)
	return svRaw(action.WITHDRAW_REWARD, &action_rw.Withdraw{ValidatorAddress: val, SignerAddress: who, WithdrawAmount: svAnyAmount("amount")}), []int{i}
}

// SV_C13_withdraw: one WITHDRAW_REWARD transaction.
//
// sv:bounds 2 parties; validator B present (stake address A), present with a zero-power record, or removed; matured balances of both addresses and the rewards pool arbitrary; withdraw naming any validator address, signed by any party, any integer amount (whole OLT, scaled by 10^18 by the handler) in OLT or an unregistered currency; mempool-admitted regime
// sv:outside how matured balances accrue (SV_C13_split, interval bookkeeping); histories
// sv:goal a successful withdraw pays a non-negative amount that does not exceed the matured balance of the named validator, lowers that balance and the rewards pool by exactly the amount, raises the withdrawn total and the signer's balance (net of the fee) by the same amount, touches no other validator's balance, and for a registered validator the signer is its stake address
func SV_C13_withdraw() {
	svCurrencyLimit = 2
	pre := &svRewardPre{}
	e := svNewEnv(2, 20, svPreRewards(pre))
	raw, signers := svBuildRewardWithdraw(e)
	actor := signers[0]
	r := e.step(raw, signers, true)
	if r.resp.Code != 0 {
		for k, c := range r.after.cells {
			sv.Assert(c.V.Cmp(r.before.cells[k].V) == 0, "refused-withdraw-changes-nothing")
		}
		return
	}
	m := &action_rw.Withdraw{}
	m.Unmarshal(raw.Data)
	vi := 0
	if m.ValidatorAddress.Equal(svParty_(1).Addr) {
		vi = 1
	}
	amt := new(big.Int).Mul(m.WithdrawAmount.Value.BigInt(), svWei)
	d := func(cell string) *big.Int { return new(big.Int).Sub(r.after.get(cell), r.before.get(cell)) }
	vn := svPartyName(vi)
	sv.Assert(amt.Sign() >= 0, "withdrawn-amount-is-not-negative")
	sv.Assert(amt.Cmp(pre.matured[vi]) <= 0, "never-more-than-has-matured")
	sv.Assert(d("rw:matured:"+vn).Cmp(new(big.Int).Neg(amt)) == 0, "matured-balance-falls-by-exactly-the-amount")
	sv.Assert(d("rw:withdrawn:"+vn).Cmp(amt) == 0, "withdrawn-total-rises-by-the-amount")
	sv.Assert(d("b:pool:rewards:OLT").Cmp(new(big.Int).Neg(amt)) == 0, "rewards-pool-pays-exactly-the-amount")
	other := svPartyName(1 - vi)
	sv.Assert(d("rw:matured:"+other).Sign() == 0 && d("rw:withdrawn:"+other).Sign() == 0, "no-other-validator's-rewards-change")
	fee := d("f:pool")
	got := new(big.Int).Add(d("b:"+svPartyName(actor)+":OLT"), fee)
	sv.Assert(got.Cmp(amt) == 0, "signer-receives-exactly-the-amount")
	if vi == 1 && pre.exists {
		sv.Assert(actor == 0, "registered-validator's-rewards-go-to-its-stake-address")
	}
	sv.Cover(amt.Sign() > 0 && vi == 1 && pre.exists, "withdrawn-by-stake-address")
	sv.Cover(amt.Sign() > 0 && !(vi == 1 && pre.exists), "withdrawn-for-unregistered-validator")
}

// SV_C04_reward_withdrawal_authority: the rewards of a validator with a record
// (elected or not) are paid only on the signature of its stake address (same
// exploration as SV_C13_withdraw).
//
// sv:bounds as SV_C13_withdraw
// sv:outside as SV_C13_withdraw
// sv:goal as SV_C13_withdraw, in particular registered-validator's-rewards-go-to-its-stake-address
func SV_C04_reward_withdrawal_authority() { SV_C13_withdraw() }
