package app

// Governance kinds (create, fund, withdraw funds, cancel) and the C14 harness.

import (
	"math/big"
	"strings"

	"github.com/Oneledger/protocol/action"
	action_gov "github.com/Oneledger/protocol/action/governance"
	"github.com/Oneledger/protocol/data/balance"
	"github.com/Oneledger/protocol/data/governance"
	"github.com/Oneledger/protocol/identity"
	sv "github.com/Oneledger/protocol/zz_sv"
)

var svPropID = governance.ProposalID(strings.Repeat("ab", 32))
var svPropID2 = governance.ProposalID(strings.Repeat("cd", 32))

type svPropPre struct {
	where    int // 0 absent, 1 active/funding, 2 active/voting, 3 failed/cancelled, 4 failed/insufficient funds, 5 failed/expired (insufficient votes), 6 failed/voted no
	proposer int
	goal     *big.Int
	fundDL   int64
	voteDL   int64
	funds    []*big.Int // per party
}

// svPreGov: proposal svPropID is absent or sits in a stage store with
// arbitrary proposer, funding goal, deadlines and per-funder contributions
// (the total record is their sum).
func svPreGov(pre *svPropPre) func(e *svEnv) {
	return func(e *svEnv) {
		ctx := &e.app.Context
		pm := ctx.proposalMaster.WithState(ctx.deliver)
		e.extra = append(e.extra, func(l *svLedger) {
			pm := ctx.proposalMaster.WithState(ctx.deliver)
			for _, id := range []governance.ProposalID{svPropID, svPropID2} {
				tag := "1"
				if id == svPropID2 {
					tag = "2"
				}
				for i := 0; i < e.n; i++ {
					a := pm.ProposalFund.GetFundsForProposalByFunder(id, svParty_(i).Addr)
					l.add("propFunds:"+tag+":"+svPartyName(i), "escrow:"+svPartyName(i), "OLT", a.BigInt())
				}
				// the total record must mirror the individual ones
				l.addMirror("propFunds:"+tag+":total", "escrow", "OLT", pm.ProposalFund.GetCurrentFundsForProposal(id).BigInt())
			}
		})
		if !svLean {
			// validators: A is elected (active status, power 5); B has a staked record but is
			// not elected (inactive status, power 7): only A belongs in a voting snapshot
			vs := ctx.validators.WithState(ctx.deliver)
			es := ctx.evidenceStore.WithState(ctx.deliver)
			for i, pw := range []int64{5, 7} {
				pt := svParty_(i)
				v := identity.NewValidator(pt.Addr, pt.Addr, pt.Pub, pt.Pub, *balance.NewAmount(pw), "n"+svPartyName(i))
				v.Power = pw
				if err := vs.Set(*v); err != nil {
					sv.Unreachable("validator")
				}
				if err := es.SetValidatorStatus(pt.Addr, i == 0, 1); err != nil {
					sv.Unreachable("validator status")
				}
			}
		}
		nwhere := 9
		if svLean {
			nwhere = 7 // the generic second-batch harnesses leave out the passed / finalised stages
		}
		pre.where = sv.Choice("prop.where", nwhere)
		if pre.where == 0 {
			return
		}
		pre.proposer = sv.Choice("prop.proposer", e.n)
		pre.goal = svNonNeg("prop.goal")
		pre.fundDL = sv.Int64("prop.fundingDeadline")
		sv.Assume(pre.fundDL >= 0 && pre.fundDL < 1<<40)
		pre.voteDL = pre.fundDL + 150000
		p := governance.NewProposal(svPropID, governance.ProposalTypeGeneral, "descr", "headline", svParty_(pre.proposer).Addr,
			pre.fundDL, balance.NewAmountFromBigInt(pre.goal), pre.voteDL, 51, "")
		state := governance.ProposalStateActive
		switch pre.where {
		case 2:
			p.Status = governance.ProposalStatusVoting
		case 3:
			p.Status, p.Outcome, state = governance.ProposalStatusCompleted, governance.ProposalOutcomeCancelled, governance.ProposalStateFailed
		case 4:
			p.Status, p.Outcome, state = governance.ProposalStatusCompleted, governance.ProposalOutcomeInsufficientFunds, governance.ProposalStateFailed
		case 5:
			p.Status, p.Outcome, state = governance.ProposalStatusCompleted, governance.ProposalOutcomeInsufficientVotes, governance.ProposalStateFailed
		case 6:
			p.Status, p.Outcome, state = governance.ProposalStatusCompleted, governance.ProposalOutcomeCompletedNo, governance.ProposalStateFailed
		case 7: // voted yes: waits in the passed store for its finalisation, funds still escrowed
			p.Status, p.Outcome, state = governance.ProposalStatusCompleted, governance.ProposalOutcomeCompletedYes, governance.ProposalStatePassed
		case 8: // finalised: the funds have been distributed, no fund record is left
			p.Status, p.Outcome, state = governance.ProposalStatusCompleted, governance.ProposalOutcomeCompletedYes, governance.ProposalStateFinalized
		}
		if err := pm.Proposal.WithPrefixType(state).Set(p); err != nil {
			sv.Unreachable("proposal setup")
		}
		total := new(big.Int)
		for i := 0; i < e.n; i++ {
			if pre.where == 8 {
				pre.funds = append(pre.funds, new(big.Int))
				continue
			}
			f := svNonNeg("prop.funds" + svPartyName(i))
			pre.funds = append(pre.funds, f)
			total.Add(total, f)
			if sv.Choice("prop.funded"+svPartyName(i), 2) == 0 {
				if err := pm.ProposalFund.AddFunds(svPropID, svParty_(i).Addr, balance.NewAmountFromBigInt(f)); err != nil {
					sv.Unreachable("funds setup")
				}
			} else {
				pre.funds[i] = new(big.Int)
			}
		}
		// representation invariant of the stage: a proposal still funding has not reached its goal
		if pre.where == 1 {
			cur := pm.ProposalFund.GetCurrentFundsForProposal(svPropID)
			sv.Assume(cur.BigInt().Cmp(pre.goal) < 0)
		}
		// ... and one that went to voting (and then expired or was voted down) has reached it
		if pre.where == 2 || pre.where == 5 || pre.where == 6 || pre.where == 7 {
			cur := pm.ProposalFund.GetCurrentFundsForProposal(svPropID)
			sv.Assume(cur.BigInt().Cmp(pre.goal) >= 0)
		}
	}
}

func svBuildGov(e *svEnv, kind int) (action.RawTx, []int) {
	i, who := svAnyParty("actor", e.n)
	id := svPropID
	switch kind {
	case 0: // create (a second id, or the same one: must be refused if it exists)
		if sv.Choice("create.sameid", 2) == 0 {
			id = svPropID2
		}
		fd := sv.Int64("create.fundingDeadline")
		sv.Assume(fd >= 0 && fd < 1<<40)
		return svRaw(action.PROPOSAL_CREATE, &action_gov.CreateProposal{ProposalID: id, ProposalType: governance.ProposalTypeGeneral,
			Headline: "h", Description: "d", Proposer: who, InitialFunding: svAnyAmount("amount"), FundingDeadline: fd,
			FundingGoal: balance.NewAmountFromInt(10000000000), VotingDeadline: fd + 150000, PassPercentage: 51}), []int{i}
	case 1:
		return svRaw(action.PROPOSAL_FUND, &action_gov.FundProposal{ProposalId: id, FunderAddress: who, FundValue: svAnyAmount("amount")}), []int{i}
	case 2:
		_, b := svAnyParty("beneficiary", e.n)
		return svRaw(action.PROPOSAL_WITHDRAW_FUNDS, &action_gov.WithdrawFunds{ProposalID: id, Funder: who, WithdrawValue: svAnyAmount("amount"), Beneficiary: b}), []int{i}
	}
	return svRaw(action.PROPOSAL_CANCEL, &action_gov.CancelProposal{ProposalId: id, Proposer: who, Reason: "r"}), []int{i}
}

func svPropStage(e *svEnv, id governance.ProposalID) (*governance.Proposal, governance.ProposalState) {
	pm := e.app.Context.proposalMaster.WithState(e.app.Context.deliver)
	p, st, err := pm.Proposal.QueryAllStores(id)
	if err != nil {
		return nil, governance.ProposalStateInvalid
	}
	return p, st
}

// svPropCopies: in how many stage stores the id has a record.
func svPropCopies(e *svEnv, id governance.ProposalID) int {
	pm := e.app.Context.proposalMaster.WithState(e.app.Context.deliver)
	n := 0
	for _, st := range []governance.ProposalState{governance.ProposalStateActive, governance.ProposalStatePassed, governance.ProposalStateFailed,
		governance.ProposalStateFinalized, governance.ProposalStateFinalizeFailed} {
		if _, err := pm.Proposal.WithPrefixType(st).Get(id); err == nil {
			n++
		}
	}
	return n
}

// SV_C14_funds_and_stage: one create / fund / withdraw-funds / cancel
// transaction from an arbitrary proposal record.
//
// sv:bounds proposal absent, or funding / voting in the active store, or cancelled / under-funded / expired in voting / voted down in the failed store, or voted yes in the passed store, or finalised (funds distributed) in the finalized store; arbitrary proposer among 2 parties, funding goal, funding deadline (any relation to the block height 20), per-funder contributions (present or absent); kind a choice; actor (proposer / funder field, who signs) any party, beneficiary any party; amounts any integer in {OLT, unregistered}; the shared proposal store's selected stage prefix (in-memory residue) active or failed; mempool-admitted regime
// sv:outside vote, expire and finalise (the tally and the fund distribution are not yet encoded); configuration-update proposals; histories
// sv:goal a proposal has a record in one stage store only and a completed one keeps its store, status and outcome whatever the transaction; stage moves only forward: fund never moves a proposal that is not funding or is past its deadline, and moves it to voting exactly when the contributions reach the goal, and the snapshot then taken holds exactly the elected validators (A, power 5; B has a staked record but an inactive status) with no opinion; cancel only by the proposer, only while funding and before the deadline, moves it to the failed store as cancelled; withdraw only from a cancelled or under-funded (deadline passed, goal not met) proposal, at most the funder's own contribution, debiting the escrow by exactly what the beneficiary receives; the total record stays the sum of the contributions; create only for an id without a record in any stage store, escrowing exactly the initial funding
func SV_C14_funds_and_stage() {
	svCurrencyLimit = 2
	pre := &svPropPre{}
	e := svNewEnv(2, 20, svPreGov(pre))
	kind := sv.Choice("kind", 4)
	raw, signers := svBuildGov(e, kind)
	actor := signers[0]
	an := svPartyName(actor)
	p0, st0 := svPropStage(e, svPropID)
	residue := []governance.ProposalState{governance.ProposalStateActive, governance.ProposalStateFailed}[sv.Choice("residue.prefix", 2)]
	e.beforeDeliver = func() { e.app.Context.proposalMaster.Proposal.WithPrefixType(residue) }
	r := e.step(raw, signers, true)
	p1, st1 := svPropStage(e, svPropID)
	ok := r.resp.Code == 0
	d := func(cell string) *big.Int { return new(big.Int).Sub(r.after.get(cell), r.before.get(cell)) }
	// the total record mirrors the individual contributions
	for _, tag := range []string{"1", "2"} {
		sum := new(big.Int).Add(r.after.get("propFunds:"+tag+":A"), r.after.get("propFunds:"+tag+":B"))
		sv.Assert(r.after.get("propFunds:"+tag+":total").Cmp(sum) == 0, "total-funds-record-equals-the-sum-of-contributions")
	}
	sv.Assert(svPropCopies(e, svPropID) <= 1, "a-proposal-has-a-record-in-one-stage-store-only")
	if p0 != nil && p0.Status == governance.ProposalStatusCompleted {
		sv.Assert(p1 != nil && st1 == st0 && p1.Status == p0.Status && p1.Outcome == p0.Outcome, "a-completed-proposal-keeps-its-stage-and-outcome")
	}
	if !ok {
		sv.Assert(st1 == st0, "failed-tx-does-not-move-the-proposal")
		return
	}
	height := e.height
	switch kind {
	case 0:
		p2, st2 := svPropStage(e, svPropID2)
		if p2 != nil {
			// the second id was created
			sv.Assert(st2 == governance.ProposalStateActive && p2.Status == governance.ProposalStatusFunding, "created-proposal-starts-funding")
			sv.Assert(d("propFunds:2:"+an).Sign() > 0 && d("propFunds:2:"+an).Cmp(new(big.Int).Neg(d("b:"+an+":OLT"))) <= 0, "creation-escrows-the-initial-funding-from-the-proposer")
			sv.Assert(st1 == st0, "create-does-not-touch-another-proposal")
			sv.Cover(true, "created")
		} else {
			// the first id was created: only possible when it had no record in any stage store
			sv.Assert(p0 == nil && p1 != nil && st1 == governance.ProposalStateActive && p1.Status == governance.ProposalStatusFunding, "create-only-for-an-id-without-a-record")
			sv.Assert(d("propFunds:1:"+an).Sign() > 0 && d("propFunds:1:"+an).Cmp(new(big.Int).Neg(d("b:"+an+":OLT"))) <= 0, "creation-escrows-the-initial-funding-from-the-proposer")
		}
	case 1:
		sv.Assert(p0 != nil && st0 == governance.ProposalStateActive && p0.Status == governance.ProposalStatusFunding && height <= p0.FundingDeadline, "fund-only-while-funding-and-before-the-deadline")
		sv.Assert(d("propFunds:1:"+an).Sign() >= 0, "fund-does-not-reduce-the-escrow")
		sv.Assert(d("propFunds:1:"+an).Cmp(new(big.Int).Neg(d("b:"+an+":OLT"))) <= 0, "escrow-grows-by-at-most-what-the-funder-paid")
		reached := r.after.get("propFunds:1:total").Cmp(pre.goal) >= 0
		if p1 != nil {
			sv.Assert((p1.Status == governance.ProposalStatusVoting) == reached && st1 == governance.ProposalStateActive, "voting-begins-exactly-when-the-goal-is-met")
			if p1.Status == governance.ProposalStatusVoting && !svLean {
				// the snapshot taken when voting begins: the elected validators, each with its power and no
				// opinion (the vote store lists committed records only: the block is committed first)
				svCommitBlock(e.app)
				svOpenBlock(e.app, e.height+1)
				pm := e.app.Context.proposalMaster.WithState(e.app.Context.deliver)
				_, votes, verr := pm.ProposalVote.GetVotesByID(svPropID)
				sv.Assert(verr == nil && len(votes) == 1, "the-voting-snapshot-holds-exactly-the-elected-validators")
				for _, v := range votes {
					sv.Assert(v.Validator.Equal(svParty_(0).Addr) && v.Power == 5 && v.Opinion == governance.OPIN_UNKNOWN, "the-voting-snapshot-holds-exactly-the-elected-validators")
				}
				sv.Cover(true, "snapshot-taken")
			}
		}
		sv.Cover(reached, "goal-reached")
		sv.Cover(!reached, "funded-below-goal")
	case 2:
		sv.Assert(p0 != nil, "withdraw-needs-a-proposal")
		if p0 != nil {
			eligible := p0.Outcome == governance.ProposalOutcomeCancelled || p0.Outcome == governance.ProposalOutcomeInsufficientFunds ||
				(st0 == governance.ProposalStateActive && p0.Status == governance.ProposalStatusFunding && r.before.get("propFunds:1:total").Cmp(pre.goal) < 0 && height > p0.FundingDeadline)
			sv.Assert(eligible, "withdraw-only-from-a-cancelled-or-under-funded-proposal")
		}
		out := new(big.Int).Neg(d("propFunds:1:" + an))
		sv.Assert(out.Sign() >= 0 && out.Cmp(r.before.get("propFunds:1:"+an)) <= 0, "withdraw-at-most-the-own-contribution")
		gain := new(big.Int)
		for i := 0; i < e.n; i++ {
			g := d("b:" + svPartyName(i) + ":OLT")
			if i == actor {
				continue // the actor also pays the fee
			}
			sv.Assert(g.Sign() >= 0, "withdraw-debits-nobody-else")
			gain.Add(gain, g)
		}
		sv.Assert(gain.Cmp(out) <= 0, "beneficiary-receives-at-most-what-left-the-escrow")
		sv.Cover(out.Sign() > 0, "withdrawn")
	case 3:
		sv.Assert(p0 != nil && st0 == governance.ProposalStateActive && p0.Status == governance.ProposalStatusFunding && height <= p0.FundingDeadline && actor == pre.proposer, "cancel-only-by-the-proposer-while-funding")
		sv.Assert(p1 != nil && st1 == governance.ProposalStateFailed && p1.Outcome == governance.ProposalOutcomeCancelled, "cancelled-proposal-moves-to-the-failed-store")
		sv.Cover(true, "cancelled")
	}
}
