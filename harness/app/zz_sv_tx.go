package app

// Transaction-level harness helpers: key universe, signing, an in-memory
// transaction index (what a node's indexer provides), delivery and the ledger.

import (
	gocontext "context"
	"math/big"

	"github.com/tendermint/tendermint/crypto/ed25519"
	"github.com/tendermint/tendermint/libs/pubsub/query"
	tmrpccore "github.com/tendermint/tendermint/rpc/core"
	"github.com/tendermint/tendermint/state/txindex"
	tmtypes "github.com/tendermint/tendermint/types"

	"github.com/Oneledger/protocol/action"
	"github.com/Oneledger/protocol/data/balance"
	"github.com/Oneledger/protocol/data/fees"
	"github.com/Oneledger/protocol/data/keys"
	"github.com/Oneledger/protocol/serialize"
	"github.com/Oneledger/protocol/utils"
	sv "github.com/Oneledger/protocol/zz_sv"
)

// ---- key universe: party i has an ed25519 key pair; its address is derived
// from the public key exactly as the node derives it ----

type svParty struct {
	Priv ed25519.PrivKeyEd25519
	Pub  keys.PublicKey
	Addr keys.Address
}

var svParties []svParty

func svParty_(i int) svParty {
	for len(svParties) <= i {
		n := len(svParties)
		priv := ed25519.GenPrivKeyFromSecret([]byte{'s', 'v', byte('A' + n)})
		pub := keys.PublicKey{KeyType: keys.ED25519, Data: priv.PubKey().Bytes()[5:]}
		h, err := pub.GetHandler()
		if err != nil {
			panic(err)
		}
		svParties = append(svParties, svParty{Priv: priv, Pub: pub, Addr: h.Address()})
	}
	return svParties[i]
}

// svSign signs the raw transaction with the given parties (in order).
func svSign(raw action.RawTx, signers ...int) action.SignedTx {
	tx := action.SignedTx{RawTx: raw}
	msg := raw.RawBytes()
	for _, s := range signers {
		p := svParty_(s)
		sig, _ := p.Priv.Sign(msg)
		tx.Signatures = append(tx.Signatures, action.Signature{Signer: p.Pub, Signed: sig})
	}
	return tx
}

func svEncode(tx action.SignedTx) []byte {
	b, err := serialize.GetSerializer(serialize.NETWORK).Serialize(tx)
	if err != nil {
		panic(err)
	}
	return b
}

// ---- transaction index ----

type svIndexer struct{ m map[string]*tmtypes.TxResult }

func (x *svIndexer) AddBatch(b *txindex.Batch) error { return nil }
func (x *svIndexer) Index(r *tmtypes.TxResult) error {
	x.m[string(utils.GetTransactionHash(r.Tx))] = r
	return nil
}
func (x *svIndexer) Get(hash []byte) (*tmtypes.TxResult, error) { return x.m[string(hash)], nil }
func (x *svIndexer) Search(c gocontext.Context, q *query.Query) ([]*tmtypes.TxResult, error) {
	return nil, nil
}

func svInstallIndexer() *svIndexer {
	x := &svIndexer{m: map[string]*tmtypes.TxResult{}}
	tmrpccore.SetTxIndexer(x)
	return x
}

// ---- block plumbing without the BeginBlock hooks ----

// svOpenBlock gives the app the header and the fresh deliver state BeginBlock
// would give it; the block-level hooks are exercised by their own harnesses.
func svOpenBlock(app *App, height int64) {
	svFreshDeliver(app)
	app.header = svHeader(height)
}

func svDeliver(app *App, tx action.SignedTx) ResponseDeliverTx {
	return app.txDeliverer()(RequestDeliverTx{Tx: svEncode(tx)})
}

func svCheck(app *App, tx action.SignedTx) ResponseCheckTx {
	return app.txChecker()(RequestCheckTx{Tx: svEncode(tx)})
}

// ---- inputs ----

func svNonNeg(name string) *big.Int {
	v := sv.BigInt(name)
	sv.Assume(v.Sign() >= 0)
	return v
}

// svFundOLT credits party balances in the deliver state.
func svFundOLT(app *App, addr keys.Address, amt *big.Int) {
	c := svOLT.NewCoinFromAmount(*balance.NewAmountFromBigInt(amt))
	if err := app.Context.balances.WithState(app.Context.deliver).AddToAddress(addr, c); err != nil {
		sv.Unreachable("funding")
	}
}

func svBalOLT(app *App, addr keys.Address) *big.Int {
	c, err := app.Context.balances.WithState(app.Context.deliver).GetBalanceForCurr(addr, &svOLT)
	if err != nil {
		sv.Unreachable("balance read")
	}
	return c.Amount.BigInt()
}

func svFeePool(app *App) *big.Int {
	c, _ := app.Context.feePool.WithState(app.Context.deliver).Get([]byte(fees.POOL_KEY))
	return c.Amount.BigInt()
}

// svFee is an arbitrary fee: any price (also below the minimum, negative) and any gas.
func svFee(currency string) action.Fee {
	// note: each call site shares the same two symbolic inputs
	return action.Fee{Price: action.Amount{Currency: currency, Value: *balance.NewAmountFromBigInt(sv.BigInt("fee.price"))}, Gas: sv.Int64("fee.gas")}
}

// svAmountAt reads a stored balance.Amount record by its raw key from the
// deliver state (absent = 0), the way the stores' own getters do.
func svAmountAt(app *App, key string) *big.Int {
	dat, _ := app.Context.deliver.Get([]byte(key))
	amt := balance.NewAmount(0)
	if len(dat) == 0 {
		return amt.BigInt()
	}
	if err := serialize.GetSerializer(serialize.PERSISTENT).Deserialize(dat, amt); err != nil {
		sv.Unreachable("svAmountAt: undecodable record " + key)
	}
	return amt.BigInt()
}
