package app

// ONS kinds and the C20 harness: one step per handler from a symbolic registry.

import (
	"bytes"
	"math/big"

	"github.com/Oneledger/protocol/action"
	action_ons "github.com/Oneledger/protocol/action/ons"
	"github.com/Oneledger/protocol/data/balance"
	"github.com/Oneledger/protocol/data/ons"
	sv "github.com/Oneledger/protocol/zz_sv"
)

const svTop = ons.Name("a.ol")
const svSub = ons.Name("x.a.ol")
const svSub2 = ons.Name("y.a.ol")

// svBystander: somebody else's name whose text ends with that of a.ol without
// being its sub-domain.
const svBystander = ons.Name("ba.ol")

type svDomainPre struct {
	present, subPresent bool
	sub2Present         bool
	owner, benef        int
	expire              int64
	onSale, active      bool
	price               *big.Int
	subExpire           int64
}

// svPreONS: the registry holds (or not) the top-level name a.ol with arbitrary
// owner / beneficiary among the parties, expiry, sale flag and price, active
// flag, and (or not) its sub-domain x.a.ol (owned by the same owner).
func svPreONS(pre *svDomainPre) func(e *svEnv) {
	return func(e *svEnv) {
		ds := e.app.Context.domains.WithState(e.app.Context.deliver)
		// the bystander ba.ol belongs to the last party and is never named by a transaction
		by, err := ons.NewDomain(svParty_(e.n-1).Addr, svParty_(e.n-1).Addr, string(svBystander), 1, "", 1<<39, true)
		if err != nil {
			sv.Unreachable("bystander setup")
		}
		if err := ds.Set(by); err != nil {
			sv.Unreachable("bystander store")
		}
		pre.present = sv.Choice("domain.present", 2) == 0
		if !pre.present {
			return
		}
		pre.owner = sv.Choice("domain.owner", e.n)
		pre.benef = sv.Choice("domain.beneficiary", e.n)
		pre.expire = sv.Int64("domain.expire")
		sv.Assume(pre.expire >= 0 && pre.expire < 1<<40)
		pre.onSale = sv.Bool("domain.onSale")
		pre.active = sv.Bool("domain.active")
		d, err := ons.NewDomain(svParty_(pre.owner).Addr, svParty_(pre.benef).Addr, string(svTop), 1, "", pre.expire, pre.active)
		if err != nil {
			sv.Unreachable("domain setup")
		}
		if pre.onSale {
			pre.price = svNonNeg("domain.price")
			d.OnSaleFlag = true
			d.SalePrice = balance.NewAmountFromBigInt(pre.price)
		}
		if err := ds.Set(d); err != nil {
			sv.Unreachable("domain store")
		}
		pre.subPresent = sv.Choice("sub.present", 2) == 0
		if pre.subPresent {
			pre.subExpire = pre.expire
			s, _ := ons.NewDomain(svParty_(pre.owner).Addr, svParty_(pre.owner).Addr, string(svSub), 1, "", pre.subExpire, true)
			ds.Set(s)
			// a second sub-domain of the same parent
			pre.sub2Present = sv.Choice("sub2.present", 2) == 0
			if pre.sub2Present {
				s2, _ := ons.NewDomain(svParty_(pre.owner).Addr, svParty_(pre.owner).Addr, string(svSub2), 1, "", pre.subExpire, true)
				ds.Set(s2)
			}
		}
	}
}

func svONSName() ons.Name {
	if sv.Choice("name", 2) == 0 {
		return svTop
	}
	return svSub
}

// builders: the payload's owner/buyer/sender field is any party, who signs

func svBuildONS(e *svEnv, kind int) (action.RawTx, []int) {
	i, who := svAnyParty("actor", e.n)
	switch kind {
	case 0:
		_, b := svAnyParty("beneficiary", e.n)
		return svRaw(action.DOMAIN_CREATE, &action_ons.DomainCreate{Owner: who, Beneficiary: b, Name: svONSName(), Uri: "", BuyingPrice: svAnyAmount("price")}), []int{i}
	case 1:
		_, b := svAnyParty("beneficiary", e.n)
		return svRaw(action.DOMAIN_UPDATE, &action_ons.DomainUpdate{Owner: who, Beneficiary: b, Name: svONSName(), Active: sv.Bool("upd.active"), Uri: ""}), []int{i}
	case 2:
		return svRaw(action.DOMAIN_SELL, &action_ons.DomainSale{Name: svONSName(), OwnerAddress: who, Price: svAnyAmount("price"), CancelSale: sv.Bool("sale.cancel")}), []int{i}
	case 3:
		_, acct := svAnyParty("beneficiary", e.n)
		return svRaw(action.DOMAIN_PURCHASE, &action_ons.DomainPurchase{Name: svONSName(), Buyer: who, Account: acct, Offering: svAnyAmount("price")}), []int{i}
	case 4:
		return svRaw(action.DOMAIN_SEND, &action_ons.DomainSend{From: who, Name: svONSName(), Amount: svAnyAmount("price")}), []int{i}
	case 5:
		return svRaw(action.DOMAIN_RENEW, &action_ons.RenewDomain{Owner: who, Name: svONSName(), BuyingPrice: svAnyAmount("price")}), []int{i}
	}
	return svRaw(action.DOMAIN_DELETE_SUB, &action_ons.DeleteSub{Name: svONSName(), Owner: who}), []int{i}
}

func svDomainsEqual(a, b *ons.Domain) bool {
	if (a == nil) != (b == nil) {
		return false
	}
	if a == nil {
		return true
	}
	if (a.SalePrice == nil) != (b.SalePrice == nil) {
		return false
	}
	if a.SalePrice != nil && a.SalePrice.BigInt().Cmp(b.SalePrice.BigInt()) != 0 {
		return false
	}
	return bytes.Equal(a.Owner, b.Owner) && bytes.Equal(a.Beneficiary, b.Beneficiary) && a.ExpireHeight == b.ExpireHeight &&
		a.ActiveFlag == b.ActiveFlag && a.OnSaleFlag == b.OnSaleFlag && a.URI == b.URI
}

func svGetDomain(e *svEnv, n ons.Name) *ons.Domain {
	d, err := e.app.Context.domains.WithState(e.app.Context.deliver).Get(n)
	if err != nil {
		return nil
	}
	return d
}

// SV_C20_ons_step: one ONS transaction of any kind from the symbolic registry.
//
// sv:bounds names {a.ol, x.a.ol} plus a bystander ba.ol (owned by the last party, never named by the transaction; its text ends with a.ol); a.ol absent or present with arbitrary owner/beneficiary among 2 (quick) / 3 (thorough) parties, expiry (0..2^40), sale flag and price, active flag; x.a.ol absent or present (owned by a.ol's owner), and with it a second sub-domain y.a.ol absent or present; kind any of create/update/sell/purchase/send/renew/delete-sub; actor (owner/buyer/sender field, who signs) any party; amounts any integer in {OLT, unregistered} (quick) / any of the 4 currency names (thorough); balances arbitrary (< 2^100 nue); ONS options of the devnet genesis (base price 10^21, per-block 10^14); mempool-admitted regime; block height 20, committed version 2
// sv:outside domain-name syntax beyond the two names; option changes; histories (one step)
// sv:goal the bystander record never changes; owner, beneficiary, sale status/price, active flag, expiry and the sub-domain of a.ol change only if the actor is its current owner, or through a purchase; a purchase of a name on sale and not expired debits the buyer by at least the asking price and credits the previous owner exactly the asking price; a purchase of an expired name pays at least the base price into the fee pool and sets expiry = version + floor((offering - base)/perBlock), a purchase on sale extends the remaining life by floor((offering - price)/perBlock); create only succeeds for a name without a record, and sets expiry = version + floor((price - base)/perBlock) (a sub-name: its parent's expiry); renew extends the expiry by exactly floor(price/perBlock); the sub-names' expiry follows their parent's on renew; a purchase leaves the name off sale and, like a delete-sub naming the parent, removes every sub-domain, a delete-sub naming x.a.ol removes only that one
func SV_C20_ons_step() {
	pre := &svDomainPre{}
	n := 3
	if sv.Tier() == 0 {
		n = 2                // quick: 2 parties,
		svCurrencyLimit = 2 // amounts in {OLT, unregistered}
	}
	e := svNewEnv(n, 20, svPreONS(pre))
	for i := 0; i < e.n; i++ {
		// keep the Int64() conversions of purchased block counts inside range (see bounds)
		sv.Assume(svBalOLT(e.app, svParty_(i).Addr).Cmp(new(big.Int).Lsh(big.NewInt(1), 100)) < 0)
	}
	kind := sv.Choice("kind", 7)
	raw, signers := svBuildONS(e, kind)
	actor := signers[0]
	top0, sub0, by0 := svGetDomain(e, svTop), svGetDomain(e, svSub), svGetDomain(e, svBystander)
	sub20 := svGetDomain(e, svSub2)
	version := e.app.Context.deliver.Version()
	r := e.step(raw, signers, true)
	top1, sub1, by1 := svGetDomain(e, svTop), svGetDomain(e, svSub), svGetDomain(e, svBystander)
	sub21 := svGetDomain(e, svSub2)
	sv.Assert(by0 != nil && svDomainsEqual(by0, by1), "a-name-that-no-transaction-names-is-untouched")
	ok := r.resp.Code == 0
	base, _ := new(big.Int).SetString("1000000000000000000000", 10)
	perBlock := big.NewInt(100000000000000)

	changedTop := !svDomainsEqual(top0, top1)
	changedSub := !svDomainsEqual(sub0, sub1) || !svDomainsEqual(sub20, sub21)
	if !ok {
		sv.Assert(!changedTop && !changedSub, "failed-tx-leaves-the-registry-unchanged")
	}
	if ok && top0 != nil && (changedTop || changedSub) {
		isOwner := actor == pre.owner
		sv.Assert(isOwner || kind == 3, "record-changes-only-by-its-owner-or-a-purchase")
		sv.Cover(isOwner && kind == 1, "owner-updated")
	}
	actorName := svPartyName(actor)
	if ok && kind == 3 {
		sv.Assert(top0 != nil && top1 != nil && bytes.Equal(top1.Owner, svParty_(actor).Addr), "purchase-makes-the-buyer-the-owner")
		paid := new(big.Int).Sub(r.before.get("b:"+actorName+":OLT"), r.after.get("b:"+actorName+":OLT"))
		if top0 != nil && top0.OnSaleFlag && version <= top0.ExpireHeight {
			sv.Assert(paid.Cmp(pre.price) >= 0 || actor == pre.owner, "buyer-pays-at-least-the-asking-price")
			if actor != pre.owner {
				prev := svPartyName(pre.owner)
				got := new(big.Int).Sub(r.after.get("b:"+prev+":OLT"), r.before.get("b:"+prev+":OLT"))
				sv.Assert(got.Cmp(pre.price) == 0, "previous-owner-receives-exactly-the-asking-price")
			}
			// the rest of the offering buys blocks on top of the remaining life
			if top1 != nil {
				extra := new(big.Int).Div(new(big.Int).Sub(svPayloadPrice(raw), pre.price), perBlock)
				sv.Assert(extra.IsInt64() && top1.ExpireHeight == top0.ExpireHeight+extra.Int64(), "purchase-expiry-is-exactly-what-the-payment-buys")
			}
			sv.Cover(true, "bought-on-sale")
		} else {
			sv.Assert(top0 != nil && version > top0.ExpireHeight, "purchase-only-if-on-sale-or-expired")
			poolGain := new(big.Int).Sub(r.after.get("f:pool"), r.before.get("f:pool"))
			sv.Assert(poolGain.Cmp(base) >= 0, "expired-name-costs-at-least-the-base-price")
			// an expired name starts a new life at the current version
			if top1 != nil {
				n := new(big.Int).Div(new(big.Int).Sub(svPayloadPrice(raw), base), perBlock)
				sv.Assert(n.IsInt64() && top1.ExpireHeight == version+n.Int64(), "purchase-expiry-is-exactly-what-the-payment-buys")
			}
			sv.Cover(true, "bought-expired")
		}
		// the name comes to the buyer without the previous owner's sale offer
		sv.Assert(top1 != nil && !top1.OnSaleFlag, "a-purchase-closes-the-previous-owner's-sale")
		sv.Assert(sub1 == nil && sub21 == nil, "purchase-removes-the-sub-domains")
		sv.Cover(sub20 != nil, "bought-with-two-sub-domains")
	}
	if ok && kind == 0 {
		// create
		msgName := svTop
		if sub1 != nil && sub0 == nil {
			msgName = svSub
		}
		if msgName == svTop {
			sv.Assert(top0 == nil && top1 != nil, "create-only-for-a-free-name")
			if top1 != nil {
				paid := new(big.Int).Sub(r.before.get("b:"+actorName+":OLT"), r.after.get("b:"+actorName+":OLT"))
				feeCharged := new(big.Int).Sub(new(big.Int).Sub(r.after.get("f:pool"), r.before.get("f:pool")), new(big.Int))
				_ = feeCharged
				// price = pool gain minus the transaction fee = what the payload offered
				price := svPayloadPrice(raw)
				want := new(big.Int).Div(new(big.Int).Sub(price, base), perBlock)
				sv.Assert(want.IsInt64() && top1.ExpireHeight == version+want.Int64(), "create-expiry-is-exactly-what-the-payment-buys")
				sv.Assert(paid.Cmp(price) >= 0, "creator-pays-the-price")
				sv.Assert(bytes.Equal(top1.Owner, svParty_(actor).Addr), "creator-becomes-owner")
				sv.Cover(true, "created-top")
			}
		} else {
			sv.Assert(top0 != nil && actor == pre.owner, "sub-name-only-under-an-owned-parent")
			sv.Assert(top0 != nil && sub1.ExpireHeight == top0.ExpireHeight, "sub-name-expires-with-its-parent")
			sv.Cover(true, "created-sub")
		}
	}
	if ok && kind == 5 && top0 != nil && top1 != nil {
		price := svPayloadPrice(raw)
		want := new(big.Int).Div(price, perBlock)
		sv.Assert(want.IsInt64() && top1.ExpireHeight == top0.ExpireHeight+want.Int64(), "renew-extends-by-exactly-what-the-payment-buys")
		if sub1 != nil {
			sv.Assert(sub1.ExpireHeight == top1.ExpireHeight, "sub-name-expiry-follows-parent-on-renew")
		}
		if sub21 != nil {
			sv.Assert(sub21.ExpireHeight == top1.ExpireHeight, "sub-name-expiry-follows-parent-on-renew")
		}
		sv.Cover(true, "renewed")
	}
	sv.Cover(ok && kind == 2, "sale-updated")
	if ok && kind == 6 {
		// delete-sub names the sub-domain x.a.ol (only that one goes) or the parent (all go)
		m := &action_ons.DeleteSub{}
		m.Unmarshal(raw.Data)
		if m.Name == svTop {
			sv.Assert(sub1 == nil && sub21 == nil, "delete-on-the-parent-removes-every-sub-domain")
			sv.Cover(sub20 != nil, "all-subs-deleted")
		} else {
			sv.Assert(sub1 == nil && svDomainsEqual(sub20, sub21), "delete-of-one-sub-domain-removes-only-that-one")
		}
	}
	sv.Cover(ok && kind == 6, "sub-deleted")
	sv.Cover(ok && kind == 4, "sent-to-domain")
}

// svPayloadPrice re-reads the offered amount from the payload the harness built.
func svPayloadPrice(raw action.RawTx) *big.Int {
	switch raw.Type {
	case action.DOMAIN_CREATE:
		m := &action_ons.DomainCreate{}
		m.Unmarshal(raw.Data)
		return m.BuyingPrice.Value.BigInt()
	case action.DOMAIN_RENEW:
		m := &action_ons.RenewDomain{}
		m.Unmarshal(raw.Data)
		return m.BuyingPrice.Value.BigInt()
	case action.DOMAIN_PURCHASE:
		m := &action_ons.DomainPurchase{}
		m.Unmarshal(raw.Data)
		return m.Offering.Value.BigInt()
	}
	return new(big.Int)
}
