package app

// C07 — the external (bid) stores are one object per application, re-aimed at
// the check or the deliver state for every transaction and block hook: a
// CheckTx of a bid transaction must leave nothing behind in them.

import (
	"math/big"

	"github.com/Oneledger/protocol/action"
	action_nd "github.com/Oneledger/protocol/action/network_delegation"
	"github.com/Oneledger/protocol/data/balance"
	"github.com/Oneledger/protocol/data/keys"
	netwkDeleg "github.com/Oneledger/protocol/data/network_delegation"
	"github.com/Oneledger/protocol/data/ons"
	"github.com/Oneledger/protocol/external_apps/bid/bid_action"
	"github.com/Oneledger/protocol/external_apps/bid/bid_data"
	sv "github.com/Oneledger/protocol/zz_sv"
)

// svBidGenesis: the name a.ol of A, a conversation A/B whose deadline has passed
// (the block hooks expire it) and a conversation A/C that is still open, each
// with a locked offer.
func svBidGenesis(app *App, amtB, amtC int64) (expiring, open bid_data.BidConvId) {
	A, B, C := svParty_(0).Addr, svParty_(1).Addr, svParty_(2).Addr
	d, err := ons.NewDomain(A, A, string(svTop), 1, "", 1<<39, true)
	if err != nil {
		sv.Unreachable("domain setup")
	}
	if err := app.Context.domains.WithState(app.Context.deliver).Set(d); err != nil {
		sv.Unreachable("domain store")
	}
	bm := svBidStore(app)
	c1 := bid_data.NewBidConv(A, string(svTop), bid_data.BidAssetOns, B, svBidNow-10, 1)
	c2 := bid_data.NewBidConv(A, string(svTop), bid_data.BidAssetOns, C, svBidNow+1000000, 1)
	for i, c := range []*bid_data.BidConv{c1, c2} {
		if err := bm.BidConv.WithPrefixType(bid_data.BidStateActive).Set(c); err != nil {
			sv.Unreachable("conversation")
		}
		amt := []int64{amtB, amtC}[i]
		off := bid_data.NewBidOffer(c.BidConvId, bid_data.TypeBidOffer, svBidNow-100, action.Amount{Currency: "OLT", Value: *balance.NewAmount(amt)}, bid_data.BidAmountLocked)
		if err := bm.BidOffer.SetActiveOffer(*off); err != nil {
			sv.Unreachable("offer")
		}
	}
	return c1.BidConvId, c2.BidConvId
}

// SV_C07_bid_checktx: a block with a bid transaction and the bid expiry hooks,
// with and without an injected CheckTx of another bid transaction.
//
// sv:bounds genesis with 2 validators; the name a.ol of A; a conversation A/B past its deadline (expired by the block-begin / block-end hooks of block 3) and an open conversation A/C, each with a locked offer; symbolic funded balances; block 3 carries A's decision (accept or refuse) on C's offer, block 4 is empty; one injected CheckTx of a bid transaction (B opening a new conversation with any amount, A's counter offer to C with any amount, or C cancelling) at any of the 5 call boundaries of block 3
// sv:outside several CheckTx calls; real concurrency; the bid RPC services (their own store objects)
// sv:goal DeliverTx codes / gas / data, validator updates and the ordered write set of both blocks are the same with and without the injected CheckTx
func SV_C07_bid_checktx() {
	sv.NominalSizes(64)
	nv := 2
	fundA, fundB, fundC := svNonNeg("fundA"), svNonNeg("fundB"), svNonNeg("fundC")
	var openID bid_data.BidConvId
	mk := func() *App {
		app := svNewApp()
		svInstallIndexer()
		svGenesisWithValidators(app, []int64{3000000, 3000000})
		svFundOLT(app, svParty_(0).Addr, fundA)
		svFundOLT(app, svParty_(1).Addr, fundB)
		svFundOLT(app, svParty_(2).Addr, fundC)
		_, openID = svBidGenesis(app, 7, 9)
		svCommitBlock(app)
		return app
	}
	a, b := mk(), mk()
	A, B, C := svParty_(0).Addr, svParty_(1).Addr, svParty_(2).Addr
	decision := []bid_data.BidDecision{bid_data.AcceptBid, bid_data.RejectBid}[sv.Choice("blk.decision", 2)]
	tx := svSign(svRaw(bid_action.BID_OWNER_DECISION, &bid_action.OwnerDecision{BidConvId: openID, Owner: A, Decision: decision}), 0)
	var chk action.SignedTx
	switch sv.Choice("chk.kind", 3) {
	case 0:
		chk = svSign(svRaw(bid_action.BID_CREATE, &bid_action.CreateBid{AssetOwner: A, AssetName: string(svTop), AssetType: bid_data.BidAssetOns,
			Bidder: B, Amount: svAnyAmount("chk.amount"), Deadline: svBidNow + 5000}), 1)
	case 1:
		chk = svSign(svRaw(bid_action.BID_CONTER_OFFER, &bid_action.CounterOffer{BidConvId: openID, AssetOwner: A, Amount: svAnyAmount("chk.amount")}), 0)
	default:
		chk = svSign(svRaw(bid_action.BID_CANCEL, &bid_action.CancelBid{BidConvId: openID, Bidder: C}), 2)
	}
	where := sv.Choice("inject.at", 5)
	ta1 := svBlock(a, 3, nv, []action.SignedTx{tx}, func(pos int) {
		if pos == where {
			r := svCheckEnvGas(a, chk)
			sv.Cover(r.Code == 0, "checktx-accepted")
			sv.Cover(true, "checktx-injected")
		}
	})
	tb1 := svBlock(b, 3, nv, []action.SignedTx{tx}, nil)
	sv.Assert(ta1.equal(tb1), "block-with-injected-bid-checktx-has-the-same-results")
	ta2 := svBlock(a, 4, nv, nil, nil)
	tb2 := svBlock(b, 4, nv, nil, nil)
	sv.Assert(ta2.equal(tb2), "next-block-has-the-same-results")
	sv.Observe("code", ta1.Codes[0])
	sv.Cover(ta1.Codes[0] == 0, "decision-delivered")
}

// SV_C07_deleg_checktx: the network-delegation master store is one object whose
// stores carry a selected prefix; a CheckTx must not leave a selection behind
// that a delivery then uses.
//
// sv:bounds genesis with 2 validators; A and B each with an active network delegation of 100 OLT and a reward balance of 50 OLT, the delegation pool funded accordingly; block 3 carries one delegation transaction of A (delegate, undelegate, withdraw rewards or reinvest, amount symbolic), block 4 is empty; one injected CheckTx of a delegation transaction of B (any of the four kinds, amount symbolic) at any of the 5 call boundaries of block 3
// sv:outside several CheckTx calls; real concurrency
// sv:goal DeliverTx codes / gas / data, validator updates and the ordered write set of both blocks are the same with and without the injected CheckTx
func SV_C07_deleg_checktx() {
	sv.NominalSizes(64)
	nv := 2
	fundA, fundB := svNonNeg("fundA"), svNonNeg("fundB")
	mk := func() *App {
		app := svNewApp()
		svInstallIndexer()
		svGenesisWithValidators(app, []int64{3000000, 3000000})
		svFundOLT(app, svParty_(0).Addr, fundA)
		svFundOLT(app, svParty_(1).Addr, fundB)
		ctx := &app.Context
		ds := ctx.netwkDelegators.Deleg.WithState(ctx.deliver)
		rs := ctx.netwkDelegators.Rewards.WithState(ctx.deliver)
		hundred := new(big.Int).Mul(big.NewInt(100), svWei)
		fifty := new(big.Int).Mul(big.NewInt(50), svWei)
		for i := 0; i < 2; i++ {
			c := svCoin(balance.NewAmountFromBigInt(hundred))
			if err := ds.WithPrefix(netwkDeleg.ActiveType).Set(svParty_(i).Addr, &c); err != nil {
				sv.Unreachable("active delegation")
			}
			if err := rs.AddRewardsBalance(svParty_(i).Addr, balance.NewAmountFromBigInt(fifty)); err != nil {
				sv.Unreachable("reward balance")
			}
		}
		svFundOLT(app, keys.Address(netwkDeleg.DELEGATION_POOL_KEY), new(big.Int).Mul(big.NewInt(200), svWei))
		svFundOLT(app, keys.Address("rewardpool"), new(big.Int).Mul(big.NewInt(1000), svWei))
		svCommitBlock(app)
		return app
	}
	build := func(tag string, party int) action.SignedTx {
		addr := svParty_(party).Addr
		amt := action.Amount{Currency: "OLT", Value: *balance.NewAmountFromBigInt(svNonNeg(tag + ".amount"))}
		var raw action.RawTx
		switch sv.Choice(tag+".kind", 4) {
		case 0:
			raw = svRaw(action.ADD_NETWORK_DELEGATE, &action_nd.AddNetworkDelegation{DelegationAddress: addr, Amount: amt})
		case 1:
			raw = svRaw(action.NETWORK_UNDELEGATE, &action_nd.Undelegate{Delegator: addr, Amount: amt})
		case 2:
			raw = svRaw(action.REWARDS_WITHDRAW_NETWORK_DELEGATE, &action_nd.Withdraw{Delegator: addr, Amount: amt})
		default:
			raw = svRaw(action.REWARDS_REINVEST_NETWORK_DELEGATE, &action_nd.Reinvest{Delegator: addr, Amount: amt})
		}
		return svSign(raw, party)
	}
	a, b := mk(), mk()
	tx := build("blk", 0)
	chk := build("chk", 1)
	where := sv.Choice("inject.at", 5)
	ta1 := svBlock(a, 3, nv, []action.SignedTx{tx}, func(pos int) {
		if pos == where {
			r := svCheckEnvGas(a, chk)
			sv.Cover(r.Code == 0, "checktx-accepted")
		}
	})
	tb1 := svBlock(b, 3, nv, []action.SignedTx{tx}, nil)
	sv.Assert(ta1.equal(tb1), "block-with-injected-delegation-checktx-has-the-same-results")
	ta2 := svBlock(a, 4, nv, nil, nil)
	tb2 := svBlock(b, 4, nv, nil, nil)
	sv.Assert(ta2.equal(tb2), "next-block-has-the-same-results")
	sv.Observe("code", ta1.Codes[0])
	sv.Cover(ta1.Codes[0] == 0, "delivered-ok")
}
