package app

// Bid family (external_apps/bid): BID_CREATE, BID_CONTER_OFFER, BID_CANCEL,
// BID_BIDDER_DECISION, BID_EXPIRE, BID_OWNER_DECISION on a domain name. A bid
// offer locks the bidder's amount (an escrow of the ledger) until the offer is
// replaced, refused, cancelled, expired (refund) or accepted (paid to the owner).

import (
	"fmt"
	"math/big"
	"time"

	"github.com/Oneledger/protocol/action"
	"github.com/Oneledger/protocol/data/balance"
	"github.com/Oneledger/protocol/data/keys"
	"github.com/Oneledger/protocol/data/ons"
	"github.com/Oneledger/protocol/external_apps/bid/bid_action"
	"github.com/Oneledger/protocol/external_apps/bid/bid_data"
	sv "github.com/Oneledger/protocol/zz_sv"
)

const svBidNow = int64(1600000000) // block time of the step

// svBidPre: the conversation between owner A and bidder B about a.ol, and the
// bystander conversation between A and bidder C about the same name.
type svBidPre struct {
	state    int      // 0 no conversation, 1 active with a locked bid offer, 2 active with a counter offer, 3 cancelled
	amount   *big.Int // amount of the active offer (state 1, 2)
	deadline int64
	id, byID bid_data.BidConvId
	byAmount *big.Int
	domOwner int // owner of a.ol: 0 = A (the conversation's owner), 2 = C
	onSale   bool
	expire   int64
}

// svBidLean: the quick tier of the crash harnesses keeps the name with the
// conversation's owner and the conversation active (the thorough tier explores
// the whole pre-state, as the C02 / C06 harnesses always do).
var svBidLean bool

func svBidStore(app *App) *bid_data.BidMasterStore {
	app.Context.extStores.WithState(app.Context.deliver)
	s, err := app.Context.extStores.Get("extBidMaster")
	if err != nil {
		sv.Unreachable("bid master store")
	}
	return s.(*bid_data.BidMasterStore)
}

func svOLTAmount(v *big.Int) action.Amount {
	return action.Amount{Currency: "OLT", Value: *balance.NewAmountFromBigInt(v)}
}

// svBidLocked: the amount the active offer of a conversation keeps locked.
func svBidLocked(bm *bid_data.BidMasterStore, id bid_data.BidConvId) *big.Int {
	off, err := bm.BidOffer.GetActiveOffer(id, bid_data.TypeInvalid)
	if err != nil || off == nil || off.OfferType != bid_data.TypeBidOffer {
		return new(big.Int)
	}
	return new(big.Int).Set(off.Amount.Value.BigInt())
}

func svBidNewID(owner, bidder keys.Address, height int64) bid_data.BidConvId {
	return bid_data.NewBidConv(owner, string(svTop), bid_data.BidAssetOns, bidder, 0, height).BidConvId
}

func svPreBid(pre *svBidPre) func(e *svEnv) {
	return func(e *svEnv) {
		app := e.app
		A, B, C := svParty_(0).Addr, svParty_(1).Addr, svParty_(2).Addr
		// the name
		if !svBidLean {
			pre.domOwner = 2 * sv.Choice("bid.domainOwner", 2)
		}
		pre.expire = sv.Int64("bid.domainExpire")
		sv.Assume(pre.expire >= 0 && pre.expire < 1<<40)
		pre.onSale = sv.Bool("bid.domainOnSale")
		d, err := ons.NewDomain(svParty_(pre.domOwner).Addr, svParty_(pre.domOwner).Addr, string(svTop), 1, "", pre.expire, true)
		if err != nil {
			sv.Unreachable("domain setup")
		}
		if pre.onSale {
			d.OnSaleFlag = true
			d.SalePrice = balance.NewAmount(5)
		}
		if err := app.Context.domains.WithState(app.Context.deliver).Set(d); err != nil {
			sv.Unreachable("domain store")
		}
		bm := svBidStore(app)
		// the bystander conversation: C's locked offer, far deadline
		by := bid_data.NewBidConv(A, string(svTop), bid_data.BidAssetOns, C, svBidNow+1000000, 4)
		pre.byID = by.BidConvId
		pre.byAmount = svNonNeg("bid.bystanderLocked")
		if err := bm.BidConv.WithPrefixType(bid_data.BidStateActive).Set(by); err != nil {
			sv.Unreachable("bystander conversation")
		}
		if err := bm.BidOffer.SetActiveOffer(*bid_data.NewBidOffer(by.BidConvId, bid_data.TypeBidOffer, svBidNow-50, svOLTAmount(pre.byAmount), bid_data.BidAmountLocked)); err != nil {
			sv.Unreachable("bystander offer")
		}
		// the conversation the transactions name
		if svBidLean {
			pre.state = 1 + sv.Choice("bid.state", 2)
		} else {
			pre.state = sv.Choice("bid.state", 4)
		}
		pre.deadline = sv.Int64("bid.deadline")
		sv.Assume(pre.deadline > 0 && pre.deadline < 1<<40)
		conv := bid_data.NewBidConv(A, string(svTop), bid_data.BidAssetOns, B, pre.deadline, 5)
		pre.id = conv.BidConvId
		pre.amount = new(big.Int)
		switch pre.state {
		case 1, 2:
			pre.amount = svNonNeg("bid.offerAmount")
			typ, st := bid_data.TypeBidOffer, bid_data.BidAmountLocked
			if pre.state == 2 {
				typ, st = bid_data.TypeCounterOffer, bid_data.CounterOfferAmount
			}
			if err := bm.BidConv.WithPrefixType(bid_data.BidStateActive).Set(conv); err != nil {
				sv.Unreachable("conversation")
			}
			if err := bm.BidOffer.SetActiveOffer(*bid_data.NewBidOffer(conv.BidConvId, typ, svBidNow-100, svOLTAmount(pre.amount), st)); err != nil {
				sv.Unreachable("offer")
			}
		case 3:
			if err := bm.BidConv.WithPrefixType(bid_data.BidStateCancelled).Set(conv); err != nil {
				sv.Unreachable("conversation")
			}
			bm.BidConv.WithPrefixType(bid_data.BidStateActive)
		}
		// escrow cells: what the active bid offers keep locked (the conversations
		// above and any conversation a BID_CREATE of this step can open)
		ids := []bid_data.BidConvId{pre.id, pre.byID}
		for o := 0; o < e.n; o++ {
			for b := 0; b < e.n; b++ {
				ids = append(ids, svBidNewID(svParty_(o).Addr, svParty_(b).Addr, e.height))
			}
		}
		e.extra = append(e.extra, func(l *svLedger) {
			bm := svBidStore(app)
			for k, id := range ids {
				l.add(fmt.Sprint("bid:lock:", k), "escrow:bid", "OLT", svBidLocked(bm, id))
			}
		})
	}
}

// svBuildBid: the payload's bidder / owner / validator field is the actor, who signs.
func svBuildBid(e *svEnv, pre *svBidPre, kind int, hostile bool) (action.RawTx, []int) {
	i, who := svAnyParty("actor", e.n)
	id := pre.id
	nid := 2
	if hostile {
		nid = 3
	}
	switch sv.Choice("bid.id", nid) {
	case 1:
		id = pre.byID
	case 2: // well-formed id of no conversation
		id = svBidNewID(svParty_(1).Addr, svParty_(1).Addr, 999)
	}
	decision := func() bid_data.BidDecision {
		n := 2
		if hostile {
			n = 3
		}
		return []bid_data.BidDecision{bid_data.AcceptBid, bid_data.RejectBid, 9}[sv.Choice("bid.decision", n)]
	}
	switch kind {
	case 0:
		cid := id
		if sv.Choice("create.new", 2) == 0 {
			cid = ""
		}
		_, owner := svAnyParty("create.owner", 2)
		at := bid_data.BidAssetOns
		if hostile {
			at = []bid_data.BidAssetType{bid_data.BidAssetOns, bid_data.BidAssetExample, 7}[sv.Choice("create.assetType", 3)]
		}
		dl := sv.Int64("create.deadline")
		sv.Assume(dl > -(1<<40) && dl < 1<<40)
		return svRaw(bid_action.BID_CREATE, &bid_action.CreateBid{BidConvId: cid, AssetOwner: owner, AssetName: string(svTop), AssetType: at,
			Bidder: who, Amount: svAnyAmount("amount"), Deadline: dl}), []int{i}
	case 1:
		return svRaw(bid_action.BID_CONTER_OFFER, &bid_action.CounterOffer{BidConvId: id, AssetOwner: who, Amount: svAnyAmount("amount")}), []int{i}
	case 2:
		return svRaw(bid_action.BID_CANCEL, &bid_action.CancelBid{BidConvId: id, Bidder: who}), []int{i}
	case 3:
		return svRaw(bid_action.BID_BIDDER_DECISION, &bid_action.BidderDecision{BidConvId: id, Bidder: who, Decision: decision()}), []int{i}
	case 4:
		return svRaw(bid_action.BID_EXPIRE, &bid_action.ExpireBid{BidConvId: id, ValidatorAddress: who}), []int{i}
	default:
		return svRaw(bid_action.BID_OWNER_DECISION, &bid_action.OwnerDecision{BidConvId: id, Owner: who, Decision: decision()}), []int{i}
	}
}

// svBidEnv: one bid transaction from the family's symbolic pre-state.
func svBidEnv(hostile bool) (*svMore, *svBidPre, int) {
	pre := &svBidPre{}
	kind := sv.Choice("kind", 6)
	m := &svMore{family: 6}
	m.e = svNewEnv(3, 20, svPreBid(pre))
	m.e.app.header.Time = time.Unix(svBidNow, 0).UTC()
	m.raw, m.signers = svBuildBid(m.e, pre, kind, hostile)
	if sv.Tier() > 0 {
		// thorough: the conversation store's selected stage prefix is whatever an earlier
		// handler left (in-memory residue of the shared store object)
		residue := []bid_data.BidConvState{bid_data.BidStateActive, bid_data.BidStateCancelled, bid_data.BidStateSucceed}[sv.Choice("residue.prefix", 3)]
		app := m.e.app
		m.e.beforeDeliver = func() { svBidStore(app).BidConv.WithPrefixType(residue) }
	}
	return m, pre, kind
}

// SV_C02_bid: no value creation by the bid family, with the exact movements.
//
// sv:bounds 3 parties with arbitrary balances; the name a.ol owned by A or by C, on sale or not, any expiry height; a conversation between owner A and bidder B about it: absent, active with a locked bid offer of any amount, active with a counter offer of any amount, or cancelled; any deadline (before or after the block time); a bystander conversation between A and bidder C with a locked offer of any amount; one transaction of the six kinds by any party naming itself, any integer amount in OLT or an unregistered currency, conversation id = the A-B conversation's, the A-C conversation's or (create) empty for a new conversation; mempool-admitted regime
// sv:outside the example asset type; sequences of bid transactions; the block-begin/-end expiry queue
// sv:goal the OLT total of balances, pools and locked bid amounts does not increase; no stored amount (balance, locked offer) is negative; the lock of the conversation the transaction does not name is untouched; after a successful transaction the locked amount and the balances moved exactly as the kind prescribes (create: bidder pays the amount into the lock; counter offer / cancel / refusal / expiry: the locked amount goes back to the bidder; owner acceptance: the locked amount goes to the owner; bidder acceptance: the bidder pays the counter offer to the owner); a bidder never has two active conversations with the same owner about the same name
func SV_C02_bid() {
	svCurrencyLimit = 2
	m, pre, kind := svBidEnv(false)
	e := m.e
	tx := m.sign(false)
	sv.Assume(e.validate(tx))
	l0 := e.ledger()
	resp := e.deliver(tx)
	l1 := e.ledger()
	sv.Observe("code", resp.Code)
	for _, c := range l1.cells {
		sv.Observe(c.Name, c.V)
	}
	sv.Assert(l1.total("OLT").Cmp(l0.total("OLT")) <= 0, "no-value-created:OLT")
	for _, c := range l1.cells {
		sv.Assert(c.V.Sign() >= 0, "no-negative-stored-amount")
	}
	// the conversation the transaction names: A-B's (index 0) or A-C's (index 1);
	// a BID_CREATE with an empty id opens a new one and names neither
	idx := sv.Choice("bid.id", 2)
	fresh := kind == 0 && sv.Choice("create.new", 2) == 0
	bidder, locked, counter := "B", new(big.Int), new(big.Int)
	switch {
	case idx == 1:
		bidder, locked = "C", pre.byAmount
	case pre.state == 1:
		locked = pre.amount
	case pre.state == 2:
		counter = pre.amount
	}
	for k := 0; k < 2; k++ {
		if fresh || k != idx {
			sv.Assert(l1.get(fmt.Sprint("bid:lock:", k)).Cmp(l0.get(fmt.Sprint("bid:lock:", k))) == 0, "conversation-not-named-keeps-its-lock")
		}
	}
	sv.Cover(resp.Code == 0, "delivered-ok")
	sv.Cover(resp.Code != 0, "delivered-fail")
	if resp.Code != 0 {
		return
	}
	// exact movements; net(name) = change of the party's balance without the fee
	actor := svPartyName(m.signers[0])
	fee := new(big.Int).Sub(l1.get("f:pool"), l0.get("f:pool"))
	net := func(name string) *big.Int {
		v := new(big.Int).Sub(l1.get("b:"+name+":OLT"), l0.get("b:"+name+":OLT"))
		if name == actor {
			v.Add(v, fee)
		}
		return v
	}
	lockSum0, lockSum1 := new(big.Int), new(big.Int)
	for k := 0; k < 2+e.n*e.n; k++ {
		lockSum0.Add(lockSum0, l0.get(fmt.Sprint("bid:lock:", k)))
		lockSum1.Add(lockSum1, l1.get(fmt.Sprint("bid:lock:", k)))
	}
	dLock := new(big.Int).Sub(lockSum1, lockSum0)
	balSum := new(big.Int)
	for i := 0; i < e.n; i++ {
		balSum.Add(balSum, net(svPartyName(i)))
	}
	sv.Assert(new(big.Int).Add(balSum, dLock).Sign() == 0, "balances-and-locks-move-one-against-the-other")
	lock1 := l1.get(fmt.Sprint("bid:lock:", idx))
	switch kind {
	case 0:
		// the bidder pays the new amount into the lock (a replaced counter offer held nothing)
		sv.Assert(net(actor).Sign() <= 0 && dLock.Cmp(new(big.Int).Neg(net(actor))) == 0, "create-locks-exactly-what-the-bidder-pays")
		if fresh && sv.Choice("create.owner", 2) == 0 {
			// a new conversation with owner A about a.ol: C already has an active one, B has one in states 1 and 2
			sv.Assert(actor != "C" && !(actor == "B" && (pre.state == 1 || pre.state == 2)), "one-active-conversation-per-owner-asset-and-bidder")
		}
		sv.Cover(true, "ok:create")
	case 1, 2, 4:
		sv.Assert(lock1.Sign() == 0 && net(bidder).Cmp(locked) == 0, "locked-amount-goes-back-to-the-bidder")
		sv.Cover(true, fmt.Sprint("ok:kind", kind))
	case 3:
		// bidder decision on a counter offer: nothing was locked
		if net(bidder).Sign() != 0 {
			sv.Assert(new(big.Int).Neg(net(bidder)).Cmp(counter) == 0 && net("A").Cmp(counter) == 0, "bidder-acceptance-pays-the-counter-offer-to-the-owner")
		}
		sv.Assert(dLock.Sign() == 0, "bidder-decision-moves-no-lock")
		sv.Cover(true, "ok:bidder-decision")
	default:
		if net("A").Sign() != 0 {
			sv.Assert(net("A").Cmp(locked) == 0 && net(bidder).Sign() == 0, "owner-acceptance-pays-the-locked-amount-to-the-owner")
		} else {
			sv.Assert(net(bidder).Cmp(locked) == 0, "owner-refusal-returns-the-locked-amount")
		}
		sv.Assert(lock1.Sign() == 0, "owner-decision-clears-the-lock")
		sv.Cover(true, "ok:owner-decision")
	}
}

// SV_C03_bid: only the signer is debited by a bid transaction.
//
// sv:bounds as SV_C02_bid
// sv:outside as SV_C02_bid; the locked amount of an offer is not counted as the bidder's holdings (the bidder signed it away when bidding), so an owner's acceptance debits nobody
// sv:goal the holdings of every party that did not sign do not decrease
func SV_C03_bid() {
	svCurrencyLimit = 2
	m, _, _ := svBidEnv(false)
	svMoreC03(m)
}

// SV_C06_bid_noop: a failed bid transaction leaves no trace.
//
// sv:bounds as SV_C02_bid, in both regimes (admitted / delivered directly)
// sv:goal Code != 0 implies the block-level write cache and every ledger cell are unchanged
func SV_C06_bid_noop() {
	svCurrencyLimit = 2
	m, _, _ := svBidEnv(false)
	svMoreC06(m)
}

// SV_C18_bid_admitted: no crash for the bid family on the mempool path.
//
// sv:bounds as SV_C02_bid (quick tier: the name stays with the conversation's owner and the conversation is active; thorough: the whole pre-state) plus hostile payloads: unknown asset type, the example asset type, decisions outside the enumeration, a well-formed id of no conversation, a registered foreign currency
// sv:outside as SV_C18_more_admitted
// sv:goal no path ends in a panic, os.Exit (logger.Fatal) or application close
func SV_C18_bid_admitted() {
	svCurrencyLimit = 3
	svBidLean = sv.Tier() == 0
	sv.CrashIsViolation("admitted-tx-crashes-node")
	m, _, _ := svBidEnv(true)
	svMoreC18Admitted(m)
}

// SV_C18_bid_unvalidated: the same transactions delivered directly in a block.
//
// sv:bounds as SV_C18_bid_admitted without the admission; additionally 0 signatures
// sv:goal no path ends in a panic, os.Exit (logger.Fatal) or application close
func SV_C18_bid_unvalidated() {
	svCurrencyLimit = 3
	svBidLean = sv.Tier() == 0
	sv.CrashIsViolation("delivered-tx-crashes-node")
	m, _, _ := svBidEnv(true)
	svMoreC18Unvalidated(m)
}

// SV_C20_bid_exchange: a bid moves a name only on its owner's word.
//
// sv:bounds as SV_C02_bid
// sv:outside as SV_C02_bid
// sv:goal after any bid transaction the owner of a.ol is unchanged unless the transaction is the acceptance, signed by the current owner of the name, of the bidder's locked offer, or the bidder's acceptance of a counter offer made by the current owner of the name; the new owner is then the conversation's bidder; the name is never moved while it is on sale or expired
func SV_C20_bid_exchange() {
	svCurrencyLimit = 1
	m, pre, kind := svBidEnv(false)
	e := m.e
	tx := m.sign(false)
	sv.Assume(e.validate(tx))
	resp := e.deliver(tx)
	sv.Observe("code", resp.Code)
	d, err := e.app.Context.domains.WithState(e.app.Context.deliver).Get(svTop)
	sv.Assert(err == nil, "name-still-there")
	if err != nil {
		return
	}
	old := svParty_(pre.domOwner).Addr
	sv.Observe("owner", d.Owner.String())
	if !d.Owner.Equal(old) {
		// the conversation named: A-B's (its state is the pre-state's) or A-C's (a locked offer)
		idx := sv.Choice("bid.id", 2)
		bidder, st := 1, pre.state
		if idx == 1 {
			bidder, st = 2, 1
		}
		actor := m.signers[0]
		byOwner := kind == 5 && actor == pre.domOwner && pre.domOwner == 0 && st == 1
		byBidder := kind == 3 && actor == bidder && st == 2 && pre.domOwner == 0
		sv.Assert(resp.Code == 0 && (byOwner || byBidder), "name-moves-only-on-its-owners-word")
		sv.Assert(d.Owner.Equal(svParty_(bidder).Addr), "name-goes-to-the-bidder")
		sv.Assert(!pre.onSale && pre.expire > 1, "no-exchange-of-a-name-on-sale-or-expired")
		sv.Cover(true, "exchanged")
	}
	sv.Cover(resp.Code == 0, "delivered-ok")
}
