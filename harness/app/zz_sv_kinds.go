package app

// Havoc messages of each transaction kind over the universe.

import (
	"github.com/Oneledger/protocol/action"
	"github.com/Oneledger/protocol/action/transfer"
	"github.com/Oneledger/protocol/data/balance"
	"github.com/Oneledger/protocol/data/keys"
	sv "github.com/Oneledger/protocol/zz_sv"
)

var svCurrencyNames = []string{"OLT", "XXX", "ETH", ""}

var svPoolNames = []string{"DelegationPool", "RewardsPool", "BountyPool", "FeePool", "NoSuchPool"}

// svCurrencyLimit restricts svAnyAmount to the first k currency names (0 = all).
var svCurrencyLimit = 0

// svAnyAmount: any integer value in any of the currency names.
func svAnyAmount(name string) action.Amount {
	k := len(svCurrencyNames)
	if svCurrencyLimit > 0 && svCurrencyLimit < k {
		k = svCurrencyLimit
	}
	cur := svCurrencyNames[sv.Choice(name+".currency", k)]
	return action.Amount{Currency: cur, Value: *balance.NewAmountFromBigInt(sv.BigInt(name + ".value"))}
}

// svAnyParty picks a party address (role choice).
func svAnyParty(name string, n int) (int, keys.Address) {
	i := sv.Choice(name, n)
	return i, svParty_(i).Addr
}

func svRaw(t action.Type, msg action.Msg) action.RawTx {
	data, err := msg.Marshal()
	if err != nil {
		sv.Unreachable("marshal")
	}
	return action.RawTx{Type: t, Data: data, Fee: svFee("OLT"), Memo: "m"}
}

// every kind's builder returns the raw transaction; party 0 always signs
// (whether it is the party the payload names is the builder's choice)

func svBuildSend(e *svEnv) action.RawTx {
	_, from := svAnyParty("from", e.n)
	_, to := svAnyParty("to", e.n)
	return svRaw(action.SEND, &transfer.Send{From: from, To: to, Amount: svAnyAmount("amount")})
}

func svBuildSendPool(e *svEnv) action.RawTx {
	_, from := svAnyParty("from", e.n)
	pool := svPoolNames[sv.Choice("pool", len(svPoolNames))]
	return svRaw(action.SENDPOOL, &transfer.SendPool{From: from, PoolName: pool, Amount: svAnyAmount("amount")})
}
