package app

// C13 — the split of the pulled block reward (handleBlockRewards).

import (
	"fmt"
	"math/big"

	abci "github.com/tendermint/tendermint/abci/types"
	"github.com/tendermint/tendermint/libs/kv"

	"github.com/Oneledger/protocol/data/balance"
	"github.com/Oneledger/protocol/data/keys"
	netwkDeleg "github.com/Oneledger/protocol/data/network_delegation"
	"github.com/Oneledger/protocol/identity"
	sv "github.com/Oneledger/protocol/zz_sv"
)

// SV_C13_split: one BeginBlock reward distribution.
//
// sv:bounds 2 validators in the last commit with arbitrary voting powers (1 <= p < 2^40), thorough: a third one with power 1, 1000 or 2^39, each having signed or not (symbolic), any one of them the proposer; delegation pool balance arbitrary (0 included) with 2 delegators whose active amounts are arbitrary and sum to at most the pool; rewards pool arbitrary; block height 7 (first cycle, schedule running, genesis options)
// sv:outside more than 3 validators / 2 delegators; three symbolic powers at once (solver unknown: reduced bound); the matured-chunk bookkeeping of validator rewards (interval boundaries); heights other than 7
// sv:goal the rewards credited to validators (incl. commission and proposer share) and to delegators together do not exceed the amount pulled for the block, and the amount recorded as distributed equals what ConsumeRewards was given (at most the pulled amount)
func SV_C13_split() {
	app := svNewApp()
	svGenesis(app, svDefaultState())
	ctx := &app.Context
	ctx.SetBlockStore(sv.BlockStore([]int64{1}, []int64{1600000000}))
	vs := ctx.validators.WithState(ctx.deliver)
	nv := 2 + sv.Tier()
	var votes []abci.VoteInfo
	for i := 0; i < nv; i++ {
		p := svParty_(i)
		v := identity.NewValidator(p.Addr, p.Addr, p.Pub, p.Pub, *balance.NewAmount(0), fmt.Sprint("node", i))
		if err := vs.Set(*v); err != nil {
			sv.Unreachable("validator setup")
		}
		power := sv.Int64(fmt.Sprint("power", i))
		sv.Assume(power >= 1 && power < 1<<40) // Tendermint: a validator in the commit has positive power
		if i == 2 {
			// third validator (thorough tier): power from a concrete set (three
			// symbolic powers leave nonlinear goals the solvers answer unknown on)
			power = []int64{1, 1000, 1 << 39}[sv.Choice("power2", 3)]
		}
		votes = append(votes, abci.VoteInfo{Validator: abci.Validator{Address: p.Addr, Power: power}, SignedLastBlock: sv.Bool(fmt.Sprint("signed", i))})
	}
	// delegation pool and delegators
	pool := svNonNeg("delegationPool")
	svFundOLT(app, keys.Address(netwkDeleg.DELEGATION_POOL_KEY), pool)
	ds := ctx.netwkDelegators.Deleg.WithState(ctx.deliver)
	sum := new(big.Int)
	for d := 0; d < 2; d++ {
		a := svNonNeg(fmt.Sprint("active", d))
		sum.Add(sum, a)
		c := svCoin(balance.NewAmountFromBigInt(a))
		ds.WithPrefix(netwkDeleg.ActiveType).Set(svAddr(d), &c)
	}
	sv.Assume(sum.Cmp(pool) <= 0)
	rewardsPool := svNonNeg("rewardsPool")
	svFundOLT(app, keys.Address("rewardpool"), rewardsPool)
	svCommitBlock(app)
	svFreshDeliver(app)

	height := int64(7)
	// what the schedule gives for this block (PullRewards is a function of the committed records)
	pulled, err := ctx.rewardMaster.WithState(ctx.deliver).RewardCm.PullRewards(height, balance.NewAmountFromBigInt(rewardsPool))
	if err != nil {
		sv.Unreachable("pull")
	}
	proposer := sv.Choice("proposer", nv)
	req := RequestBeginBlock{Header: abci.Header{Height: height, ProposerAddress: svParty_(proposer).Addr},
		LastCommitInfo: abci.LastCommitInfo{Votes: votes}}
	handleBlockRewards(ctx, req, app.logger)

	credited := new(big.Int)
	rm := ctx.rewardMaster.WithState(ctx.deliver)
	for i := 0; i < nv; i++ {
		a, err := rm.Reward.GetWithHeight(svParty_(i).Addr, height)
		sv.Assert(err == nil, "validator-reward-readable")
		sv.Assert(a.BigInt().Sign() >= 0, "validator-reward-non-negative")
		credited.Add(credited, a.BigInt())
		sv.Observe(fmt.Sprint("valReward", i), a.BigInt())
	}
	rs := ctx.netwkDelegators.Rewards.WithState(ctx.deliver)
	for d := 0; d < 2; d++ {
		a, err := rs.GetRewardsBalance(svAddr(d))
		sv.Assert(err == nil, "delegator-reward-readable")
		sv.Assert(a.BigInt().Sign() >= 0, "delegator-reward-non-negative")
		credited.Add(credited, a.BigInt())
		sv.Observe(fmt.Sprint("delegReward", d), a.BigInt())
	}
	sv.Assert(credited.Cmp(pulled.BigInt()) <= 0, "credited-rewards-within-the-pulled-amount")
	dist, err := rm.RewardCm.GetTotalDistributedRewards()
	sv.Assert(err == nil && dist.BigInt().Cmp(pulled.BigInt()) <= 0, "recorded-distribution-within-the-pulled-amount")
	sv.Cover(credited.Sign() > 0, "something-credited")
	sv.Cover(pool.Sign() == 0, "no-delegation")
	sv.Cover(pool.Sign() > 0, "with-delegation")
	sv.Observe("pulled", pulled.BigInt())
}

// SV_C13_delegation_split: handleDelegationRewards, the delegators' part of a
// block reward.
//
// sv:bounds total block reward T symbolic (0 <= T < 2^100); validator power V symbolic (1 <= V < 2^40 whole units); two delegators whose active amounts come from the table {1:1, 3:1, 1:0, 7:2} (concrete, so that each share is a division by a constant), the delegation power being their sum; any proposer
// sv:outside symbolic delegation amounts (a product of two unknowns divided by a third: solver unknown); more delegators
// sv:goal the delegators' new reward claims sum to at most the amount scheduled for delegators (reward share minus commission), commission and proposer cut are the configured fractions, and delegators' claims + commission + proposer cut never exceed the delegation pool's share of T
func SV_C13_delegation_split() {
	app := svNewApp()
	svGenesis(app, svDefaultState())
	ctx := &app.Context
	amounts := [][2]int64{{1, 1}, {3, 1}, {1, 0}, {7, 2}}[sv.Choice("delegations", 4)]
	ds := ctx.netwkDelegators.Deleg.WithState(ctx.deliver)
	dp := int64(0)
	for d := 0; d < 2; d++ {
		c := svCoin(balance.NewAmountFromBigInt(new(big.Int).Mul(big.NewInt(amounts[d]), svWei)))
		ds.WithPrefix(netwkDeleg.ActiveType).Set(svAddr(d), &c)
		dp += amounts[d]
	}
	svCommitBlock(app)
	svFreshDeliver(app)
	T := svNonNeg("T")
	sv.Assume(T.Cmp(new(big.Int).Lsh(big.NewInt(1), 100)) < 0)
	V := sv.Int64("validatorPower")
	sv.Assume(V >= 1 && V < 1<<40)
	delegPower := new(big.Int).Mul(big.NewInt(dp), svWei)
	totalPower := new(big.Int).Add(new(big.Int).Mul(big.NewInt(V), svWei), delegPower)
	rw := func() []*big.Int {
		var out []*big.Int
		rs := app.Context.netwkDelegators.WithState(app.Context.deliver).Rewards
		for d := 0; d < 2; d++ {
			b, err := rs.GetRewardsBalance(svAddr(d))
			if err != nil {
				sv.Unreachable("reward balance")
			}
			out = append(out, b.BigInt())
		}
		return out
	}
	before := rw()
	resp := handleDelegationRewards(&netwkDeleg.DelegationRewardCtx{TotalRewards: balance.NewAmountFromBigInt(T), DelegationPower: delegPower,
		TotalPower: totalPower, Height: 7, ProposerAddress: svParty_(0).Addr}, &app.Context, map[string]kv.Pair{})
	after := rw()
	claims := new(big.Int)
	for d := 0; d < 2; d++ {
		g := new(big.Int).Sub(after[d], before[d])
		sv.Assert(g.Sign() >= 0, "delegator-reward-non-negative")
		claims.Add(claims, g)
	}
	sv.Assert(claims.Cmp(resp.DelegationRewards.BigInt()) <= 0, "delegators'-claims-within-the-amount-scheduled-for-them")
	// the pool's share of T
	share := new(big.Int).Mul(T, delegPower)
	share.Div(share, totalPower)
	all := new(big.Int).Add(claims, resp.Commission.BigInt())
	all.Add(all, resp.ProposerReward.BigInt())
	sv.Assert(all.Cmp(share) <= 0, "delegation-side-never-exceeds-the-pool's-share-of-the-block-reward")
	sv.Observe("claims", claims)
	sv.Cover(claims.Sign() > 0, "something-claimed")
}

// SV_C02_delegation_reward_split: the same exploration as
// SV_C13_delegation_split, registered for C02: reward claims beyond the amount
// scheduled for delegators are unbacked value.
//
// sv:bounds as SV_C13_delegation_split
// sv:outside as SV_C13_delegation_split
// sv:goal as SV_C13_delegation_split
func SV_C02_delegation_reward_split() { SV_C13_delegation_split() }
