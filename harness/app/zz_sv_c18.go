package app

// C18 — no crash: hostile signature bytes.

import (
	sv "github.com/Oneledger/protocol/zz_sv"
)

// SV_C18_signature_shapes: hostile signature bytes crash neither CheckTx nor DeliverTx.
//
// sv:bounds as SV_C04_signature_shapes (13 byte strings in the signature slot of a concrete SEND), through the real CheckTx and then the real DeliverTx
// sv:outside as SV_C04_signature_shapes
// sv:goal no path ends in a panic, os.Exit or application close
func SV_C18_signature_shapes() {
	sv.CrashIsViolation("hostile-signature-crashes-node")
	e := svNewEnv(2, 2, nil)
	tx, _ := svShapedSigTx()
	c := svCheckEnvGas(e.app, tx)
	d := svDeliver(e.app, tx)
	sv.Observe("check", c.Code)
	sv.Observe("deliver", d.Code)
	sv.Cover(c.Code != 0, "refused-by-checktx")
}
