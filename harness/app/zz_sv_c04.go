package app

// C04 — only authentically signed, untampered transactions are admitted or
// executed. C05 — at most once.

import (
	"math/big"

	"github.com/Oneledger/protocol/action"
	action_eth "github.com/Oneledger/protocol/action/eth"
	action_gov "github.com/Oneledger/protocol/action/governance"
	"github.com/Oneledger/protocol/action/transfer"
	"github.com/Oneledger/protocol/data/balance"
	"github.com/Oneledger/protocol/data/keys"
	"github.com/Oneledger/protocol/data/governance"
	"github.com/Oneledger/protocol/identity"
	tmtypes "github.com/tendermint/tendermint/types"

	sv "github.com/Oneledger/protocol/zz_sv"
)

// svTamper returns a copy of the raw transaction in which one signed field
// (the dimension is a choice) differs by a symbolic amount; `changed` tells
// whether the copy really differs.
func svTamper(e *svEnv, raw action.RawTx) (action.RawTx, bool) {
	t := raw
	switch sv.Choice("tamper.field", 5) {
	case 0:
		dGas := sv.Int64("tamper.gas")
		sv.Assume(dGas > -1000 && dGas < 1000)
		t.Fee.Gas = raw.Fee.Gas + dGas
		return t, dGas != 0
	case 1:
		dPrice := sv.BigInt("tamper.price")
		np := new(big.Int).Add(dPrice, raw.Fee.Price.Value.BigInt())
		t.Fee.Price.Value = *balance.NewAmountFromBigInt(np)
		return t, dPrice.Sign() != 0
	case 2:
		t.Memo = raw.Memo + "x"
		return t, true
	case 3:
		t.Type = action.SENDPOOL
		return t, true
	}
	t.Fee.Price.Currency = "ETH"
	return t, true
}

// SV_C04_admission_send: a SEND whose signature list is arbitrary: 0..2
// signatures, each by any party's key, each made either over exactly this
// transaction's signed content, or over a copy in which fee gas, fee price,
// fee currency, memo, type or payload amount differ, or not a signature at all.
//
// sv:bounds SEND between any of 3 parties; 0..1 signatures (quick) / 0..2 (thorough); signer key of each any party; each signature made over the transaction, over a tampered copy (fee gas/price by symbolic deltas, fee currency, memo, type, payload amount by a symbolic delta) or 64 zero bytes; ed25519 keys (the functional signature stub: verify(pk, m, sign(sk, m')) iff same key and m = m')
// sv:outside the cryptography itself; the other three key algorithms (data/keys per-algorithm code); the JSON envelope parser
// sv:goal Validate accepts implies: exactly one signature, made by the key of the payload's From address, over content identical to the transaction's type, payload, fee and memo
func SV_C04_admission_send() {
	e := svNewEnv(3, 2, nil)
	_, from := svAnyParty("from", e.n)
	_, to := svAnyParty("to", e.n)
	amt := svNonNeg("amount")
	mk := func(a *balance.Amount) action.RawTx {
		return svRaw(action.SEND, &transfer.Send{From: from, To: to, Amount: action.Amount{Currency: "OLT", Value: *a}})
	}
	raw := mk(balance.NewAmountFromBigInt(amt))
	tx := action.SignedTx{RawTx: raw}
	nsig := sv.Choice("nsig", 2+sv.Tier()) // quick: 0..1 signatures, thorough: 0..2
	okSigs := true
	for i := 0; i < nsig; i++ {
		name := "sig" + string(rune('0'+i))
		who := sv.Choice(name+".key", e.n)
		p := svParty_(who)
		var signed []byte
		switch sv.Choice(name+".over", 3) {
		case 0:
			signed, _ = p.Priv.Sign(raw.RawBytes())
		case 1:
			var t action.RawTx
			var changed bool
			if sv.Choice(name+".tamper.payload", 2) == 1 {
				d := sv.BigInt(name + ".tamper.amount")
				t = mk(balance.NewAmountFromBigInt(new(big.Int).Add(d, amt)))
				t.Fee, t.Memo = raw.Fee, raw.Memo
				changed = d.Sign() != 0
			} else {
				t, changed = svTamper(e, raw)
			}
			signed, _ = p.Priv.Sign(t.RawBytes())
			if changed {
				okSigs = false
			}
		case 2:
			signed = make([]byte, 64)
			okSigs = false
		}
		if !p.Addr.Equal(from) {
			okSigs = false
		}
		tx.Signatures = append(tx.Signatures, action.Signature{Signer: p.Pub, Signed: signed})
	}
	ok := e.validate(tx)
	if ok {
		sv.Assert(nsig == 1, "admitted-with-exactly-the-required-signatures")
		sv.Assert(okSigs, "admitted-only-with-authentic-signature-over-exact-content")
		sv.Cover(true, "admitted")
	}
	sv.Cover(!ok, "rejected")
	sv.Observe("ok", ok)
}

// SV_C04_admission_two_signers: a kind with two required signers (governance
// vote: the voter account and the validator) and an arbitrary signature list.
//
// sv:bounds PROPOSAL_VOTE naming any of 3 parties as voter and as validator (all three are validators); 0..2 signatures (thorough: 0..3); each slot: the key of any party, the signature made over this transaction / over a copy with another memo / 64 zero bytes / the very bytes of the previous slot's signature (a repeated signature)
// sv:outside the cryptography itself; other key algorithms; the other two-signer kinds (STAKE, UNSTAKE, WITHDRAW share ValidateBasic and the same Signers() shape)
// sv:goal Validate accepts implies: exactly two signatures, slot 0 by the voter's key and slot 1 by the validator's key, each over exactly this transaction
func SV_C04_admission_two_signers() {
	svCurrencyLimit = 1
	pre := &svVotePre{}
	svLean = true
	e := svNewEnv(3, 20, func(e *svEnv) {
		svPreVote(pre, 0)(e)
		// all three parties are validators so that any of them can be named
		if !pre.isVal[2] {
			p := svParty_(2)
			v := identity.NewValidator(p.Addr, p.Addr, p.Pub, p.Pub, *balance.NewAmount(1), "nC")
			v.Power = 1
			if err := e.app.Context.validators.WithState(e.app.Context.deliver).Set(*v); err != nil {
				sv.Unreachable("validator")
			}
		}
	})
	svLean = false
	voter := sv.Choice("voter", e.n)
	val := sv.Choice("validator", e.n)
	raw := svRaw(action.PROPOSAL_VOTE, &action_gov.VoteProposal{ProposalID: svPropID, Address: svParty_(voter).Addr, ValidatorAddress: svParty_(val).Addr, Opinion: governance.OPIN_POSITIVE})
	tx := action.SignedTx{RawTx: raw}
	nsig := sv.Choice("nsig", 3+sv.Tier())
	authentic := make([]bool, 0, 3) // by the required signer's key over this transaction
	genuine := make([]bool, 0, 3)   // by the slot's own key over this transaction
	for i := 0; i < nsig; i++ {
		name := "sig" + string(rune('0'+i))
		who := sv.Choice(name+".key", e.n)
		p := svParty_(who)
		var signed []byte
		good := false
		nover := 3
		if i > 0 {
			nover = 4
		}
		switch sv.Choice(name+".over", nover) {
		case 0:
			signed, _ = p.Priv.Sign(raw.RawBytes())
			good = true
		case 1:
			t := raw
			t.Memo = raw.Memo + "x"
			signed, _ = p.Priv.Sign(t.RawBytes())
		case 2:
			signed = make([]byte, 64)
		default:
			// the previous slot's signature bytes again (authentic only if that one
			// was made by this slot's key over this transaction)
			signed = tx.Signatures[i-1].Signed
			good = genuine[i-1] && string(tx.Signatures[i-1].Signer.Data) == string(p.Pub.Data)
		}
		need := voter
		if i == 1 {
			need = val
		}
		genuine = append(genuine, good)
		authentic = append(authentic, good && (i >= 2 || who == need))
		tx.Signatures = append(tx.Signatures, action.Signature{Signer: p.Pub, Signed: signed})
	}
	ok := e.validate(tx)
	if ok {
		sv.Assert(nsig == 2, "admitted-with-exactly-the-two-required-signatures")
		if nsig >= 2 {
			sv.Assert(authentic[0] && authentic[1], "each-required-signer-signed-exactly-this-transaction")
		}
		sv.Cover(true, "admitted")
	}
	sv.Cover(!ok, "rejected")
	sv.Observe("ok", ok)
}

// SV_C04_deliver_requires_validation (obligation D): a transaction that
// Validate rejects must not take effect when delivered in a block.
//
// sv:bounds SEND from party B to A with a valid-looking envelope but signed by A's key only (B never signed); arbitrary amount >= 0 and balances
// sv:goal DeliverTx returns a non-zero code (or changes nothing) for a transaction the real Validate rejects
func SV_C04_deliver_requires_validation() {
	e := svNewEnv(2, 2, nil)
	amt := svNonNeg("amount")
	raw := svRaw(action.SEND, &transfer.Send{From: svParty_(1).Addr, To: svParty_(0).Addr,
		Amount: action.Amount{Currency: "OLT", Value: *balance.NewAmountFromBigInt(amt)}})
	tx := svSign(raw, 0) // signed by A, spends B's funds
	sv.Assert(!e.validate(tx), "mempool-rejects-wrong-signer")
	l0 := e.ledger()
	resp := svDeliver(e.app, tx)
	l1 := e.ledger()
	sv.Assert(resp.Code != 0 || l1.holdings("B").Cmp(l0.holdings("B")) >= 0, "unsigned-spend-has-no-effect-when-delivered")
	sv.Cover(resp.Code == 0, "delivered-ok")
	sv.Observe("code", resp.Code)
	sv.Observe("B", l1.holdings("B"))
}

// svIndexTx records a delivered transaction in the node's transaction index
// (what Tendermint does after the block is committed).
func svIndexTx(x *svIndexer, height int64, raw []byte, res ResponseDeliverTx) {
	x.Index(&tmtypes.TxResult{Height: height, Index: 0, Tx: raw, Result: res})
}

// SV_C05_byte_identical_replay: after a transaction was executed and indexed,
// the same bytes are refused by CheckTx and change nothing when delivered again.
//
// sv:bounds one SEND (any roles among 2 parties, arbitrary amount/fee/balances) included in block 2 with whatever result (ok or failed) and indexed; the sender's balance then grows by an arbitrary amount; resubmission at height 3
// sv:outside Tendermint's indexer itself (an in-memory index with the same Get contract is installed)
// sv:goal CheckTx of the resubmission is not OK; DeliverTx of it leaves every ledger cell unchanged
func SV_C05_byte_identical_replay() {
	e := svNewEnv(2, 2, nil)
	x := svInstallIndexer()
	tx := svSign(svBuildSend(e), 0)
	sv.Assume(e.validate(tx))
	raw := svEncode(tx)
	res := e.app.txDeliverer()(RequestDeliverTx{Tx: raw})
	sv.Cover(res.Code == 0, "first-execution-ok")
	sv.Cover(res.Code != 0, "first-execution-failed")
	svIndexTx(x, 2, raw, res) // included in block 2, whatever its result
	svCommitBlock(e.app)
	svOpenBlock(e.app, 3)
	// the state moves on: the sender receives an arbitrary amount (a transaction
	// that failed for lack of funds could now succeed)
	svFundOLT(e.app, svParty_(0).Addr, svNonNeg("topup"))
	l0 := e.ledger()
	chk := e.app.txChecker()(RequestCheckTx{Tx: raw})
	sv.Assert(chk.Code != 0, "resubmission-refused-by-mempool")
	e.app.txDeliverer()(RequestDeliverTx{Tx: raw})
	l1 := e.ledger()
	for k, c := range l1.cells {
		sv.Assert(c.V.Cmp(l0.cells[k].V) == 0, "resubmission-changes-nothing")
	}
	sv.Cover(true, "replayed")
}

// SV_C05_reencoded_replay: the same signed content in another byte encoding
// (the signature is over a re-serialisation of the parsed transaction, so it
// still verifies).
//
// sv:bounds as SV_C05_byte_identical_replay; the resubmission is the same JSON document with insignificant whitespace appended
// sv:outside the unbounded set of other re-encodings (one witness per class refutes; nothing here can prove their absence)
// sv:goal the re-encoded resubmission is refused by CheckTx and changes nothing when delivered
func SV_C05_reencoded_replay() {
	e := svNewEnv(2, 2, nil)
	x := svInstallIndexer()
	tx := svSign(svBuildSend(e), 0)
	sv.Assume(e.validate(tx))
	raw := svEncode(tx)
	res := e.app.txDeliverer()(RequestDeliverTx{Tx: raw})
	sv.Assume(res.Code == 0)
	svIndexTx(x, 2, raw, res)
	svCommitBlock(e.app)
	svOpenBlock(e.app, 3)
	raw2 := sv.Reencode(raw)
	l0 := e.ledger()
	chk := e.app.txChecker()(RequestCheckTx{Tx: raw2})
	sv.Assert(chk.Code != 0, "reencoded-resubmission-refused-by-mempool")
	res2 := e.app.txDeliverer()(RequestDeliverTx{Tx: raw2})
	l1 := e.ledger()
	same := true
	for k, c := range l1.cells {
		if c.V.Cmp(l0.cells[k].V) != 0 {
			same = false
		}
	}
	sv.Assert(res2.Code != 0 || same, "reencoded-resubmission-changes-nothing")
	sv.Cover(true, "replayed")
}

// svShapedSigTx: a fully concrete SEND A -> B whose single signature slot
// carries A's key and bytes of a chosen shape, none of them a signature: the
// byte-level acceptance rules in front of the verifier (length, the optional
// hash tag of hardware-wallet signatures) decide alone.
func svShapedSigTx() (action.SignedTx, int) {
	msg := &transfer.Send{From: svParty_(0).Addr, To: svParty_(1).Addr, Amount: action.Amount{Currency: "OLT", Value: *balance.NewAmount(1)}}
	data, err := msg.Marshal()
	if err != nil {
		sv.Unreachable("marshal")
	}
	raw := action.RawTx{Type: action.SEND, Data: data, Memo: "m",
		Fee: action.Fee{Price: action.Amount{Currency: "OLT", Value: *balance.NewAmount(2000000000)}, Gas: 100000}}
	tagged := func(tag string, n int) []byte { return append([]byte(tag), make([]byte, n)...) }
	shapes := [][]byte{
		{},                    // nothing
		make([]byte, 1),       // one byte
		make([]byte, 63),      // one short
		make([]byte, 64),      // the right length, not a signature
		make([]byte, 65),      // one long, no tag
		make([]byte, 70),      // tag-sized prefix of zero bytes
		tagged("SHA256", 64),  // tagged, pre-hash path
		tagged("SHA224", 64),  // tagged, pre-hash path
		tagged("SHA384", 64),  // tagged, pre-hash path
		tagged("SHA512", 59),  // tagged, 65 bytes in all
		tagged("SHA999", 64),  // unknown tag
		tagged("SHA256", 0),   // a bare tag
		tagged("sha256", 100), // lower-case tag, long
	}
	k := sv.Choice("sig.shape", len(shapes))
	return action.SignedTx{RawTx: raw, Signatures: []action.Signature{{Signer: svParty_(0).Pub, Signed: shapes[k]}}}, k
}

// SV_C04_signature_shapes: bytes that are not a signature are not accepted
// whatever their length and prefix.
//
// sv:bounds one concrete SEND A -> B (1 OLT, valid fee); the signature slot holds A's own key and one of 13 byte strings: empty, 1, 63, 64, 65, 70 zero bytes, the tags SHA224/256/384/512 followed by zero bytes (the hardware-wallet pre-hash format), an unknown tag, a bare tag, a lower-case tag
// sv:outside genuine pre-hash signatures (the signature model has no byte length); the other key algorithms
// sv:goal Validate refuses every one of them
func SV_C04_signature_shapes() {
	e := svNewEnv(2, 2, nil)
	tx, _ := svShapedSigTx()
	ok := e.validate(tx)
	sv.Assert(!ok, "bytes-that-are-no-signature-are-refused")
	sv.Cover(!ok, "rejected")
	sv.Observe("ok", ok)
}

// svWrongSigner: the builders return the parties the payload names in its
// signing roles (owner, bidder, validator, voter, ...); one of the signature
// slots is filled by another party instead. Validate must refuse.
func svWrongSigner(e *svEnv, raw action.RawTx, signers []int) {
	k := sv.Choice("wrong.slot", len(signers))
	wrong := append([]int{}, signers...)
	wrong[k] = (signers[k] + 1 + sv.Choice("wrong.offset", e.n-1)) % e.n
	ok := e.validate(svSign(raw, wrong...))
	sv.Assert(!ok, "transaction-signed-by-another-party-is-refused")
	sv.Cover(!ok, "refused")
	sv.Observe("ok", ok)
}

// SV_C04_wrong_signer_first: staking, network delegation and domain-name kinds.
//
// sv:bounds the pre-states and payloads of SV_C06_failed_tx_noop for STAKE, UNSTAKE, WITHDRAW (two signers), the four network delegation kinds and the seven domain-name kinds; every required signature present and made over exactly this transaction, but one slot (any) is signed by another party (any) with its own key
// sv:outside SEND / SENDPOOL (SV_C04_admission_send); forged content (SV_C04_admission_*); other key algorithms
// sv:goal Validate refuses
func SV_C04_wrong_signer_first() {
	svLean = true
	var e *svEnv
	var raw action.RawTx
	var signers []int
	switch sv.Choice("family", 3) {
	case 0:
		e = svNewEnv(3, 20, svPreStaking)
		switch sv.Choice("kind", 3) {
		case 0:
			raw, signers = svBuildStake(e)
		case 1:
			raw, signers = svBuildUnstake(e)
		default:
			raw, signers = svBuildStakeWithdraw(e)
		}
	case 1:
		e = svNewEnv(2, 20, svPreDeleg)
		raw, signers = svBuildAnyDeleg(e)
	default:
		svCurrencyLimit = 1
		pre := &svDomainPre{}
		e = svNewEnv(2, 20, svPreONS(pre))
		raw, signers = svBuildONS(e, sv.Choice("kind", 7))
	}
	svWrongSigner(e, raw, signers)
}

// SV_C04_wrong_signer_more: evidence, governance, reward withdrawal, Ethereum
// lock / redeem / report kinds.
//
// sv:bounds the families of SV_C02_more except OLVM (its signature is the secp256k1 model of SV_C17_olvm_step), reduced pre-states; one slot signed by another party
// sv:outside as SV_C04_wrong_signer_first
// sv:goal Validate refuses
func SV_C04_wrong_signer_more() {
	m := svMoreKindEnv(false)
	if m.olvm {
		sv.Assume(false)
	}
	svWrongSigner(m.e, m.raw, m.signers)
}

// SV_C04_wrong_signer_bid: the six kinds of the bid application.
//
// sv:bounds as SV_C02_bid with the conversation active; one slot signed by another party
// sv:goal Validate refuses
func SV_C04_wrong_signer_bid() {
	svCurrencyLimit = 1
	svBidLean = true
	m, _, _ := svBidEnv(false)
	svWrongSigner(m.e, m.raw, m.signers)
}

// SV_C04_wrong_signer_erc20: ERC20_LOCK / ERC20_REDEEM.
//
// sv:bounds as SV_C02_erc20; the single slot signed by the other party
// sv:goal Validate refuses
func SV_C04_wrong_signer_erc20() {
	svCurrencyLimit = 1
	m := svERCEnv()
	svWrongSigner(m.e, m.raw, m.signers)
}

// SV_C04_key_algorithms: the key-algorithm label of a signature slot is
// attacker-chosen; relabelling a known public key must not make junk bytes a
// signature, for the account of that key or for an empty signer address.
//
// sv:bounds one concrete SEND (valid fee) from the account of a known secp256k1 key, or from an empty address; the signature slot carries that key's 33 public key bytes under the labels ed25519, secp256k1, btcecsecp or an unknown one, with 64 or 65 zero bytes as the signature
// sv:outside genuine secp256k1 / btcec signatures and the ethsecp label (the elliptic-curve code is not interpreted: address derivation and the parsers' refusal of zero bytes are native intrinsics, the point decompression is the model svModel_GetHandler, which knows this one key)
// sv:goal Validate refuses every one of them
func SV_C04_key_algorithms() {
	e := svNewEnv(2, 2, nil)
	from := keys.SVKnownSecpAddr
	if sv.Choice("from.empty", 2) == 1 {
		from = nil
	}
	msg := &transfer.Send{From: from, To: svParty_(1).Addr, Amount: action.Amount{Currency: "OLT", Value: *balance.NewAmount(1)}}
	data, err := msg.Marshal()
	if err != nil {
		sv.Unreachable("marshal")
	}
	raw := action.RawTx{Type: action.SEND, Data: data, Memo: "m",
		Fee: action.Fee{Price: action.Amount{Currency: "OLT", Value: *balance.NewAmount(2000000000)}, Gas: 100000}}
	label := []keys.Algorithm{keys.ED25519, keys.SECP256K1, keys.BTCECSECP, keys.Algorithm(77)}[sv.Choice("key.label", 4)]
	sig := make([]byte, 64+sv.Choice("sig.extra", 2))
	tx := action.SignedTx{RawTx: raw, Signatures: []action.Signature{{Signer: keys.PublicKey{KeyType: label, Data: keys.SVKnownSecpPub}, Signed: sig}}}
	// the signature gate itself (every kind's Validate calls it first) ...
	gate := action.ValidateBasic(tx.RawBytes(), msg.Signers(), tx.Signatures)
	sv.Assert(gate != nil, "signature-gate-refuses-a-relabelled-key-with-a-junk-signature")
	// ... and the kind's whole Validate
	ok := e.validate(tx)
	sv.Assert(!ok, "relabelled-key-with-junk-signature-is-refused")
	sv.Cover(!ok, "rejected")
	sv.Observe("gate", gate == nil)
	sv.Observe("ok", ok)
}

// SV_C04_empty_signer_lock: a kind whose Validate has no address check of its
// own (ETH_LOCK), naming an empty locker, with a relabelled key and a junk
// signature, through the real CheckTx.
//
// sv:bounds the Ethereum options and witnesses of SV_C15_handlers, no tracker; ETH_LOCK with an empty Locker carrying the good lock of 5 wei; the signature slot as in SV_C04_key_algorithms (label btcecsecp, 64 zero bytes)
// sv:outside as SV_C04_key_algorithms
// sv:goal CheckTx refuses (what a delivery without Validate does is the known finding of SV_C04_deliver_requires_validation)
func SV_C04_empty_signer_lock() {
	svCurrencyLimit = 1
	svLean = true
	pre := &svEthPre{}
	e := svNewEnv(3, 20, svPreETH(pre, 0))
	svLean = false
	sv.Assume(pre.where == 0)
	raw := svRaw(action.ETH_LOCK, &action_eth.Lock{Locker: nil, ETHTxn: svExtTxs[0].raw})
	tx := action.SignedTx{RawTx: raw, Signatures: []action.Signature{{Signer: keys.PublicKey{KeyType: keys.BTCECSECP, Data: keys.SVKnownSecpPub}, Signed: make([]byte, 64)}}}
	r := svCheckEnvGas(e.app, tx)
	sv.Assert(r.Code != 0, "lock-without-any-valid-signature-is-refused-by-the-mempool")
	sv.Cover(true, "checked")
	sv.Observe("code", r.Code)
}
