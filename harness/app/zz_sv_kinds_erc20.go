package app

// ERC20 lock / redeem kinds (action/eth ext_ERC20Lock.go, ext_ERC20redeem.go).
// The handlers parse the embedded Ethereum transaction by hex-encoding the raw
// bytes and slicing around the 4-byte selector: that string code runs as it is
// (natively on the concrete bytes); RLP decoding and ABI parsing are the
// harness-supplied models of zz_sv_kinds_eth.go plus svModel_abiJSON below.

import (
	"errors"
	"fmt"
	"io"
	"math/big"
	"strings"

	"github.com/Oneledger/protocol/action"
	action_eth "github.com/Oneledger/protocol/action/eth"
	"github.com/Oneledger/protocol/chains/ethereum"
	"github.com/Oneledger/protocol/chains/ethereum/contract"
	"github.com/Oneledger/protocol/data/balance"
	"github.com/Oneledger/protocol/data/chain"
	trackerlib "github.com/Oneledger/protocol/data/ethereum"
	"github.com/Oneledger/protocol/data/keys"
	"github.com/Oneledger/protocol/identity"
	sv "github.com/Oneledger/protocol/zz_sv"
	"github.com/ethereum/go-ethereum/accounts/abi"
	ethcmn "github.com/ethereum/go-ethereum/common"
)

var (
	svErcToken    = ethcmn.HexToAddress("0x70ce000000000000000000000000000000070ce0")
	svErcContract = ethcmn.HexToAddress("0xe2c0000000000000000000000000000000000e2c")
	svErcUnknown  = ethcmn.HexToAddress("0x1111000000000000000000000000000000001111")
	svTTC         = balance.Currency{Id: 2, Name: "TTC", Chain: chain.ETHEREUM, Decimal: 18, Unit: "wei"}
)

// Real signed, RLP-encoded Ethereum transactions (generated once with
// go-ethereum, EIP-155 chain id 4): ERC20 transfers to the token contract and
// redeem calls to the lock/redeem contract, well-formed and not.
const svErcFirst = 5 // index of the first of them in svExtTxs

func init() {
	svExtTxs = append(svExtTxs, []svExtTx{
		// L1 good lock 5
		{raw: ethcmn.FromHex("f8a50a01830186a09470ce000000000000000000000000000000070ce080b844a9059cbb000000000000000000000000e2c0000000000000000000000000000000000e2c00000000000000000000000000000000000000000000000000000000000000052ca0bdbdd0053762e2468e07ccf3a8df682ae97d44e1993a5fb79b80ad5cee3f829ba00adcdf21cae1cf69f5a2b7626cdd99c441299bb18d1385a45cde0c964bb14987"), nonce: 10, data: ethcmn.FromHex("a9059cbb000000000000000000000000e2c0000000000000000000000000000000000e2c0000000000000000000000000000000000000000000000000000000000000005"), to: &svErcToken},
		// L2 wrong receiver
		{raw: ethcmn.FromHex("f8a50b01830186a09470ce000000000000000000000000000000070ce080b844a9059cbb0000000000000000000000000bad00000000000000000000000000000000bad000000000000000000000000000000000000000000000000000000000000000052ba021a51ee2669cf5e5796edead83ddf1e87d68de9f0cc6c41de2c242e9f7246181a05b039c08e0e0d3485e4bfc45cd4e3f09b025f1b332ac91ec7182f57374894763"), nonce: 11, data: ethcmn.FromHex("a9059cbb0000000000000000000000000bad00000000000000000000000000000000bad00000000000000000000000000000000000000000000000000000000000000005"), to: &svErcToken},
		// L3 no data
		{raw: ethcmn.FromHex("f8600c01830186a09470ce000000000000000000000000000000070ce080802ba00e03cf1b1b9ed9dc2a69a468ae0ca01e47e27cb5be34836593d827c7807a67bea03852f11ba0ac0df7a07b60901d24d1bd9137cc3dfa1b27fcf260f93e15c2a100"), nonce: 12, data: ethcmn.FromHex(""), to: &svErcToken},
		// L4 short args
		{raw: ethcmn.FromHex("f8840d01830186a09470ce000000000000000000000000000000070ce080a4a9059cbb000000000000000000000000e2c0000000000000000000000000000000000e2c2ca0f101221cfb0f9076b34d3aec84af7057f67800eb6453fa1dc49f93aeca81980ca0533fe5eb91c2ce80884e689c8188458d4d2c1a976de0f468b46e494f50f8c247"), nonce: 13, data: ethcmn.FromHex("a9059cbb000000000000000000000000e2c0000000000000000000000000000000000e2c"), to: &svErcToken},
		// L5 creation
		{raw: ethcmn.FromHex("f8910e01830186a08080b844a9059cbb000000000000000000000000e2c0000000000000000000000000000000000e2c00000000000000000000000000000000000000000000000000000000000000052ba04b8474ed7bd3389ebb653863b56f7491227425674bcd9577567d6449acce2d60a0728f75736730cf07c32649a5f713e0aca10cfbc95ff89819bda067553faee9df"), nonce: 14, data: ethcmn.FromHex("a9059cbb000000000000000000000000e2c0000000000000000000000000000000000e2c0000000000000000000000000000000000000000000000000000000000000005"), create: true},
		// L6 unknown token
		{raw: ethcmn.FromHex("f8a50f01830186a094111100000000000000000000000000000000111180b844a9059cbb000000000000000000000000e2c0000000000000000000000000000000000e2c00000000000000000000000000000000000000000000000000000000000000052ba0c259c4eb887e63163947557e871f203757337ab5e6c1fbc97733a8091f8eecc7a0475ad01da7007d4b1447a4071d7eed5923faa021c596f1fe024fb25a1fa7876c"), nonce: 15, data: ethcmn.FromHex("a9059cbb000000000000000000000000e2c0000000000000000000000000000000000e2c0000000000000000000000000000000000000000000000000000000000000005"), to: &svErcUnknown},
		// R1 good redeem 3
		{raw: ethcmn.FromHex("f8a51001830186a094e2c0000000000000000000000000000000000e2c80b8447bde82f2000000000000000000000000000000000000000000000000000000000000000300000000000000000000000070ce000000000000000000000000000000070ce02ca0a7d2ac77e0b689987bb053b8ae907a6cfd185a9d508eb7f901c06e7e02a29428a0733ebc492c1f9c6388d92f5253b966d77d0b737cce4958915788384b0dfce469"), nonce: 16, data: ethcmn.FromHex("7bde82f2000000000000000000000000000000000000000000000000000000000000000300000000000000000000000070ce000000000000000000000000000000070ce0"), to: &svErcContract},
		// R2 unknown token
		{raw: ethcmn.FromHex("f8a51101830186a094e2c0000000000000000000000000000000000e2c80b8447bde82f2000000000000000000000000000000000000000000000000000000000000000300000000000000000000000011110000000000000000000000000000000011112ba0b461e5253644f80522f85868d37e7ee7200cb8a6031a685e8b7c636509ecdf7ba04759408ba1fb6dc63d9b4383961107e3d5bf3a1307fe9fa7710a5d85b0925fdf"), nonce: 17, data: ethcmn.FromHex("7bde82f200000000000000000000000000000000000000000000000000000000000000030000000000000000000000001111000000000000000000000000000000001111"), to: &svErcContract},
		// R3 short args
		{raw: ethcmn.FromHex("f8841201830186a094e2c0000000000000000000000000000000000e2c80a47bde82f200000000000000000000000000000000000000000000000000000000000000032ba0441d0a1ef8d8f34e3cc41ea8987c86dc33496139402cd1cce77f34af380fe650a02b321a708076db4d929d8836b4a2eee237314a1fd1b701e5b6b88fee828ec52b"), nonce: 18, data: ethcmn.FromHex("7bde82f20000000000000000000000000000000000000000000000000000000000000003"), to: &svErcContract},
		// L7 good lock huge
		{raw: ethcmn.FromHex("f8a51301830186a09470ce000000000000000000000000000000070ce080b844a9059cbb000000000000000000000000e2c0000000000000000000000000000000000e2c00000000000000000000000000000000000000000000000000000000000007d02ba044ead48178bf30c2d28891c00caf9ff8f591a871d8a9e8a49c2483282c7c048ea064f11f3248c0fa68a0ac6251acd28e0161ccc5ad773284f8ceebbc7c1ef4d428"), nonce: 19, data: ethcmn.FromHex("a9059cbb000000000000000000000000e2c0000000000000000000000000000000000e2c00000000000000000000000000000000000000000000000000000000000007d0"), to: &svErcToken},
	}...)
}

// svModel_abiJSON stands for go-ethereum's ABI JSON parser: an empty document
// is refused (as the real parser refuses it), every ABI document the harness
// configures parses; the methods are looked up by svModel_getSignFromName.
//
// sv:models github.com/ethereum/go-ethereum/accounts/abi.JSON
func svModel_abiJSON(reader io.Reader) (abi.ABI, error) {
	if r, ok := reader.(*strings.Reader); ok && r.Len() == 0 {
		return abi.ABI{}, errors.New("EOF")
	}
	return abi.ABI{}, nil
}

// svPreERC: Ethereum options with (configured) or without (the node
// generators' default) a token list and an ERC contract ABI; the wrapped token
// TTC is a registered currency; the supply counter mirrors the TTC in circulation.
func svPreERC(configured bool) func(e *svEnv) {
	return func(e *svEnv) {
		ctx := &e.app.Context
		opt := ethereum.ChainDriverOption{ContractABI: contract.LockRedeemABI, ContractAddress: svEthContract,
			TotalSupply: "1000000000000000000000000000000", TotalSupplyAddr: svSupplyAddr, BlockConfirmation: 1}
		if configured {
			opt.TokenList = []ethereum.ERC20Token{{TokName: "TTC", TokAddr: svErcToken, TokAbi: contract.ERC20BasicABI, TokTotalSupply: "1000"}}
			opt.ERCContractABI = contract.LockRedeemERCABI
			opt.ERCContractAddress = svErcContract
		}
		g := ctx.govern.WithState(ctx.deliver).WithHeight(0)
		if err := g.SetETHChainDriverOption(opt); err != nil {
			sv.Unreachable("eth options")
		}
		ctx.ethTrackers.SetupOption(&opt)
		if err := ctx.currencies.Register(svTTC); err != nil {
			sv.Unreachable("currency")
		}
		ws := ctx.witnesses.WithState(ctx.deliver)
		for i := 0; i < e.n; i++ {
			p := svParty_(i)
			if err := ws.AddWitness(chain.ETHEREUM, identity.Stake{ValidatorAddress: p.Addr, StakeAddress: p.Addr, Pubkey: p.Pub, ECDSAPubKey: p.Pub, Name: "w" + svPartyName(i)}); err != nil {
				sv.Unreachable("witness")
			}
		}
		bal := ctx.balances.WithState(ctx.deliver)
		for i := 0; i < e.n; i++ {
			v := svNonNeg("ttc" + svPartyName(i))
			if err := bal.AddToAddress(svParty_(i).Addr, svTTC.NewCoinFromAmount(*balance.NewAmountFromBigInt(v))); err != nil {
				sv.Unreachable("ttc balance")
			}
		}
		if err := bal.AddToAddress(keys.Address(svSupplyAddr), svTTC.NewCoinFromAmount(*balance.NewAmountFromBigInt(svNonNeg("ttcSupplyCounter")))); err != nil {
			sv.Unreachable("supply counter")
		}
		e.extra = append(e.extra, func(l *svLedger) {
			b := ctx.balances.WithState(ctx.deliver)
			for i := 0; i < e.n; i++ {
				c, err := b.GetBalanceForCurr(svParty_(i).Addr, &svTTC)
				if err != nil {
					sv.Unreachable("ledger: ttc")
				}
				l.add("b:"+svPartyName(i)+":TTC", svPartyName(i), "TTC", c.Amount.BigInt())
			}
			c, err := b.GetBalanceForCurr(keys.Address(svSupplyAddr), &svTTC)
			if err != nil {
				sv.Unreachable("ledger: ttc supply counter")
			}
			l.addMirror("ttcSupplyCounter", "counter", "TTC", c.Amount.BigInt())
		})
	}
}

// svBuildERC: ERC20_LOCK (kind 0) or ERC20_REDEEM (kind 1) by any party with any
// of the embedded transactions (ERC and plain ones), garbage or nothing.
func svBuildERC(e *svEnv, kind int) (action.RawTx, []int) {
	i, who := svAnyParty("actor", e.n)
	var ext []byte
	n := len(svExtTxs) - svErcFirst
	switch c := sv.Choice("erc.ext", n+4); {
	case c < n:
		ext = svExtTxs[svErcFirst+c].raw
	case c == n:
		ext = svExtTxs[0].raw // a plain ETH lock
	case c == n+1:
		ext = svExtTxs[4].raw // a contract creation with the lock selector
	case c == n+2:
		ext = svGarbageExt
	default:
		ext = []byte{}
	}
	if kind == 0 {
		return svRaw(action.ERC20_LOCK, &action_eth.ERC20Lock{Locker: who, ETHTxn: ext}), []int{i}
	}
	return svRaw(action.ERC20_REDEEM, &action_eth.ERC20Redeem{Owner: who, To: svErcContract, ETHTxn: ext}), []int{i}
}

// svERCEnv: one ERC20 transaction.
func svERCEnv() *svMore {
	m := &svMore{family: 7}
	configured := sv.Choice("erc.configured", 2) == 1
	kind := sv.Choice("kind", 2)
	m.e = svNewEnv(2, 20, svPreERC(configured))
	m.raw, m.signers = svBuildERC(m.e, kind)
	return m
}

// SV_C18_erc20_admitted: no crash for ERC20_LOCK / ERC20_REDEEM on the mempool path.
//
// sv:bounds 2 parties with arbitrary OLT / ETH / TTC balances, arbitrary TTC supply counter; Ethereum options as the node generators write them (no token list, no ERC contract ABI) or configured with one token (TTC, total supply 1000) and the ERC lock/redeem contract; the embedded transaction is one of 10 real signed transactions (a good transfer to the contract of 5 and of 2000 tokens, a transfer to another receiver, a call without data, a transfer with one argument only, a contract creation, a transfer of an unlisted token, a good redeem of 3, a redeem of an unlisted token, a redeem with one argument only), a plain ETH lock, a contract creation with the lock selector, 3 garbage bytes or empty; real CheckTx (Validate + ProcessCheck), then DeliverTx
// sv:outside other embedded transactions; several tokens; the finality reports of ERC trackers (minting)
// sv:goal no path ends in a panic, os.Exit (logger.Fatal) or application close
func SV_C18_erc20_admitted() {
	svCurrencyLimit = 1
	sv.CrashIsViolation("admitted-tx-crashes-node")
	svMoreC18Admitted(svERCEnv())
}

// SV_C18_erc20_unvalidated: the same transactions delivered directly in a block.
//
// sv:bounds as SV_C18_erc20_admitted without the admission; additionally 0 signatures
// sv:goal no path ends in a panic, os.Exit (logger.Fatal) or application close
func SV_C18_erc20_unvalidated() {
	svCurrencyLimit = 1
	sv.CrashIsViolation("delivered-tx-crashes-node")
	svMoreC18Unvalidated(svERCEnv())
}

// SV_C02_erc20: no value creation by ERC20_LOCK / ERC20_REDEEM.
//
// sv:bounds as SV_C18_erc20_admitted (mempool-admitted regime: the real Validate)
// sv:outside minting at witness finality (the finality reports of ERC trackers are not encoded)
// sv:goal no total (OLT, ETH, TTC) increases and no stored amount is negative; a lock moves no token (minting waits for finality); an accepted redeem takes exactly the amount the embedded transaction states from its owner and from the supply counter, from nobody else
func SV_C02_erc20() {
	svCurrencyLimit = 1
	m := svERCEnv()
	e := m.e
	tx := m.sign(false)
	sv.Assume(e.validate(tx))
	l0 := e.ledger()
	resp := svDeliver(e.app, tx)
	l1 := e.ledger()
	sv.Observe("code", resp.Code)
	for _, c := range l1.cells {
		sv.Observe(c.Name, c.V)
	}
	for _, cur := range []string{"OLT", "ETH", "TTC"} {
		sv.Assert(l1.total(cur).Cmp(l0.total(cur)) <= 0, "no-value-created:"+cur)
	}
	for _, c := range l1.cells {
		sv.Assert(c.V.Sign() >= 0, "no-negative-stored-amount")
	}
	actor := svPartyName(m.signers[0])
	for i := 0; i < e.n; i++ {
		name := svPartyName(i)
		d := l1.get("b:" + name + ":TTC").Cmp(l0.get("b:" + name + ":TTC"))
		if name != actor {
			sv.Assert(d == 0, "tokens-of-others-untouched")
		}
	}
	dOwner := new(big.Int).Sub(l0.get("b:"+actor+":TTC"), l1.get("b:"+actor+":TTC"))
	dCounter := new(big.Int).Sub(l0.get("ttcSupplyCounter"), l1.get("ttcSupplyCounter"))
	sv.Assert(dOwner.Cmp(dCounter) == 0, "supply-counter-follows-the-tokens-in-circulation")
	if sv.Choice("kind", 2) == 0 || resp.Code != 0 {
		sv.Assert(dOwner.Sign() == 0, "lock-or-refused-transaction-moves-no-token")
	} else {
		sv.Assert(dOwner.Cmp(big.NewInt(3)) == 0, "redeem-takes-exactly-the-stated-amount")
		sv.Cover(true, "redeemed")
	}
	sv.Cover(resp.Code == 0, "delivered-ok")
	sv.Cover(resp.Code != 0, "delivered-fail")
}

// SV_C03_erc20: only the signer is debited.
//
// sv:bounds as SV_C02_erc20
// sv:goal the holdings (OLT, ETH, TTC) of every party that did not sign do not decrease
func SV_C03_erc20() {
	svCurrencyLimit = 1
	svMoreC03(svERCEnv())
}

// SV_C06_erc20_noop: a failed ERC20 transaction leaves no trace.
//
// sv:bounds as SV_C02_erc20, in both regimes
// sv:goal Code != 0 implies the block-level write cache and every ledger cell are unchanged
func SV_C06_erc20_noop() {
	svCurrencyLimit = 1
	svMoreC06(svERCEnv())
}

// ---- C15 for the ERC20 trackers ----

type svErcPre struct {
	where int // 0 no tracker, 1 ongoing, 2 passed store, 3 failed store
	lock  bool
	votes []int
	wit   []keys.Address
}

func (p *svErcPre) ext() *svExtTx {
	if p.lock {
		return &svExtTxs[svErcFirst] // L1: transfer of 5 tokens to the contract
	}
	return &svExtTxs[svErcFirst+6] // R1: redeem of 3 tokens
}

// svPreERCTracker: the configured options of svPreERC, four witnesses, the
// supply counter equal to the tokens in circulation, and a tracker (owner A)
// for the good lock or the good redeem, absent / ongoing with votes / passed / failed.
func svPreERCTracker(pre *svErcPre, kind int) func(e *svEnv) {
	return func(e *svEnv) {
		ctx := &e.app.Context
		opt := ethereum.ChainDriverOption{ContractABI: contract.LockRedeemABI, ContractAddress: svEthContract,
			TotalSupply: "1000000000000000000000000000000", TotalSupplyAddr: svSupplyAddr, BlockConfirmation: 1,
			TokenList:      []ethereum.ERC20Token{{TokName: "TTC", TokAddr: svErcToken, TokAbi: contract.ERC20BasicABI, TokTotalSupply: "1000000000000000000000000000000"}},
			ERCContractABI: contract.LockRedeemERCABI, ERCContractAddress: svErcContract}
		g := ctx.govern.WithState(ctx.deliver).WithHeight(0)
		if err := g.SetETHChainDriverOption(opt); err != nil {
			sv.Unreachable("eth options")
		}
		ctx.ethTrackers.SetupOption(&opt)
		if err := ctx.currencies.Register(svTTC); err != nil {
			sv.Unreachable("currency")
		}
		ws := ctx.witnesses.WithState(ctx.deliver)
		for i := 0; i < e.n; i++ {
			p := svParty_(i)
			if err := ws.AddWitness(chain.ETHEREUM, identity.Stake{ValidatorAddress: p.Addr, StakeAddress: p.Addr, Pubkey: p.Pub, ECDSAPubKey: p.Pub, Name: "w" + svPartyName(i)}); err != nil {
				sv.Unreachable("witness")
			}
		}
		if err := ws.AddWitness(chain.ETHEREUM, identity.Stake{ValidatorAddress: svExtraWitness, StakeAddress: svExtraWitness, Name: "wx"}); err != nil {
			sv.Unreachable("witness")
		}
		bal := ctx.balances.WithState(ctx.deliver)
		sum := new(big.Int)
		for i := 0; i < e.n; i++ {
			v := svNonNeg("ttc" + svPartyName(i))
			sum.Add(sum, v)
			if err := bal.AddToAddress(svParty_(i).Addr, svTTC.NewCoinFromAmount(*balance.NewAmountFromBigInt(v))); err != nil {
				sv.Unreachable("ttc balance")
			}
		}
		if err := bal.AddToAddress(keys.Address(svSupplyAddr), svTTC.NewCoinFromAmount(*balance.NewAmountFromBigInt(sum))); err != nil {
			sv.Unreachable("supply counter")
		}
		e.extra = append(e.extra, func(l *svLedger) {
			b := ctx.balances.WithState(ctx.deliver)
			for i := 0; i < e.n; i++ {
				c, err := b.GetBalanceForCurr(svParty_(i).Addr, &svTTC)
				if err != nil {
					sv.Unreachable("ledger: ttc")
				}
				l.add("b:"+svPartyName(i)+":TTC", svPartyName(i), "TTC", c.Amount.BigInt())
			}
			c, err := b.GetBalanceForCurr(keys.Address(svSupplyAddr), &svTTC)
			if err != nil {
				sv.Unreachable("ledger: ttc supply counter")
			}
			l.addMirror("ttcSupplyCounter", "counter", "TTC", c.Amount.BigInt())
		})
		pre.wit = []keys.Address{svParty_(0).Addr, svParty_(1).Addr, svParty_(2).Addr, svExtraWitness}
		for i := range pre.wit {
			for j := i + 1; j < len(pre.wit); j++ {
				if string(pre.wit[j]) < string(pre.wit[i]) {
					pre.wit[i], pre.wit[j] = pre.wit[j], pre.wit[i]
				}
			}
		}
		pre.votes = make([]int, len(pre.wit))
		pre.lock = sv.Choice("erc.trackerIsLock", 2) == 0
		pre.where = sv.Choice("erc.where", 4)
		if pre.where == 0 {
			return
		}
		x := pre.ext()
		typ := trackerlib.ProcessTypeRedeemERC
		if pre.lock {
			typ = trackerlib.ProcessTypeLockERC
		}
		t := trackerlib.NewTracker(typ, svParty_(0).Addr, x.raw, ethcmn.BytesToHash(x.raw), pre.wit)
		prefix := trackerlib.PrefixOngoing
		switch pre.where {
		case 1:
			if kind == 2 {
				vec := [][]int{{0, 0, 0, 0}, {1, 1, 0, 0}, {1, 1, 1, 0}, {2, 2, 0, 0}, {2, 2, 2, 0}, {1, 2, 0, 0}, {1, 1, 2, 0}, {2, 2, 1, 0}}[sv.Choice("erc.votes", 8)]
				rot := sv.Choice("erc.rotation", 4)
				for i := range pre.wit {
					pre.votes[(i+rot)%4] = vec[i]
				}
			}
			for i := range pre.wit {
				t.FinalityVotes[i] = trackerlib.Vote(pre.votes[i])
			}
			t.State = trackerlib.BusyBroadcasting
			if t.Finalized() {
				t.State = trackerlib.Released
			} else if t.Failed() {
				t.State = trackerlib.Failed
			}
		case 2:
			prefix, t.State = trackerlib.PrefixPassed, trackerlib.Released
		case 3:
			prefix, t.State = trackerlib.PrefixFailed, trackerlib.Failed
		}
		if err := ctx.ethTrackers.WithState(ctx.deliver).WithPrefixType(prefix).Set(t); err != nil {
			sv.Unreachable("tracker")
		}
	}
}

// SV_C15_erc20_handlers: one ERC20_LOCK, ERC20_REDEEM or finality report on an
// ERC tracker through the real txDeliverer.
//
// sv:bounds 4 witnesses (threshold 3); one listed token (TTC), the ERC contract configured; a tracker (owner A) for the good lock of 5 tokens or the good redeem of 3, absent, ongoing with recorded votes (8 representative vectors in every rotation; state as the votes imply), in the passed or in the failed store; kinds: lock by any party with the lock of 5 or of 2000 tokens, redeem by any party with the redeem of 3, report by any party on the tracker with any vote index (symbolic int64), success or failure; TTC balances symbolic, the supply counter equal to their sum; mempool-admitted regime
// sv:outside several tokens; the RLP / ABI decoding (models, as SV_C15_handlers); block-end tracker transitions; histories
// sv:goal the supply counter always equals the tokens held by the parties; a lock creates a tracker (owner = locker, no votes, nothing minted) only when no ongoing or passed tracker has that external transaction; a redeem takes exactly the amount from its owner and the counter and creates the tracker only when none is ongoing or passed; a report moves tokens only when its own vote makes the count cross the threshold: a lock then mints exactly the locked amount to the tracker's owner, a failed redeem refunds exactly the redeemed amount to its owner; only the recorded witness's first vote counts; reports on a decided tracker change nothing
func SV_C15_erc20_handlers() {
	svCurrencyLimit = 1
	pre := &svErcPre{}
	kind := sv.Choice("kind", 3)
	e := svNewEnv(3, 20, svPreERCTracker(pre, kind))
	i, who := svAnyParty("actor", e.n)
	var raw action.RawTx
	var sub *svExtTx
	switch kind {
	case 0:
		sub = &svExtTxs[svErcFirst+sv.Choice("lock.ext", 2)*9] // L1 (5 tokens) or L7 (2000 tokens)
		raw = svRaw(action.ERC20_LOCK, &action_eth.ERC20Lock{Locker: who, ETHTxn: sub.raw})
	case 1:
		sub = &svExtTxs[svErcFirst+6]
		raw = svRaw(action.ERC20_REDEEM, &action_eth.ERC20Redeem{Owner: who, To: svErcContract, ETHTxn: sub.raw})
	default:
		raw = svRaw(action.ETH_REPORT_FINALITY_MINT, &action_eth.ReportFinality{TrackerName: ethcmn.BytesToHash(pre.ext().raw), Locker: svParty_(0).Addr,
			ValidatorAddress: who, VoteIndex: sv.Int64("report.voteIndex"), Success: sv.Choice("report.success", 2) == 0})
	}
	r := e.step(raw, []int{i}, true)
	ok := r.resp.Code == 0
	dT := func(k int) *big.Int {
		n := "b:" + svPartyName(k) + ":TTC"
		return new(big.Int).Sub(r.after.get(n), r.before.get(n))
	}
	dSupply := new(big.Int).Sub(r.after.get("ttcSupplyCounter"), r.before.get("ttcSupplyCounter"))
	circ := new(big.Int)
	for k := 0; k < e.n; k++ {
		circ.Add(circ, r.after.get("b:"+svPartyName(k)+":TTC"))
	}
	sv.Assert(r.after.get("ttcSupplyCounter").Cmp(circ) == 0, "supply-counter-equals-the-wrapped-tokens-in-circulation")
	noChange := func(label string) {
		for k := 0; k < e.n; k++ {
			sv.Assert(dT(k).Sign() == 0, label)
		}
		sv.Assert(dSupply.Sign() == 0, label)
	}
	if !ok {
		noChange("refused-transaction-moves-no-wrapped-tokens")
		return
	}
	same := sub != nil && pre.where != 0 && sub == pre.ext()
	switch kind {
	case 0:
		noChange("nothing-is-minted-when-the-lock-is-submitted")
		sv.Assert(!(same && (pre.where == 1 || pre.where == 2)), "one-external-transaction-never-backs-two-trackers")
		t, at := svTrackerAt(e, ethcmn.BytesToHash(sub.raw))
		sv.Assert(t != nil && at == 1 && t.ProcessOwner.Equal(who) && t.Type == trackerlib.ProcessTypeLockERC, "lock-tracker-belongs-to-the-locker")
		if t != nil {
			y, n := t.GetVotes()
			sv.Assert(y == 0 && n == 0 && len(t.Witnesses) == 4, "new-tracker-has-no-votes-and-the-current-witnesses")
		}
		sv.Cover(true, "lock-accepted")
	case 1:
		amt := big.NewInt(3)
		sv.Assert(dT(i).Cmp(new(big.Int).Neg(amt)) == 0 && dSupply.Cmp(new(big.Int).Neg(amt)) == 0, "redeem-debits-the-owner-and-the-counter-by-the-amount")
		sv.Assert(!(same && (pre.where == 1 || pre.where == 2)), "one-external-transaction-never-backs-two-trackers")
		t, at := svTrackerAt(e, ethcmn.BytesToHash(sub.raw))
		sv.Assert(t != nil && at == 1 && t.ProcessOwner.Equal(who) && t.Type == trackerlib.ProcessTypeRedeemERC, "redeem-tracker-belongs-to-the-owner")
		sv.Cover(true, "redeem-accepted")
	default:
		m := &action_eth.ReportFinality{}
		m.Unmarshal(raw.Data)
		sv.Assert(pre.where == 1, "report-only-on-an-ongoing-tracker")
		if pre.where != 1 {
			return
		}
		yes0, no0 := svVoteCount(pre.votes, 1), svVoteCount(pre.votes, 2)
		decided := yes0 >= 3 || no0 >= 3
		counts := !decided && m.VoteIndex >= 0 && m.VoteIndex < 4 && pre.wit[m.VoteIndex].Equal(who) && pre.votes[m.VoteIndex] == 0
		yes1, no1 := yes0, no0
		if counts && m.Success {
			yes1++
		} else if counts {
			no1++
		}
		if t, _ := svTrackerAt(e, m.TrackerName); t != nil {
			y, n := t.GetVotes()
			sv.Assert(y == yes1 && n == no1, "only-the-recorded-witness's-first-vote-counts")
		}
		crossedYes := !decided && yes1 >= 3
		crossedNo := !decided && no1 >= 3
		want := func(amt int64, label string) {
			for k := 0; k < e.n; k++ {
				w := new(big.Int)
				if k == 0 {
					w = big.NewInt(amt)
				}
				sv.Assert(dT(k).Cmp(w) == 0, label)
			}
			sv.Assert(dSupply.Cmp(big.NewInt(amt)) == 0, label)
		}
		switch {
		case crossedYes && pre.lock:
			want(5, "mint-exactly-the-locked-amount-to-the-account-that-submitted-the-lock")
			sv.Cover(true, "minted")
		case crossedNo && !pre.lock:
			want(3, "refund-exactly-the-redeemed-amount-to-the-owner")
			sv.Cover(true, "refund-due")
		default:
			noChange("no-mint-or-refund-without-crossing-the-threshold")
			sv.Cover(decided, "report-on-a-decided-tracker")
			sv.Cover(!decided && counts, "vote-recorded-below-threshold")
		}
	}
}

// SV_C05_lock_redeem_resubmission: an executed ETH / ERC20 lock or redeem
// submitted again (in whatever encoding: the handlers see the same signed
// content) takes no second effect.
//
// sv:bounds the pre-states of SV_C15_handlers / SV_C15_erc20_handlers restricted to a tracker that exists (ongoing with any of the representative vote vectors, or passed) for the external transaction that is submitted again, by any party; kinds ETH_LOCK, ETH_REDEEM, ERC20_LOCK, ERC20_REDEEM; delivered with or without a mempool admission on this state
// sv:outside the raw-bytes index of Tendermint (the known C05 finding concerns kinds without such a record); a retry after a failed tracker (allowed by design)
// sv:goal the resubmission fails, moves no wrapped token and leaves the tracker (store, state, votes, owner) as it was
func SV_C05_lock_redeem_resubmission() {
	svCurrencyLimit = 1
	fam := sv.Choice("family", 4) // ETH lock, ETH redeem, ERC20 lock, ERC20 redeem
	var e *svEnv
	var raw action.RawTx
	var name ethcmn.Hash
	var actor int
	if fam < 2 {
		pre := &svEthPre{}
		e = svNewEnv(3, 20, svPreETH(pre, 2))
		sv.Assume((pre.where == 1 || pre.where == 2) && pre.ext == fam*2)
		x := svExtTxs[pre.ext]
		name = ethcmn.BytesToHash(x.raw)
		i, who := svAnyParty("actor", e.n)
		actor = i
		if fam == 0 {
			raw = svRaw(action.ETH_LOCK, &action_eth.Lock{Locker: who, ETHTxn: x.raw})
		} else {
			raw = svRaw(action.ETH_REDEEM, &action_eth.Redeem{Owner: who, To: ethcmn.BytesToAddress([]byte{0xbe, 0xef}), ETHTxn: x.raw})
		}
	} else {
		pre := &svErcPre{}
		e = svNewEnv(3, 20, svPreERCTracker(pre, 2))
		sv.Assume((pre.where == 1 || pre.where == 2) && pre.lock == (fam == 2))
		x := pre.ext()
		name = ethcmn.BytesToHash(x.raw)
		i, who := svAnyParty("actor", e.n)
		actor = i
		if fam == 2 {
			raw = svRaw(action.ERC20_LOCK, &action_eth.ERC20Lock{Locker: who, ETHTxn: x.raw})
		} else {
			raw = svRaw(action.ERC20_REDEEM, &action_eth.ERC20Redeem{Owner: who, To: svErcContract, ETHTxn: x.raw})
		}
	}
	t0, at0 := svTrackerAt(e, name)
	if t0 == nil {
		sv.Unreachable("the tracker exists")
	}
	y0, n0 := t0.GetVotes()
	r := e.step(raw, []int{actor}, sv.Choice("regime", 2) == 0)
	sv.Assert(r.resp.Code != 0, "resubmitted-lock-or-redeem-is-refused")
	t1, at1 := svTrackerAt(e, name)
	sv.Assert(t1 != nil && at1 == at0, "tracker-stays-in-its-store")
	if t1 != nil {
		y1, n1 := t1.GetVotes()
		sv.Assert(y1 == y0 && n1 == n0 && t1.State == t0.State && t1.ProcessOwner.Equal(t0.ProcessOwner) && t1.Type == t0.Type, "tracker-keeps-its-votes-state-and-owner")
	}
	for k, c := range r.after.cells {
		if c.Cur != "OLT" {
			sv.Assert(c.V.Cmp(r.before.cells[k].V) == 0, "resubmission-moves-no-wrapped-token")
		}
	}
	sv.Cover(true, fmt.Sprint("resubmitted-family-", fam))
}
