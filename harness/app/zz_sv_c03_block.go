package app

// C03 — movements between an account's own records at the block boundaries
// (maturity of an unstake, of an undelegation, of a reward withdrawal) never
// lower its total.

import (
	"fmt"
	"math/big"

	"github.com/Oneledger/protocol/data/balance"
	"github.com/Oneledger/protocol/data/delegation"
	"github.com/Oneledger/protocol/identity"
	sv "github.com/Oneledger/protocol/zz_sv"
)

// SV_C03_quiet_block: a whole block without transactions (the real
// blockBeginner and blockEnder) over a state in which unstakes, undelegations
// and reward withdrawals of two parties are due.
//
// sv:bounds 2 parties; party B is the only validator (stake 1000 OLT lodged by stake address A, signed the last block); unstake records maturing at this height: two entries of A and one of B (the store appends one entry per unstake, so a delegator can have several), one entry of A maturing later; arbitrary withdrawable amounts; the network-delegation pre-state of SV_C02_delegate (arbitrary active amounts, pending undelegations and pending reward withdrawals at this height and a later one, arbitrary reward balances); block height 2 on top of committed version 1; arbitrary balances
// sv:outside blocks with transactions (the per-kind harnesses); guilty verdicts (SV_C19_tally); more than two entries per delegator
// sv:goal nobody signed anything in the block: the holdings of every party at the end of the block (after EndBlock) are not lower than before BeginBlock, and each maturing record of this height moved into the same party's withdrawable amount or balance
func SV_C03_quiet_block() {
	const H = 2
	var mA1, mA2, mB, mLater, bA, bB *big.Int
	e := svNewEnv(2, H, func(e *svEnv) {
		svPreDeleg(e)
		ctx := &e.app.Context
		ds := ctx.delegators.WithState(ctx.deliver)
		vs := ctx.validators.WithState(ctx.deliver)
		A, B := svParty_(0), svParty_(1)
		amt := *balance.NewAmount(1000)
		if err := ds.Stake(B.Addr, A.Addr, amt); err != nil {
			sv.Unreachable("stake record")
		}
		if err := vs.HandleStake(identity.Stake{ValidatorAddress: B.Addr, StakeAddress: A.Addr, Pubkey: B.Pub, ECDSAPubKey: B.Pub, Name: "node", Amount: amt}, false, 0); err != nil {
			sv.Unreachable("validator record")
		}
		mA1, mA2, mB, mLater = svNonNeg("st.mA1"), svNonNeg("st.mA2"), svNonNeg("st.mB"), svNonNeg("st.mLater")
		bA, bB = svNonNeg("st.bA"), svNonNeg("st.bB")
		am := func(v *big.Int) balance.Amount { return *balance.NewAmountFromBigInt(v) }
		// the mature block is kept sorted by address: A's two entries are adjacent either way
		data := []*delegation.MatureData{{Address: A.Addr, Amount: am(mA1), Height: H}, {Address: A.Addr, Amount: am(mA2), Height: H}}
		if string(B.Addr) < string(A.Addr) {
			data = append([]*delegation.MatureData{{Address: B.Addr, Amount: am(mB), Height: H}}, data...)
		} else {
			data = append(data, &delegation.MatureData{Address: B.Addr, Amount: am(mB), Height: H})
		}
		ds.SetMatureAmounts(H, &delegation.MatureBlock{Height: H, Data: data})
		ds.SetMatureAmounts(H+10, &delegation.MatureBlock{Height: H + 10, Data: []*delegation.MatureData{{Address: A.Addr, Amount: am(mLater), Height: H + 10}}})
		ds.SetDelegatorBoundedAmount(A.Addr, am(bA))
		ds.SetDelegatorBoundedAmount(B.Addr, am(bB))
		ctx.SetBlockStore(sv.BlockStore([]int64{1}, []int64{1600000000}))
		e.extra = append(e.extra, func(l *svLedger) {
			ds := ctx.delegators.WithState(ctx.deliver)
			for i := 0; i < 2; i++ {
				p, name := svParty_(i), svPartyName(i)
				eff, _ := ds.GetDelegatorEffectiveAmount(p.Addr)
				l.add("st:E:"+name, name, "OLT", new(big.Int).Mul(eff.BigInt(), svWei))
				b, _ := ds.GetDelegatorBoundedAmount(p.Addr)
				l.add("st:B:"+name, name, "OLT", new(big.Int).Mul(b.BigInt(), svWei))
				for _, h := range []int64{H, H + 10} {
					mb, _ := ds.GetMatureAmounts(h)
					t := new(big.Int)
					for _, m := range mb.Data {
						if m.Address.Equal(p.Addr) {
							t.Add(t, m.Amount.BigInt())
						}
					}
					l.add(fmt.Sprint("st:M:", h, ":", name), name, "OLT", new(big.Int).Mul(t, svWei))
				}
			}
		})
	})
	before := e.ledger()
	var after *svLedger
	svBlock(e.app, H, 1, nil, func(pos int) {
		if pos == 2 { // after EndBlock, before Commit
			after = e.ledger()
		}
	})
	for i := 0; i < 2; i++ {
		name := svPartyName(i)
		sv.Assert(after.holdings(name).Cmp(before.holdings(name)) >= 0, "quiet-block-debits-nobody")
		sv.Observe("holdings:"+name, after.holdings(name))
	}
	wantA := new(big.Int).Mul(new(big.Int).Add(bA, new(big.Int).Add(mA1, mA2)), svWei)
	wantB := new(big.Int).Mul(new(big.Int).Add(bB, mB), svWei)
	sv.Assert(after.get("st:B:A").Cmp(wantA) == 0 && after.get("st:B:B").Cmp(wantB) == 0, "matured-unstake-moves-into-the-same-partys-withdrawable-amount")
	sv.Assert(after.get(fmt.Sprint("st:M:", H, ":A")).Sign() == 0 && after.get(fmt.Sprint("st:M:", H+10, ":A")).Cmp(new(big.Int).Mul(mLater, svWei)) == 0, "only-the-record-of-this-height-matures")
	sv.Cover(true, "block-ran")
}
