package app

// Whole ABCI blocks through the real blockBeginner / txDeliverer / blockEnder /
// commitor closures, and the transcript compared by the relational harnesses
// (C01, C07, C08).

import (
	"bytes"
	"fmt"
	"time"

	abci "github.com/tendermint/tendermint/abci/types"

	"github.com/Oneledger/protocol/action"
	"github.com/Oneledger/protocol/data/balance"
	"github.com/Oneledger/protocol/data/delegation"
	"github.com/Oneledger/protocol/identity"
	"github.com/Oneledger/protocol/storage"
	sv "github.com/Oneledger/protocol/zz_sv"
)

// svTranscript: the consensus results of one block.
type svTranscript struct {
	Codes   []uint32
	GasUsed []int64
	Data    [][]byte
	Updates []abci.ValidatorUpdate
	Hash    []byte
	Writes  []svKV // the block-level write cache right before Commit (what is replayed into the tree, in order)
}

func (a *svTranscript) equal(b *svTranscript) bool {
	if len(a.Codes) != len(b.Codes) || len(a.Updates) != len(b.Updates) {
		return false
	}
	for i := range a.Codes {
		if a.Codes[i] != b.Codes[i] || a.GasUsed[i] != b.GasUsed[i] || !bytes.Equal(a.Data[i], b.Data[i]) {
			return false
		}
	}
	for i := range a.Updates {
		if a.Updates[i].Power != b.Updates[i].Power || !bytes.Equal(a.Updates[i].PubKey.Data, b.Updates[i].PubKey.Data) {
			return false
		}
	}
	return svSameWrites(a.Writes, b.Writes)
}

// svGenesisWithValidators: genesis + nv validators (parties 0..nv-1) with the
// given whole-OLT stakes, committed as version 1.
func svGenesisWithValidators(app *App, stakes []int64) {
	svGenesis(app, svDefaultState())
	ctx := &app.Context
	vs := ctx.validators.WithState(ctx.deliver)
	ds := ctx.delegators.WithState(ctx.deliver)
	for i, s := range stakes {
		p := svParty_(i)
		amt := *balance.NewAmount(s)
		if err := ds.Stake(p.Addr, p.Addr, amt); err != nil {
			sv.Unreachable("genesis stake")
		}
		if err := vs.HandleStake(identity.Stake{ValidatorAddress: p.Addr, StakeAddress: p.Addr, Pubkey: p.Pub, ECDSAPubKey: p.Pub,
			Name: fmt.Sprint("node", i), Amount: amt}, false, 0); err != nil {
			sv.Unreachable("genesis validator")
		}
	}
	// an unstake of party A matures at block 3 and another at block 4 (the block-end
	// hook moves them to the withdrawable record)
	for _, h := range []int64{3, 4} {
		mb := &delegation.MatureBlock{Height: h, Data: []*delegation.MatureData{{Address: svParty_(0).Addr, Amount: *balance.NewAmount(7 + h), Height: h}}}
		if err := ds.SetMatureAmounts(h, mb); err != nil {
			sv.Unreachable("genesis maturing record")
		}
	}
	ctx.SetBlockStore(sv.BlockStore([]int64{1}, []int64{1600000000}))
	svCommitBlock(app)
}

func svVotes(nv int, power int64) []abci.VoteInfo {
	var votes []abci.VoteInfo
	for i := 0; i < nv; i++ {
		votes = append(votes, abci.VoteInfo{Validator: abci.Validator{Address: svParty_(i).Addr, Power: power}, SignedLastBlock: true})
	}
	return votes
}

// svBlock runs one full block; hook(pos) is called at every ABCI call boundary:
// 0 before BeginBlock, 1 after it, 2+k after the k-th DeliverTx, then after
// EndBlock and after Commit.
func svBlock(app *App, height int64, nv int, txs []action.SignedTx, hook func(pos int)) *svTranscript {
	tr := &svTranscript{}
	pos := 0
	call := func() {
		if hook != nil {
			hook(pos)
		}
		pos++
	}
	call()
	req := RequestBeginBlock{
		Header:         abci.Header{Height: height, ChainID: "sv", Time: time.Unix(1600000000+17*height, 0).UTC(), ProposerAddress: svParty_(0).Addr},
		LastCommitInfo: abci.LastCommitInfo{Votes: svVotes(nv, 3000000)},
	}
	app.blockBeginner()(req)
	// the store gas of the block's transactions is the environment's arbitrary
	// number in both worlds (the engine does not model record sizes; with the real
	// calculator the native run would charge different fees than the engine)
	app.Context.deliver = app.Context.deliver.WithGas(svEnvGas())
	call()
	for _, tx := range txs {
		r := svDeliver(app, tx)
		tr.Codes = append(tr.Codes, r.Code)
		tr.GasUsed = append(tr.GasUsed, r.GasUsed)
		tr.Data = append(tr.Data, r.Data)
		call()
	}
	eb := app.blockEnder()(RequestEndBlock{Height: height})
	tr.Updates = eb.ValidatorUpdates
	call()
	tr.Writes = svBlockWrites(app)
	tr.Hash = app.commitor()().Data
	call()
	return tr
}

var _ = storage.NewState

// svEnvGas: the environment gas calculator with the shared input "gas.used".
func svEnvGas() *svGasCalc {
	used := sv.Int64("gas.used")
	sv.Assume(used >= 0 && used < 1<<40)
	return &svGasCalc{used: storage.Gas(used)}
}

// svCheckEnvGas: CheckTx with the environment gas calculator on the check state.
func svCheckEnvGas(app *App, tx action.SignedTx) ResponseCheckTx {
	app.Context.check = app.Context.check.WithGas(svEnvGas())
	return svCheck(app, tx)
}
