package app

// C07 — a mempool check of a governance finalise transaction (it runs the
// configuration-update functions, which also refresh in-memory option copies
// shared with block execution).

import (
	"strings"

	"github.com/Oneledger/protocol/action"
	action_gov "github.com/Oneledger/protocol/action/governance"
	action_ons "github.com/Oneledger/protocol/action/ons"
	"github.com/Oneledger/protocol/data/balance"
	"github.com/Oneledger/protocol/data/governance"
	sv "github.com/Oneledger/protocol/zz_sv"
)

var svPropID4 = governance.ProposalID(strings.Repeat("09", 32))

var svC07Updates = []string{
	"propOptions.general.fundingGoal:60000000000",
	"propOptions.general.passPercentage:67",
	"onsOptions.perBlockFees:200000000000000",
	"onsOptions.baseDomainPrice:2000000000000000000",
	"feeOption.minFeeDecimal:10",
}

// SV_C07_governance_checktx: a passed configuration-update proposal waits for
// its finalisation (the block-begin hook of block 3 queues it, the block end
// runs it); anybody may submit the finalise transaction to the mempool in the
// meantime.
//
// sv:bounds genesis with 2 validators, ONS base price inside the documented range; a configuration-update proposal in the passed store (votes yes, yes; escrow 10) whose update is one of 5 (general funding goal, general pass percentage, ONS per-block fee, ONS base price, fee decimal); symbolic funded balance of A; block 3 carries A's PROPOSAL_CREATE (general type, the funding goal and pass percentage of the options in force, initial funding 2*10^9) and A's DOMAIN_CREATE of xy.ol with an arbitrary non-negative price, block 4 carries another PROPOSAL_CREATE with the old terms; a second proposal in voting that B's yes vote would complete; one injected CheckTx of the PROPOSAL_FINALIZE transaction (signed by validator A), of B's completing vote, or of an expiry / finalise naming the second proposal, at any of the 6 call boundaries of block 3
// sv:outside several CheckTx calls; other option groups (staking and evidence updates keep no in-memory copy); real concurrency
// sv:goal DeliverTx codes / gas / data, validator updates and the ordered write sets of both blocks are the same with and without the injected CheckTx
func SV_C07_governance_checktx() {
	sv.NominalSizes(64)
	nv := 2
	update := svC07Updates[sv.Choice("cfg.update", len(svC07Updates))]
	fundA := svNonNeg("fundA")
	mk := func() *App {
		app := svNewApp()
		svInstallIndexer()
		svGenesisWithValidators(app, []int64{3000000, 3000000})
		ctx := &app.Context
		g := ctx.govern.WithState(ctx.deliver).WithHeight(0)
		oo, err := g.GetONSOptions()
		if err != nil {
			sv.Unreachable("ons options")
		}
		oo.BaseDomainPrice = svAmt("1000000000000000000")
		if err := g.SetONSOptions(*oo); err != nil {
			sv.Unreachable("set ons options")
		}
		ctx.domains.SetOptions(oo)
		svFundOLT(app, svParty_(0).Addr, fundA)
		pm := ctx.proposalMaster.WithState(ctx.deliver)
		prop := governance.NewProposal(svPropID, governance.ProposalTypeConfigUpdate, "descr", "headline", svParty_(1).Addr,
			1, balance.NewAmountFromInt(10), 1000, 51, update)
		prop.Status, prop.Outcome = governance.ProposalStatusCompleted, governance.ProposalOutcomeCompletedYes
		if err := pm.Proposal.WithPrefixType(governance.ProposalStatePassed).Set(prop); err != nil {
			sv.Unreachable("proposal")
		}
		for i := 0; i < 2; i++ {
			pv := governance.NewProposalVote(svParty_(i).Addr, governance.OPIN_UNKNOWN, 3000000)
			if err := pm.ProposalVote.Setup(svPropID, pv); err != nil {
				sv.Unreachable("vote setup")
			}
			pv.Opinion = governance.OPIN_POSITIVE
			if err := pm.ProposalVote.Update(svPropID, pv); err != nil {
				sv.Unreachable("vote record")
			}
		}
		if err := pm.ProposalFund.AddFunds(svPropID, svParty_(1).Addr, balance.NewAmountFromInt(10)); err != nil {
			sv.Unreachable("funds")
		}
		// a second proposal (general type) in voting, far from its deadline: A has voted
		// yes, B's yes vote completes it
		p2 := governance.NewProposal(svPropID4, governance.ProposalTypeGeneral, "descr", "headline", svParty_(1).Addr,
			1, balance.NewAmountFromInt(10), 1<<39, 51, "")
		p2.Status = governance.ProposalStatusVoting
		if err := pm.Proposal.WithPrefixType(governance.ProposalStateActive).Set(p2); err != nil {
			sv.Unreachable("second proposal")
		}
		for i := 0; i < 2; i++ {
			pv := governance.NewProposalVote(svParty_(i).Addr, governance.OPIN_UNKNOWN, 3000000)
			if err := pm.ProposalVote.Setup(svPropID4, pv); err != nil {
				sv.Unreachable("vote setup 2")
			}
			if i == 0 {
				pv.Opinion = governance.OPIN_POSITIVE
				if err := pm.ProposalVote.Update(svPropID4, pv); err != nil {
					sv.Unreachable("vote record 2")
				}
			}
		}
		if err := pm.ProposalFund.AddFunds(svPropID4, svParty_(1).Addr, balance.NewAmountFromInt(10)); err != nil {
			sv.Unreachable("funds 2")
		}
		svCommitBlock(app)
		return app
	}
	a, b := mk(), mk()
	who := svParty_(0).Addr
	create := func(id governance.ProposalID) action.SignedTx {
		return svSign(svRaw(action.PROPOSAL_CREATE, &action_gov.CreateProposal{ProposalID: id, ProposalType: governance.ProposalTypeGeneral,
			Headline: "h", Description: "d", Proposer: who, InitialFunding: action.Amount{Currency: "OLT", Value: *balance.NewAmountFromInt(2000000000)},
			FundingDeadline: 80000, FundingGoal: balance.NewAmountFromInt(10000000000), VotingDeadline: 80000 + 150000, PassPercentage: 51}), 0)
	}
	price := svNonNeg("domain.price")
	domain := svSign(svRaw(action.DOMAIN_CREATE, &action_ons.DomainCreate{Owner: who, Beneficiary: who, Name: "xy.ol", Uri: "",
		BuyingPrice: action.Amount{Currency: "OLT", Value: *balance.NewAmountFromBigInt(price)}}), 0)
	fin := svSign(svRaw(action.PROPOSAL_FINALIZE, &action_gov.FinalizeProposal{ProposalID: svPropID, ValidatorAddress: who}), 0)
	// the transaction the mempool checks: the finalise, B's completing vote on the second
	// proposal, or an expiry / a finalise of that second proposal
	b2 := svParty_(1).Addr
	switch sv.Choice("chk.kind", 4) {
	case 1:
		fin = svSign(svRaw(action.PROPOSAL_VOTE, &action_gov.VoteProposal{ProposalID: svPropID4, Address: b2, ValidatorAddress: b2, Opinion: governance.OPIN_POSITIVE}), 1, 1)
	case 2:
		fin = svSign(svRaw(action.EXPIRE_VOTES, &action_gov.ExpireVotes{ProposalID: svPropID4, ValidatorAddress: who}), 0)
	case 3:
		fin = svSign(svRaw(action.PROPOSAL_FINALIZE, &action_gov.FinalizeProposal{ProposalID: svPropID4, ValidatorAddress: who}), 0)
	}
	blk := []action.SignedTx{create(svPropID2), domain}
	where := sv.Choice("inject.at", 6)
	ta1 := svBlock(a, 3, nv, blk, func(pos int) {
		if pos == where {
			r := svCheckEnvGas(a, fin)
			sv.Observe("check.code", r.Code)
			sv.Cover(r.Code == 0, "governance-transaction-admitted-by-the-mempool")
			sv.Cover(true, "checktx-injected")
		}
	})
	tb1 := svBlock(b, 3, nv, blk, nil)
	sv.Assert(ta1.equal(tb1), "block-with-injected-finalise-checktx-has-the-same-results")
	_, st := svPropStageOf(b, svPropID)
	sv.Cover(st == governance.ProposalStateFinalized, "finalised-at-the-block-end")
	ta2 := svBlock(a, 4, nv, []action.SignedTx{create(svPropID3)}, nil)
	tb2 := svBlock(b, 4, nv, []action.SignedTx{create(svPropID3)}, nil)
	sv.Assert(ta2.equal(tb2), "next-block-has-the-same-results")
	sv.Observe("code.create", ta1.Codes[0])
	sv.Observe("code.domain", ta1.Codes[1])
	sv.Observe("code.create2", ta2.Codes[0])
	sv.Cover(ta1.Codes[0] == 0, "proposal-created-in-the-block")
}

func svPropStageOf(app *App, id governance.ProposalID) (*governance.Proposal, governance.ProposalState) {
	pm := app.Context.proposalMaster.WithState(app.Context.deliver)
	p, st, err := pm.Proposal.QueryAllStores(id)
	if err != nil {
		return nil, governance.ProposalStateInvalid
	}
	return p, st
}
