package app

// C17 / C05 — a transfer followed by a contract creation with an endowment, both
// admitted against the state before the block; the creation delivered twice.

import (
	"math/big"
	"strconv"

	"github.com/Oneledger/protocol/action"
	"github.com/Oneledger/protocol/action/olvm"
	"github.com/Oneledger/protocol/data/balance"
	"github.com/Oneledger/protocol/utils"
	sv "github.com/Oneledger/protocol/zz_sv"
	ethcmn "github.com/ethereum/go-ethereum/common"
)

// SV_C17_transfer_then_creation
//
// sv:bounds sender A (account nonce 0 or 1) with arbitrary balance < 2^128, recipient B; an OLVM transfer (nonce n) and a contract creation with an arbitrary endowment and init code STOP (nonce n+1), arbitrary gas limits and prices, both admitted by the real Validate against the state before the block (so the creation may no longer be payable, or payable only in part, when it is delivered); delivered in order, then the creation is delivered a second time
// sv:outside init code with effects; more transactions; contract targets (SV_C17_olvm_step, SV_C17_nested_call)
// sv:goal each delivery with Code 0 debits the sender exactly gas used * price + the value actually transferred (the endowment when the creation succeeded, nothing when it failed in the EVM), credits the fee pool and the created address exactly, and raises the nonce by exactly one; a delivery with Code != 0 changes no balance and no nonce; the second delivery of the creation changes nothing when the first one was executed (the nonce is spent); EVM view = native view throughout
func SV_C17_transfer_then_creation() {
	svCurrencyLimit = 1
	svUseEthParties()
	nonce0 := uint64(sv.Choice("olvm.senderNonce", 2))
	created := svCreatedAddr(nonce0 + 1)
	e := svNewEnv(2, 20, func(e *svEnv) {
		ctx := &e.app.Context
		ctx.stateDB.SetBlockHash(ethcmn.BytesToHash([]byte{1}))
		if nonce0 > 0 {
			k := ctx.accountKeeper.WithState(ctx.deliver)
			acc, err := k.NewAccountWithAddress(svParty_(0).Addr)
			if err != nil {
				sv.Unreachable("keeper account")
			}
			acc.Sequence = nonce0
			if err := k.SetAccount(*acc); err != nil {
				sv.Unreachable("keeper set")
			}
		}
		e.extra = append(e.extra, func(l *svLedger) {
			c, err := ctx.balances.WithState(ctx.deliver).GetBalanceForCurr(created, &svOLT)
			if err != nil {
				sv.Unreachable("ledger: created balance")
			}
			l.add("b:created:OLT", "created", "OLT", c.Amount.BigInt())
		})
	})
	sv.Assume(e.ledger().get("b:A:OLT").Cmp(svTwo128) < 0 && e.ledger().get("b:B:OLT").Cmp(svTwo128) < 0)
	to := svParty_(1).Addr
	mk := func(tag string, nonce uint64, create bool) action.SignedTx {
		msg := &olvm.Transaction{Nonce: nonce, From: svParty_(0).Addr,
			Amount:  action.Amount{Currency: "OLT", Value: *balance.NewAmountFromBigInt(sv.BigInt(tag + ".amount"))},
			ChainID: utils.HashToBigInt(svHeader(0).ChainID)}
		if create {
			msg.Data = []byte{0x00}
		} else {
			msg.To = &to
		}
		data, err := msg.Marshal()
		if err != nil {
			sv.Unreachable("marshal")
		}
		raw := action.RawTx{Type: action.OLVM, Data: data, Memo: strconv.FormatUint(nonce, 10),
			Fee: action.Fee{Price: action.Amount{Currency: "OLT", Value: *balance.NewAmountFromBigInt(sv.BigInt(tag + ".price"))}, Gas: sv.Int64(tag + ".gas")}}
		return svSignOLVM(raw, 0)
	}
	tx1, tx2 := mk("tx1", nonce0, false), mk("tx2", nonce0+1, true)
	sv.Assume(e.validate(tx1))
	sv.Assume(e.validate(tx2))
	deliver := func(tag string, tx action.SignedTx, dest string) uint32 {
		l0, n0 := e.ledger(), e.nonceOf(svParty_(0).Addr)
		resp := svDeliver(e.app, tx)
		l1, n1 := e.ledger(), e.nonceOf(svParty_(0).Addr)
		sv.Observe(tag+".code", resp.Code)
		sv.Observe(tag+".A", l1.get("b:A:OLT"))
		sv.Observe(tag+".nonce", n1)
		sv.Assert(e.evmView(svParty_(0).Addr).Cmp(l1.get("b:A:OLT")) == 0 && e.evmView(created).Cmp(l1.get("b:created:OLT")) == 0, "evm-and-native-balance-agree")
		if resp.Code != 0 {
			for k, c := range l1.cells {
				sv.Assert(c.V.Cmp(l0.cells[k].V) == 0, "refused-olvm-tx-changes-no-balance")
			}
			sv.Assert(n1 == n0, "refused-olvm-tx-keeps-the-nonce")
			return resp.Code
		}
		m := &olvm.Transaction{}
		m.Unmarshal(tx.Data)
		fee := new(big.Int).Mul(big.NewInt(resp.GasUsed), tx.Fee.Price.Value.BigInt())
		moved := new(big.Int)
		if svOLVMStatus(resp) == "1" {
			moved.Set(m.Amount.Value.BigInt())
		}
		want := map[string]*big.Int{}
		for _, c := range l0.cells {
			want[c.Name] = new(big.Int).Set(c.V)
		}
		want["b:A:OLT"].Sub(want["b:A:OLT"], fee).Sub(want["b:A:OLT"], moved)
		want["f:pool"].Add(want["f:pool"], fee)
		want[dest].Add(want[dest], moved)
		for _, c := range l1.cells {
			sv.Assert(c.V.Cmp(want[c.Name]) == 0, "exact-olvm-accounting:"+c.Name)
		}
		sv.Assert(n1 == n0+1, "an-executed-olvm-transaction-spends-its-nonce")
		return 0
	}
	c1 := deliver("tx1", tx1, "b:B:OLT")
	c2 := deliver("tx2", tx2, "b:created:OLT")
	sv.Cover(c1 == 0 && c2 == 0, "transfer-and-creation-executed")
	sv.Cover(c1 == 0 && c2 != 0, "creation-refused-after-the-transfer")
	// the same creation again
	l0, n0 := e.ledger(), e.nonceOf(svParty_(0).Addr)
	again := svDeliver(e.app, tx2)
	l1, n1 := e.ledger(), e.nonceOf(svParty_(0).Addr)
	sv.Observe("again.code", again.Code)
	if c2 == 0 {
		sv.Assert(again.Code != 0, "an-executed-creation-is-refused-the-second-time")
		for k, c := range l1.cells {
			sv.Assert(c.V.Cmp(l0.cells[k].V) == 0, "second-delivery-of-an-executed-creation-changes-nothing")
		}
		sv.Assert(n1 == n0, "second-delivery-of-an-executed-creation-changes-nothing")
	}
}

// SV_C05_olvm_creation_replay: the at-most-once reading of the same exploration.
//
// sv:bounds as SV_C17_transfer_then_creation
// sv:outside as SV_C17_transfer_then_creation
// sv:goal as SV_C17_transfer_then_creation, in particular an-executed-olvm-transaction-spends-its-nonce and second-delivery-of-an-executed-creation-changes-nothing
func SV_C05_olvm_creation_replay() { SV_C17_transfer_then_creation() }
