package app

// Ethereum lock / redeem / finality-report kinds and the C15 handler harness.

import (
	"errors"
	"math/big"

	"github.com/Oneledger/protocol/action"
	action_eth "github.com/Oneledger/protocol/action/eth"
	"github.com/Oneledger/protocol/chains/ethereum"
	"github.com/Oneledger/protocol/chains/ethereum/contract"
	"github.com/Oneledger/protocol/data/balance"
	"github.com/Oneledger/protocol/data/chain"
	trackerlib "github.com/Oneledger/protocol/data/ethereum"
	"github.com/Oneledger/protocol/data/keys"
	"github.com/Oneledger/protocol/identity"
	sv "github.com/Oneledger/protocol/zz_sv"
	"github.com/ethereum/go-ethereum/accounts/abi"
	ethcmn "github.com/ethereum/go-ethereum/common"
	ethtypes "github.com/ethereum/go-ethereum/core/types"
)

// Real signed, RLP-encoded Ethereum transactions to the lock/redeem contract
// (generated once with go-ethereum; the engine does not decode RLP, see
// svModel_DecodeTransaction): two locks (5 and 7 wei) and two redeems (3, 4).
type svExtTx struct {
	to     *ethcmn.Address // recipient when it is not the ETH lock/redeem contract
	create bool            // contract creation: no recipient
	raw    []byte
	nonce  uint64
	value  int64
	data   []byte
	lock   bool
	amount int64
}

var svEthContract = ethcmn.HexToAddress("0xc0ffee0000000000000000000000000000c0ffee")

var svExtTxs = []svExtTx{
	{raw: ethcmn.FromHex("f8640101830186a094c0ffee0000000000000000000000000000c0ffee0584f83d08ba2ca09e8ebe61deaae5ec135e2c003a4dbc3720804bbb135aeb7a2f6edf3dd9464513a03f89309475834b2439a4d02e17c9a8b53e560964adef54e9e6ca89a71bd551d6"),
		nonce: 1, value: 5, data: ethcmn.FromHex("f83d08ba"), lock: true, amount: 5},
	{raw: ethcmn.FromHex("f8640201830186a094c0ffee0000000000000000000000000000c0ffee0784f83d08ba2ba0534b0be04d4183f337a2075eedf7b16ca22dc5cb72cae3bdb87befa6648bbbc0a009defa19bd13f506ae134d1a9bf9318f869ca46dbbec6c00e10e2b8c235fb908"),
		nonce: 2, value: 7, data: ethcmn.FromHex("f83d08ba"), lock: true, amount: 7},
	{raw: ethcmn.FromHex("f8840301830186a094c0ffee0000000000000000000000000000c0ffee80a4db006a7500000000000000000000000000000000000000000000000000000000000000032ca0288cad62d461b4bcb571c99a2daddf7c999ec3b93d690de58b8733a4b4d004ffa04d760bcf88ed4cb47fffb779e4e1e35f0a901d9ec32f36c3008cd4a30ca928dc"),
		nonce: 3, value: 0, data: ethcmn.FromHex("db006a750000000000000000000000000000000000000000000000000000000000000003"), amount: 3},
	{raw: ethcmn.FromHex("f8840401830186a094c0ffee0000000000000000000000000000c0ffee80a4db006a7500000000000000000000000000000000000000000000000000000000000000042ca0dd0bfbbc4f5a689f619d28ba251e2ff34ca60953146b6ce897860cc97efeb50fa0124e7644e273107b5ccde1a862c885032a97188877662cd65875ecdab52075c6"),
		nonce: 4, value: 0, data: ethcmn.FromHex("db006a750000000000000000000000000000000000000000000000000000000000000004"), amount: 4},
	// a contract creation (no recipient) whose data is the lock selector
	{raw: ethcmn.FromHex("f8500501830186a0800984f83d08ba2ba08f70ffed430c075f0aaab7c47c64ce3ea140a063753218615b598be2f74fbec1a0128816f4cc8bb75dc87c2a78319ab789c423b78b8e74d03b322efc023d003bec"),
		nonce: 5, value: 9, data: ethcmn.FromHex("f83d08ba"), lock: true, amount: 9, create: true},
}

var svGarbageExt = []byte{0x01, 0x02, 0x03}

func svExtOf(raw []byte) *svExtTx {
	for i := range svExtTxs {
		if string(svExtTxs[i].raw) == string(raw) {
			return &svExtTxs[i]
		}
	}
	return nil
}

// svModel_DecodeTransaction stands for the RLP decoding of a raw Ethereum
// transaction: the five transactions above decode to their content, any other
// byte string is refused (go-ethereum's decoder returns an error for it).
//
// sv:models github.com/Oneledger/protocol/chains/ethereum.DecodeTransaction
func svModel_DecodeTransaction(data []byte) (*ethtypes.Transaction, error) {
	x := svExtOf(data)
	if x == nil {
		return nil, errors.New("Unable to decode Bytes")
	}
	to := &svEthContract
	if x.to != nil {
		to = x.to
	}
	if x.create {
		to = nil
	}
	return ethtypes.NewTx(&ethtypes.LegacyTx{Nonce: x.nonce, To: to, Value: big.NewInt(x.value), Gas: 100000, GasPrice: big.NewInt(1), Data: x.data}), nil
}

// sv:models github.com/Oneledger/protocol/chains/ethereum.VerifyLock
func svModel_VerifyLock(tx *ethtypes.Transaction, contractabi string) (bool, error) {
	return string(tx.Data()) == string([]byte{0xf8, 0x3d, 0x08, 0xba}), nil // abi.Pack("lock")
}

// sv:models github.com/Oneledger/protocol/chains/ethereum.StringTOABI
func svModel_StringTOABI(contractAbi string) (*abi.ABI, error) {
	if contractAbi == "" { // go-ethereum's parser refuses an empty document
		return nil, errors.New("Unable to get contract Abi for Test Token from ChainDriver options")
	}
	return &abi.ABI{}, nil
}

// sv:models github.com/Oneledger/protocol/chains/ethereum.getSignFromName
func svModel_getSignFromName(contractAbi *abi.ABI, methodName string, funcSigs map[string]string) (string, error) {
	// the ABI documents the harness configures correspond to the signature
	// tables the callers pass: the method exists iff the table lists it
	for sel, sig := range funcSigs {
		if len(sig) > len(methodName) && sig[:len(methodName)+1] == methodName+"(" {
			return sel, nil
		}
	}
	return "", errors.New("Function not found in abi ")
}

const svSupplyAddr = "oneledgerSupplyAddress"

var svExtraWitness = keys.Address(ethcmn.FromHex("ee000000000000000000000000000000000000ee"))

type svEthPre struct {
	where  int // 0 no tracker, 1 ongoing, 2 passed store, 3 failed store
	ext    int // which external transaction the tracker is about
	owner  int
	votes  []int // per witness: 0 none, 1 yes, 2 no
	state  trackerlib.TrackerState
	wit    []keys.Address
	supply *big.Int
}

// svWitnesses: the witness list in the order the store returns it (sorted by address).
func svWitnessList(e *svEnv) []keys.Address {
	w, err := e.app.Context.witnesses.WithState(e.app.Context.deliver).GetWitnessAddresses(chain.ETHEREUM)
	if err != nil {
		sv.Unreachable("witness list")
	}
	return w
}

// svPreETH: chain-driver options with the real contract ABI, the three parties
// and one more address as Ethereum witnesses, a wrapped-supply counter equal to
// the ETH in circulation, and a tracker for one of the external transactions in
// an arbitrary position (absent / ongoing with arbitrary recorded votes and the
// state they imply / passed store / failed store).
func svPreETH(pre *svEthPre, kind int) func(e *svEnv) {
	return func(e *svEnv) {
		ctx := &e.app.Context
		opt := ethereum.ChainDriverOption{ContractABI: contract.LockRedeemABI, ContractAddress: svEthContract,
			TotalSupply: "1000000000000000000000000000000", TotalSupplyAddr: svSupplyAddr, BlockConfirmation: 1}
		g := ctx.govern.WithState(ctx.deliver).WithHeight(0)
		if err := g.SetETHChainDriverOption(opt); err != nil {
			sv.Unreachable("eth options")
		}
		ctx.ethTrackers.SetupOption(&opt)
		ws := ctx.witnesses.WithState(ctx.deliver)
		for i := 0; i < e.n; i++ {
			p := svParty_(i)
			if err := ws.AddWitness(chain.ETHEREUM, identity.Stake{ValidatorAddress: p.Addr, StakeAddress: p.Addr, Pubkey: p.Pub, ECDSAPubKey: p.Pub, Name: "w" + svPartyName(i)}); err != nil {
				sv.Unreachable("witness")
			}
		}
		if err := ws.AddWitness(chain.ETHEREUM, identity.Stake{ValidatorAddress: svExtraWitness, StakeAddress: svExtraWitness, Name: "wx"}); err != nil {
			sv.Unreachable("witness")
		}
		// the wrapped-supply counter mirrors the ETH in circulation
		bal := ctx.balances.WithState(ctx.deliver)
		sum := new(big.Int)
		for i := 0; i < e.n; i++ {
			c, _ := bal.GetBalanceForCurr(svParty_(i).Addr, &svETH)
			sum.Add(sum, c.Amount.BigInt())
		}
		pre.supply = sum
		if err := bal.AddToAddress(keys.Address(svSupplyAddr), svETH.NewCoinFromAmount(*balance.NewAmountFromBigInt(sum))); err != nil {
			sv.Unreachable("supply counter")
		}
		e.extra = append(e.extra, func(l *svLedger) {
			c, err := ctx.balances.WithState(ctx.deliver).GetBalanceForCurr(keys.Address(svSupplyAddr), &svETH)
			if err != nil {
				sv.Unreachable("ledger: supply counter")
			}
			l.addMirror("ethSupplyCounter", "counter", "ETH", c.Amount.BigInt())
		})
		// witnesses in store order: sorted by address
		pre.wit = []keys.Address{svParty_(0).Addr, svParty_(1).Addr, svParty_(2).Addr, svExtraWitness}
		for i := range pre.wit {
			for j := i + 1; j < len(pre.wit); j++ {
				if string(pre.wit[j]) < string(pre.wit[i]) {
					pre.wit[i], pre.wit[j] = pre.wit[j], pre.wit[i]
				}
			}
		}
		quick := sv.Tier() == 0
		if svLean {
			pre.where = sv.Choice("eth.where", 2) // absent, ongoing
		} else if kind == 2 && quick {
			pre.where = 1 + sv.Choice("eth.where", 2)*2 // ongoing, or in the failed store
		} else {
			pre.where = sv.Choice("eth.where", 4)
		}
		// a bystander: an ongoing tracker for the second lock (7 wei) owned by B with
		// two yes votes, which the harness's transactions name only by submitting
		// that very external transaction
		{
			x := svExtTxs[1]
			bt := trackerlib.NewTracker(trackerlib.ProcessTypeLock, svParty_(1).Addr, x.raw, ethcmn.BytesToHash(x.raw), pre.wit)
			bt.ProcessOwner = svParty_(1).Addr
			bt.State = trackerlib.BusyFinalizing
			bt.FinalityVotes[0], bt.FinalityVotes[1] = 1, 1
			if err := ctx.ethTrackers.WithState(ctx.deliver).WithPrefixType(trackerlib.PrefixOngoing).Set(bt); err != nil {
				sv.Unreachable("bystander tracker")
			}
		}
		if pre.where == 0 {
			return
		}
		pre.ext = sv.Choice("eth.ext", 2) * 2 // lock of 5 or redeem of 3
		if !quick {
			pre.owner = sv.Choice("eth.owner", e.n)
		}
		x := svExtTxs[pre.ext]
		typ := trackerlib.ProcessTypeRedeem
		if x.lock {
			typ = trackerlib.ProcessTypeLock
		}
		name := ethcmn.BytesToHash(x.raw)
		t := trackerlib.NewTracker(typ, svParty_(pre.owner).Addr, x.raw, name, pre.wit)
		t.ProcessOwner = svParty_(pre.owner).Addr
		pre.votes = make([]int, len(pre.wit))
		prefix := trackerlib.PrefixOngoing
		switch pre.where {
		case 1:
			if kind != 2 {
				// lock / redeem submissions do not look at the votes
			} else if quick {
				// representative vote vectors, rotated over the witness slots
				nvec, nrot := 8, 4
				if svLean {
					nvec, nrot = 3, 2
				}
				vec := [][]int{{0, 0, 0, 0}, {1, 1, 0, 0}, {1, 1, 1, 0}, {2, 2, 0, 0}, {2, 2, 2, 0}, {1, 2, 0, 0}, {1, 1, 2, 0}, {2, 2, 1, 0}}[sv.Choice("eth.votes", nvec)]
				rot := sv.Choice("eth.rotation", nrot)
				for i := range pre.wit {
					pre.votes[(i+rot)%4] = vec[i]
				}
			} else {
				for i := range pre.wit {
					pre.votes[i] = sv.Choice("eth.vote"+string(rune('0'+i)), 3)
				}
			}
			for i := range pre.wit {
				t.FinalityVotes[i] = trackerlib.Vote(pre.votes[i])
			}
			// the state the recorded votes imply (the handler sets it in the same transaction)
			t.State = trackerlib.BusyBroadcasting
			if t.Finalized() {
				t.State = trackerlib.Released
			} else if t.Failed() {
				t.State = trackerlib.Failed
			}
		case 2:
			prefix, t.State = trackerlib.PrefixPassed, trackerlib.Released
		case 3:
			prefix, t.State = trackerlib.PrefixFailed, trackerlib.Failed
		}
		pre.state = t.State
		if err := ctx.ethTrackers.WithState(ctx.deliver).WithPrefixType(prefix).Set(t); err != nil {
			sv.Unreachable("tracker")
		}
	}
}

func svAnyExt(name string) []byte {
	switch c := sv.Choice(name, 7); c {
	case 5:
		return svGarbageExt
	case 6:
		return []byte{}
	default:
		return svExtTxs[c].raw // two locks, two redeems, a contract creation
	}
}

func svBuildETH(e *svEnv, pre *svEthPre, kind int) (action.RawTx, []int) {
	i, who := svAnyParty("actor", e.n)
	switch kind {
	case 0:
		return svRaw(action.ETH_LOCK, &action_eth.Lock{Locker: who, ETHTxn: svAnyExt("ext")}), []int{i}
	case 1:
		return svRaw(action.ETH_REDEEM, &action_eth.Redeem{Owner: who, To: ethcmn.BytesToAddress([]byte{0xbe, 0xef}), ETHTxn: svAnyExt("ext")}), []int{i}
	}
	name := ethcmn.BytesToHash(svExtTxs[sv.Choice("report.tracker", 2)*2].raw)
	locker := svParty_((pre.owner + sv.Choice("report.lockerOffset", 2)) % e.n).Addr // the owner, or somebody else
	idx := sv.Int64("report.voteIndex")
	return svRaw(action.ETH_REPORT_FINALITY_MINT, &action_eth.ReportFinality{TrackerName: name, Locker: locker, ValidatorAddress: who,
		VoteIndex: idx, Success: sv.Choice("report.success", 2) == 0}), []int{i}
}

func svTrackerAt(e *svEnv, name ethcmn.Hash) (*trackerlib.Tracker, int) {
	ts := e.app.Context.ethTrackers.WithState(e.app.Context.deliver)
	for i, p := range []trackerlib.PrefixType{trackerlib.PrefixOngoing, trackerlib.PrefixPassed, trackerlib.PrefixFailed} {
		if t, err := ts.WithPrefixType(p).Get(name); err == nil {
			return t, i + 1
		}
	}
	return nil, 0
}

func svVoteCount(votes []int, v int) int {
	n := 0
	for _, x := range votes {
		if x == v {
			n++
		}
	}
	return n
}

// SV_C15_handlers: one ETH_LOCK, ETH_REDEEM or finality report through the real
// txDeliverer.
//
// sv:bounds 4 witnesses (the 3 parties and one more address), threshold floor(2*4/3)+1 = 3; a tracker for the lock of 5 or the redeem of 3 absent, ongoing with recorded votes (quick: 8 representative vectors in every rotation over the slots; thorough: every combination; state as the votes imply), in the passed or in the failed store, owner party A (thorough: any); kinds: lock / redeem with any party as locker / owner and the external transaction one of two locks, two redeems, a contract creation carrying the lock selector, garbage bytes or empty; report by any party for either tracker name, any vote index (symbolic int64), success or failure, Locker field the owner or another party; ETH balances symbolic; the shared tracker store's selected prefix (in-memory residue) ongoing, failed or passed; mempool-admitted regime
// sv:outside ERC20 lock / redeem; the RLP and ABI decoding of the external transaction (models svModel_DecodeTransaction, svModel_VerifyLock, svModel_StringTOABI, svModel_getSignFromName; the byte strings are real transactions and the native replay decodes them with go-ethereum); block-end tracker transitions; more than 4 witnesses (SV_C15_addvote / SV_C15_threshold cover 1..5 at the tracker level); histories
// sv:goal another ongoing tracker (second lock, two yes votes) is never changed; a report changes ETH holdings only when its own vote makes the count cross the threshold: a lock then mints exactly the locked amount to the tracker's owner (whatever the report names as locker) and raises the supply counter by the same amount, a redeem failure refunds exactly the redeemed amount to the owner; a vote counts only from the witness recorded at the given index that has not voted; reports on a decided tracker change nothing; a lock creates a tracker (owner = locker, no votes, no mint) only when no ongoing or passed tracker has that external transaction; a redeem debits the owner and the counter by exactly the amount and creates the tracker only when none exists in any store; the supply counter always equals the ETH held by the parties
func SV_C15_handlers() {
	svCurrencyLimit = 1
	pre := &svEthPre{}
	kind := sv.Choice("kind", 3)
	e := svNewEnv(3, 20, svPreETH(pre, kind))
	raw, signers := svBuildETH(e, pre, kind)
	actor := signers[0]
	// in-memory residue: the tracker store's selected prefix is whatever the previous handler left
	residue := []trackerlib.PrefixType{trackerlib.PrefixOngoing, trackerlib.PrefixFailed, trackerlib.PrefixPassed}[sv.Choice("residue.prefix", 3)]
	e.beforeDeliver = func() { e.app.Context.ethTrackers.WithPrefixType(residue) }
	r := e.step(raw, signers, true)
	ok := r.resp.Code == 0
	// the bystander tracker is untouched
	if bt, at := svTrackerAt(e, ethcmn.BytesToHash(svExtTxs[1].raw)); true {
		y, n := 0, 0
		if bt != nil {
			y, n = bt.GetVotes()
		}
		sv.Assert(bt != nil && at == 1 && y == 2 && n == 0 && bt.State == trackerlib.BusyFinalizing && bt.ProcessOwner.Equal(svParty_(1).Addr), "a-tracker-no-transaction-names-is-untouched")
	}
	dETH := func(i int) *big.Int {
		n := "b:" + svPartyName(i) + ":ETH"
		return new(big.Int).Sub(r.after.get(n), r.before.get(n))
	}
	dSupply := new(big.Int).Sub(r.after.get("ethSupplyCounter"), r.before.get("ethSupplyCounter"))
	// the counter mirrors the circulation
	circ := new(big.Int)
	for i := 0; i < e.n; i++ {
		circ.Add(circ, r.after.get("b:"+svPartyName(i)+":ETH"))
	}
	sv.Assert(r.after.get("ethSupplyCounter").Cmp(circ) == 0, "supply-counter-equals-the-wrapped-tokens-in-circulation")
	noETHChange := func(label string) {
		for i := 0; i < e.n; i++ {
			sv.Assert(dETH(i).Sign() == 0, label)
		}
		sv.Assert(dSupply.Sign() == 0, label)
	}
	if !ok {
		noETHChange("refused-transaction-moves-no-wrapped-tokens")
		return
	}
	switch kind {
	case 0:
		m := &action_eth.Lock{}
		m.Unmarshal(raw.Data)
		x := svExtOf(m.ETHTxn)
		sv.Assert(x != nil && x.lock, "lock-only-for-a-well-formed-lock-transaction")
		noETHChange("nothing-is-minted-when-the-lock-is-submitted")
		if x != nil {
			sv.Assert(!(pre.where != 0 && pre.where != 3 && pre.ext == 0 && x == &svExtTxs[0]), "one-external-transaction-never-backs-two-trackers")
			t, at := svTrackerAt(e, ethcmn.BytesToHash(m.ETHTxn))
			sv.Assert(t != nil && at == 1 && t.ProcessOwner.Equal(svParty_(actor).Addr) && t.Type == trackerlib.ProcessTypeLock, "lock-tracker-belongs-to-the-locker")
			if t != nil {
				y, n := t.GetVotes()
				sv.Assert(y == 0 && n == 0 && len(t.Witnesses) == 4, "new-tracker-has-no-votes-and-the-current-witnesses")
			}
			sv.Cover(true, "lock-accepted")
		}
	case 1:
		m := &action_eth.Redeem{}
		m.Unmarshal(raw.Data)
		x := svExtOf(m.ETHTxn)
		sv.Assert(x != nil && !x.lock, "redeem-only-for-a-well-formed-redeem-transaction")
		if x != nil {
			amt := big.NewInt(x.amount)
			sv.Assert(dETH(actor).Cmp(new(big.Int).Neg(amt)) == 0 && dSupply.Cmp(new(big.Int).Neg(amt)) == 0, "redeem-debits-the-owner-and-the-counter-by-the-amount")
			sv.Assert(!(pre.where != 0 && pre.ext == 2 && x == &svExtTxs[2]), "one-external-transaction-never-backs-two-trackers")
			t, at := svTrackerAt(e, ethcmn.BytesToHash(m.ETHTxn))
			sv.Assert(t != nil && at == 1 && t.ProcessOwner.Equal(svParty_(actor).Addr) && t.Type == trackerlib.ProcessTypeRedeem, "redeem-tracker-belongs-to-the-owner")
			sv.Cover(true, "redeem-accepted")
		}
	default:
		m := &action_eth.ReportFinality{}
		m.Unmarshal(raw.Data)
		mine := pre.where == 1 && m.TrackerName == ethcmn.BytesToHash(svExtTxs[pre.ext].raw)
		sv.Assert(mine, "report-only-on-an-ongoing-tracker")
		if !mine {
			return
		}
		yes0, no0 := svVoteCount(pre.votes, 1), svVoteCount(pre.votes, 2)
		decided := yes0 >= 3 || no0 >= 3
		// does this vote count?
		counts := false
		if !decided && m.VoteIndex >= 0 && m.VoteIndex < 4 && pre.wit[m.VoteIndex].Equal(svParty_(actor).Addr) && pre.votes[m.VoteIndex] == 0 {
			counts = true
		}
		yes1, no1 := yes0, no0
		if counts && m.Success {
			yes1++
		} else if counts {
			no1++
		}
		t, _ := svTrackerAt(e, m.TrackerName)
		if t != nil {
			y, n := t.GetVotes()
			sv.Assert(y == yes1 && n == no1, "only-the-recorded-witness's-first-vote-counts")
		}
		x := svExtTxs[pre.ext]
		amt := big.NewInt(x.amount)
		crossedYes := !decided && yes1 >= 3
		crossedNo := !decided && no1 >= 3
		switch {
		case crossedYes && x.lock:
			for i := 0; i < e.n; i++ {
				want := new(big.Int)
				if i == pre.owner {
					want = amt
				}
				sv.Assert(dETH(i).Cmp(want) == 0, "mint-exactly-the-locked-amount-to-the-account-that-submitted-the-lock")
			}
			sv.Assert(dSupply.Cmp(amt) == 0, "mint-raises-the-supply-counter-by-the-amount")
			sv.Cover(true, "minted")
		case crossedNo && !x.lock:
			for i := 0; i < e.n; i++ {
				want := new(big.Int)
				if i == pre.owner {
					want = amt
				}
				sv.Assert(dETH(i).Cmp(want) == 0, "refund-exactly-the-redeemed-amount-to-the-owner")
			}
			sv.Assert(dSupply.Cmp(amt) == 0, "refund-raises-the-supply-counter-by-the-amount")
			sv.Cover(true, "refunded")
		default:
			noETHChange("no-mint-or-refund-without-crossing-the-threshold")
			sv.Cover(decided, "report-on-a-decided-tracker")
			sv.Cover(!decided && counts, "vote-recorded-below-threshold")
		}
	}
}
