package app

// C12 — delegation pool consistency and undelegation maturity: the BeginBlock
// maturity hooks, one step from an arbitrary pending table.

import (
	"fmt"
	"math/big"

	"github.com/Oneledger/protocol/data/balance"
	sv "github.com/Oneledger/protocol/zz_sv"
)

// c12HeightsAt: the heights at which a pending entry can exist at block `now`.
// Invariant of every reachable state (maturity is the hard-coded constant
// RewardsMaturityTime = 4, heights are consecutive): an entry is created only
// at key height (creation height + 4) <= now + 4, and entries below `now` have
// been zeroed at their own height. Pre-states outside this invariant (e.g. an
// entry at height 70 while now = 7, which would collide with the un-terminated
// key prefix "deleg_p_7") are unreachable and therefore not examined.
func c12HeightsAt(now int64) []int64 { return []int64{now - 1, now, now + 1, now + 4} }

func c12Amount(name string) *balance.Amount {
	v := sv.BigInt(name)
	sv.Assume(v.Sign() >= 0)
	return balance.NewAmountFromBigInt(v)
}

// SV_C12_mature_undelegation: addMaturedAmountsToBalance at height `now` from
// an arbitrary committed pending-undelegation table.
//
// sv:bounds 2 delegators; now in {7,70}; pending entries at heights {now-1 (already matured: zero), now, now+1, now+4} for both delegators, each an arbitrary amount >= 0; balances arbitrary >= 0
// sv:outside histories (one BeginBlock step from an arbitrary table satisfying the reachable-state invariant: key height <= now + RewardsMaturityTime); more than 2 delegators
// sv:goal exactly the entries of height == now are paid, each to its own delegator, each is then zero, and no entry of another height changes
func SV_C12_mature_undelegation() {
	app := svNewApp()
	svGenesis(app, svDefaultState())
	ctx := &app.Context
	deleg := ctx.netwkDelegators.Deleg.WithState(ctx.deliver)
	bal := ctx.balances.WithState(ctx.deliver)
	now := []int64{7, 70}[sv.Choice("now", 2)]
	pend := map[string]*balance.Amount{}
	bal0 := map[int]*balance.Amount{}
	for d := 0; d < 2; d++ {
		bal0[d] = c12Amount(fmt.Sprint("bal", d))
		if err := bal.AddToAddress(svAddr(d), svCoin(bal0[d])); err != nil {
			sv.Unreachable("setup balance")
		}
		for _, h := range c12HeightsAt(now) {
			a := c12Amount(fmt.Sprint("pend_", h, "_", d))
			if h < now {
				sv.Assume(a.BigInt().Sign() == 0)
			}
			pend[fmt.Sprint(h, "_", d)] = a
			c := svCoin(a)
			if err := deleg.SetPendingAmount(svAddr(d), h, &c); err != nil {
				sv.Unreachable("setup pending")
			}
		}
	}
	svCommitBlock(app)
	svFreshDeliver(app)

	req := RequestBeginBlock{Header: svHeader(now)}
	addMaturedAmountsToBalance(&app.Context, app.logger, &req)

	deleg = app.Context.netwkDelegators.Deleg.WithState(app.Context.deliver)
	bal = app.Context.balances.WithState(app.Context.deliver)
	for d := 0; d < 2; d++ {
		got, err := bal.GetBalanceForCurr(svAddr(d), &svOLT)
		sv.Assert(err == nil, "balance-readable")
		due := pend[fmt.Sprint(now, "_", d)]
		want := new(big.Int).Add(bal0[d].BigInt(), due.BigInt())
		sv.Observe(fmt.Sprint("balance", d), got.Amount.BigInt())
		sv.Observe(fmt.Sprint("want", d), want)
		sv.Assert(got.Amount.BigInt().Cmp(want) == 0, "paid-exactly-the-entry-of-this-height")
		for _, h := range c12HeightsAt(now) {
			p, err := deleg.GetPendingAmount(svAddr(d), h)
			sv.Assert(err == nil, "pending-readable")
			if h == now {
				sv.Assert(p.Amount.BigInt().Sign() == 0, "matured-entry-zeroed")
			} else {
				sv.Assert(p.Amount.BigInt().Cmp(pend[fmt.Sprint(h, "_", d)].BigInt()) == 0, "entries-of-other-heights-untouched")
			}
		}
	}
	sv.Cover(pend[fmt.Sprint(now, "_", 0)].BigInt().Sign() > 0, "something-matured")
}
