package app

// C12 — delegation pool consistency and undelegation maturity: the BeginBlock
// maturity hooks, one step from an arbitrary pending table.

import (
	"fmt"
	"math/big"

	abci "github.com/tendermint/tendermint/abci/types"

	"github.com/Oneledger/protocol/action"
	"github.com/Oneledger/protocol/data/balance"
	"github.com/Oneledger/protocol/data/keys"
	netwkDeleg "github.com/Oneledger/protocol/data/network_delegation"
	"github.com/Oneledger/protocol/identity"
	sv "github.com/Oneledger/protocol/zz_sv"
)

// c12HeightsAt: the heights at which a pending entry can exist at block `now`.
// Invariant of every reachable state: an entry is created at key height
// (creation height + RewardsMaturityTime) <= now + RewardsMaturityTime, and
// entries below `now` have been zeroed at their own height. The maturity time is
// a genesis option (the constant 4 is only the in-code default; the testnet
// initialiser uses 109200), so entries far ahead of `now` are reachable: 10*now
// stands for them (its decimal text starts with that of `now`).
func c12HeightsAt(now int64) []int64 { return []int64{now - 1, now, now + 1, now + 4, 10 * now} }

func c12Amount(name string) *balance.Amount {
	v := sv.BigInt(name)
	sv.Assume(v.Sign() >= 0)
	return balance.NewAmountFromBigInt(v)
}

// SV_C12_mature_undelegation: addMaturedAmountsToBalance at height `now` from
// an arbitrary committed pending-undelegation table.
//
// sv:bounds 2 delegators; now in {7,70}; pending entries at heights {now-1 (already matured: zero), now, now+1, now+4, 10*now} for both delegators, each an arbitrary amount >= 0; balances arbitrary >= 0
// sv:outside histories (one BeginBlock step from an arbitrary table satisfying the reachable-state invariant: key height <= now + RewardsMaturityTime, the maturity time being any genesis option value); more than 2 delegators
// sv:goal exactly the entries of height == now are paid, each to its own delegator, each is then zero, and no entry of another height changes
func SV_C12_mature_undelegation() {
	app := svNewApp()
	svGenesis(app, svDefaultState())
	ctx := &app.Context
	deleg := ctx.netwkDelegators.Deleg.WithState(ctx.deliver)
	bal := ctx.balances.WithState(ctx.deliver)
	now := []int64{7, 70}[sv.Choice("now", 2)]
	pend := map[string]*balance.Amount{}
	bal0 := map[int]*balance.Amount{}
	for d := 0; d < 2; d++ {
		bal0[d] = c12Amount(fmt.Sprint("bal", d))
		if err := bal.AddToAddress(svAddr(d), svCoin(bal0[d])); err != nil {
			sv.Unreachable("setup balance")
		}
		for _, h := range c12HeightsAt(now) {
			a := c12Amount(fmt.Sprint("pend_", h, "_", d))
			if h < now {
				sv.Assume(a.BigInt().Sign() == 0)
			}
			pend[fmt.Sprint(h, "_", d)] = a
			c := svCoin(a)
			if err := deleg.SetPendingAmount(svAddr(d), h, &c); err != nil {
				sv.Unreachable("setup pending")
			}
		}
	}
	svCommitBlock(app)
	svFreshDeliver(app)

	req := RequestBeginBlock{Header: svHeader(now)}
	addMaturedAmountsToBalance(&app.Context, app.logger, &req)

	deleg = app.Context.netwkDelegators.Deleg.WithState(app.Context.deliver)
	bal = app.Context.balances.WithState(app.Context.deliver)
	for d := 0; d < 2; d++ {
		got, err := bal.GetBalanceForCurr(svAddr(d), &svOLT)
		sv.Assert(err == nil, "balance-readable")
		due := pend[fmt.Sprint(now, "_", d)]
		want := new(big.Int).Add(bal0[d].BigInt(), due.BigInt())
		sv.Observe(fmt.Sprint("balance", d), got.Amount.BigInt())
		sv.Observe(fmt.Sprint("want", d), want)
		sv.Assert(got.Amount.BigInt().Cmp(want) == 0, "paid-exactly-the-entry-of-this-height")
		for _, h := range c12HeightsAt(now) {
			p, err := deleg.GetPendingAmount(svAddr(d), h)
			sv.Assert(err == nil, "pending-readable")
			if h == now {
				sv.Assert(p.Amount.BigInt().Sign() == 0, "matured-entry-zeroed")
			} else {
				sv.Assert(p.Amount.BigInt().Cmp(pend[fmt.Sprint(h, "_", d)].BigInt()) == 0, "entries-of-other-heights-untouched")
			}
		}
	}
	sv.Cover(pend[fmt.Sprint(now, "_", 0)].BigInt().Sign() > 0, "something-matured")
}

// SV_C12_handler_step: one network-delegation transaction (delegate,
// undelegate, withdraw rewards, reinvest) delivered from an arbitrary state in
// which the delegation pool holds the active total plus an arbitrary donation
// slack, and pending entries may already exist at the maturity height.
//
// sv:bounds 2 delegators with arbitrary active amounts, pending undelegations and pending reward withdrawals at heights {now, now+4} and reward balances; pool = sum of active + arbitrary slack >= 0; the shared store object's selected prefix (in-memory residue of the previous handler) active or pending; the kind is a choice; payload names any party (who signs), amount any integer in any currency name; mempool-admitted regime
// sv:outside several operations per block (one inductive step: an existing pending entry at the maturity height stands for an earlier operation of the same block); more than 2 delegators
// sv:goal after a successful transaction: pool - sum(active) is unchanged (the pool mirrors the active set); undelegate moves exactly the amount from active to pending[now+4] and out of the pool; withdraw-rewards moves exactly the amount (at most the reward balance) from the reward balance to the pending withdrawal of now+4; reinvest moves it from the reward balance into active and the pool; delegate moves it from the balance into active and the pool; nobody else's records change
func SV_C12_handler_step() {
	e := svNewEnv(2, 20, svPreDeleg)
	kind := sv.Choice("kind", 4)
	var raw action.RawTx
	var signers []int
	switch kind {
	case 0:
		raw, signers = svBuildDelegate(e)
	case 1:
		raw, signers = svBuildUndelegate(e)
	case 2:
		raw, signers = svBuildDelegWithdraw(e)
	default:
		raw, signers = svBuildDelegReinvest(e)
	}
	// in-memory residue: the delegation store is one shared object whose selected
	// prefix is whatever the previous handler (of any transaction) left
	residue := []netwkDeleg.DelegationPrefixType{netwkDeleg.ActiveType, netwkDeleg.PendingType}[sv.Choice("residue.prefix", 2)]
	e.beforeDeliver = func() { e.app.Context.netwkDelegators.Deleg.WithPrefix(residue) }
	r := e.step(raw, signers, true)
	if r.resp.Code != 0 {
		sv.Cover(true, "refused")
		return
	}
	who := svPartyName(signers[0])
	other := svPartyName(1 - signers[0])
	d := func(cell string) *big.Int { return new(big.Int).Sub(r.after.get(cell), r.before.get(cell)) }
	slack := func(l *svLedger) *big.Int {
		s := new(big.Int).Set(l.get("b:pool:delegation:OLT"))
		s.Sub(s, l.get("deleg:a:A"))
		return s.Sub(s, l.get("deleg:a:B"))
	}
	sv.Assert(slack(r.after).Cmp(slack(r.before)) == 0, "pool-keeps-mirroring-the-active-total")
	mh := fmt.Sprint(e.height + 4)
	dActive, dPend, dPool := d("deleg:a:"+who), d("deleg:p:"+mh+":"+who), d("b:pool:delegation:OLT")
	dRw, dRwPend, dBal := d("delegRwz:b:"+who), d("delegRwz:p:"+mh+":"+who), d("b:"+who+":OLT")
	neg := func(x *big.Int) *big.Int { return new(big.Int).Neg(x) }
	switch kind {
	case 0:
		sv.Assert(dActive.Sign() >= 0 && dPool.Cmp(dActive) == 0 && dPend.Sign() == 0 && dRw.Sign() == 0 && dRwPend.Sign() == 0, "delegate-moves-amount-into-active-and-pool")
		sv.Cover(dActive.Sign() > 0, "delegated")
	case 1:
		sv.Assert(dActive.Sign() <= 0 && dPend.Cmp(neg(dActive)) == 0 && dPool.Cmp(dActive) == 0 && dRw.Sign() == 0 && dRwPend.Sign() == 0, "undelegate-moves-exactly-the-amount-from-active-to-pending-and-out-of-the-pool")
		sv.Cover(dActive.Sign() < 0, "undelegated")
	case 2:
		sv.Assert(dRw.Sign() <= 0 && dRwPend.Cmp(neg(dRw)) == 0 && dActive.Sign() == 0 && dPend.Sign() == 0 && dPool.Sign() == 0, "withdraw-moves-exactly-the-amount-from-reward-balance-to-pending")
		sv.Assert(r.after.get("delegRwz:b:"+who).Sign() >= 0, "withdrawal-within-the-reward-balance")
		sv.Cover(dRw.Sign() < 0, "withdrawn")
	default:
		sv.Assert(dRw.Sign() <= 0 && dActive.Cmp(neg(dRw)) == 0 && dPool.Cmp(dActive) == 0 && dPend.Sign() == 0 && dRwPend.Sign() == 0, "reinvest-moves-exactly-the-amount-from-rewards-into-active-and-pool")
		sv.Cover(dRw.Sign() < 0, "reinvested")
	}
	_ = dBal
	// the other delegator and all other maturity heights are untouched
	for _, c := range r.after.cells {
		if c.Owner == other {
			sv.Assert(c.V.Cmp(r.before.get(c.Name)) == 0, "other-delegators-records-untouched")
		}
	}
	for _, h := range []int64{e.height, e.height + 1, e.height + 5} {
		sv.Assert(d(fmt.Sprint("deleg:p:", h, ":", who)).Sign() == 0 && d(fmt.Sprint("delegRwz:p:", h, ":", who)).Sign() == 0, "entries-of-other-heights-untouched")
	}
}

// SV_C12_reward_withdrawal_matures: the whole block-begin reward hook
// (handleBlockRewards) with pending delegation-reward withdrawals due at this
// height, whatever the size of the delegation pool.
//
// sv:bounds 2 validators (power 1 each, both signed); delegation pool empty or holding 5 OLT with one active delegator; 2 delegators with arbitrary pending reward withdrawals at heights {7, 11} and arbitrary balances; block height 7
// sv:outside the reward split itself (SV_C13_split, SV_C13_delegation_split); other heights
// sv:goal every pending withdrawal of this height is paid exactly once to its delegator and cleared, entries of other heights stay, whether or not there is any delegation power
func SV_C12_reward_withdrawal_matures() {
	app := svNewApp()
	svGenesis(app, svDefaultState())
	ctx := &app.Context
	ctx.SetBlockStore(sv.BlockStore([]int64{1}, []int64{1600000000}))
	vs := ctx.validators.WithState(ctx.deliver)
	var votes []abci.VoteInfo
	for i := 0; i < 2; i++ {
		p := svParty_(i)
		v := identity.NewValidator(p.Addr, p.Addr, p.Pub, p.Pub, *balance.NewAmount(0), fmt.Sprint("node", i))
		if err := vs.Set(*v); err != nil {
			sv.Unreachable("validator setup")
		}
		votes = append(votes, abci.VoteInfo{Validator: abci.Validator{Address: p.Addr, Power: 1}, SignedLastBlock: true})
	}
	if sv.Choice("pool", 2) == 1 {
		five := new(big.Int).Mul(big.NewInt(5), svWei)
		svFundOLT(app, keys.Address(netwkDeleg.DELEGATION_POOL_KEY), five)
		c := svCoin(balance.NewAmountFromBigInt(five))
		ctx.netwkDelegators.Deleg.WithState(ctx.deliver).WithPrefix(netwkDeleg.ActiveType).Set(svAddr(0), &c)
	}
	svFundOLT(app, keys.Address("rewardpool"), new(big.Int).Mul(big.NewInt(1000), svWei))
	rs := ctx.netwkDelegators.Rewards.WithState(ctx.deliver)
	bal := ctx.balances.WithState(ctx.deliver)
	pend := map[string]*big.Int{}
	bal0 := map[int]*big.Int{}
	for d := 0; d < 2; d++ {
		bal0[d] = c12Amount(fmt.Sprint("bal", d)).BigInt()
		if err := bal.AddToAddress(svAddr(d), svCoin(balance.NewAmountFromBigInt(bal0[d]))); err != nil {
			sv.Unreachable("setup balance")
		}
		for _, h := range []int64{7, 11} {
			a := c12Amount(fmt.Sprint("rwpend_", h, "_", d))
			pend[fmt.Sprint(h, "_", d)] = a.BigInt()
			if err := rs.SetPendingRewards(svAddr(d), a, h); err != nil {
				sv.Unreachable("setup pending reward")
			}
		}
	}
	svCommitBlock(app)
	svFreshDeliver(app)
	req := RequestBeginBlock{Header: abci.Header{Height: 7, ProposerAddress: svParty_(0).Addr}, LastCommitInfo: abci.LastCommitInfo{Votes: votes}}
	handleBlockRewards(ctx, req, app.logger)
	rs = ctx.netwkDelegators.Rewards.WithState(ctx.deliver)
	bal = ctx.balances.WithState(ctx.deliver)
	for d := 0; d < 2; d++ {
		got, err := bal.GetBalanceForCurr(svAddr(d), &svOLT)
		sv.Assert(err == nil, "balance-readable")
		want := new(big.Int).Add(bal0[d], pend[fmt.Sprint(7, "_", d)])
		sv.Assert(got.Amount.BigInt().Cmp(want) == 0, "reward-withdrawal-of-this-height-is-paid-exactly-once")
		for _, h := range []int64{7, 11} {
			p, err := rs.GetPendingRewards(svAddr(d), h, 1)
			sv.Assert(err == nil && len(p.Rewards) <= 1, "pending-readable")
			left := new(big.Int)
			if err == nil && len(p.Rewards) == 1 {
				left = p.Rewards[0].Amount.BigInt()
			}
			if h == 7 {
				sv.Assert(left.Sign() == 0, "matured-reward-entry-cleared")
			} else {
				sv.Assert(left.Cmp(pend[fmt.Sprint(h, "_", d)]) == 0, "reward-entries-of-other-heights-untouched")
			}
		}
	}
	sv.Cover(true, "hook-ran")
}
