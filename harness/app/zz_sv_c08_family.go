package app

// C08 — a restart between two transactions of one family: whatever the store
// objects keep in memory between transactions (selected prefixes, caches) is
// gone on the restarted node.

import (
	"bytes"

	tmdb "github.com/tendermint/tm-db"

	"github.com/Oneledger/protocol/action"
	action_nd "github.com/Oneledger/protocol/action/network_delegation"
	"github.com/Oneledger/protocol/data/balance"
	sv "github.com/Oneledger/protocol/zz_sv"
)

// SV_C08_restart_between_delegation_transactions
//
// sv:bounds genesis with 2 validators, A with an arbitrary balance; block 3 carries A's delegation of an arbitrary amount, block 4 one more delegation transaction of A (undelegate, delegate, reward withdrawal or reinvest, arbitrary amount), block 5 is empty; node B dies at any of the 5 call boundaries of block 3 and is reopened from its database (options reloaded as Prepare does), block 3 is replayed unless its commit completed
// sv:outside as SV_C08_crash_restart; other families (their store selectors are part of the arbitrary pre-state in C12 / C14 / C15)
// sv:goal Info reports the last completed commit; the replayed block, block 4 and block 5 have the same transcripts (results, validator updates, ordered write sets) as on the node that never stopped
func SV_C08_restart_between_delegation_transactions() {
	sv.NominalSizes(64)
	nv := 2
	fundA := svNonNeg("fundA")
	mk := func(db tmdb.DB) *App {
		app := svOpenApp(db)
		svInstallIndexer()
		svGenesisWithValidators(app, []int64{3000000, 3000000})
		svFundOLT(app, svParty_(0).Addr, fundA)
		svCommitBlock(app)
		return app
	}
	a0 := svParty_(0).Addr
	amt := func(tag string) action.Amount {
		return action.Amount{Currency: "OLT", Value: *balance.NewAmountFromBigInt(sv.BigInt(tag + ".value"))}
	}
	tx3 := svSign(svRaw(action.ADD_NETWORK_DELEGATE, &action_nd.AddNetworkDelegation{DelegationAddress: a0, Amount: amt("amount3")}), 0)
	var raw4 action.RawTx
	switch sv.Choice("next.kind", 4) {
	case 0:
		raw4 = svRaw(action.NETWORK_UNDELEGATE, &action_nd.Undelegate{Delegator: a0, Amount: amt("amount4")})
	case 1:
		raw4 = svRaw(action.ADD_NETWORK_DELEGATE, &action_nd.AddNetworkDelegation{DelegationAddress: a0, Amount: amt("amount4")})
	case 2:
		raw4 = svRaw(action.REWARDS_WITHDRAW_NETWORK_DELEGATE, &action_nd.Withdraw{Delegator: a0, Amount: amt("amount4")})
	default:
		raw4 = svRaw(action.REWARDS_REINVEST_NETWORK_DELEGATE, &action_nd.Reinvest{Delegator: a0, Amount: amt("amount4")})
	}
	raw4.Memo = "next"
	tx4 := svSign(raw4, 0)
	a := mk(tmdb.NewMemDB())
	ta3 := svBlock(a, 3, nv, []action.SignedTx{tx3}, nil)
	ta4 := svBlock(a, 4, nv, []action.SignedTx{tx4}, nil)
	ta5 := svBlock(a, 5, nv, nil, nil)

	dbB := tmdb.NewMemDB()
	b := mk(dbB)
	verBefore, hashBefore := b.getAppHash()
	crashAt := sv.Choice("crash.at", 5)
	crashed := false
	func() {
		defer func() {
			if r := recover(); r != nil {
				if r != "sv-crash" {
					panic(r)
				}
				crashed = true
			}
		}()
		svBlock(b, 3, nv, []action.SignedTx{tx3}, func(pos int) {
			if pos == crashAt {
				panic("sv-crash")
			}
		})
	}()
	sv.Assert(crashed, "crash-injected")
	b2 := svOpenApp(dbB)
	svLoadOptions(b2)
	info := b2.infoServer()(RequestInfo{})
	if crashAt == 4 {
		sv.Assert(info.LastBlockHeight == verBefore+1 && bytes.Equal(info.LastBlockAppHash, ta3.Hash), "info-reports-the-completed-commit")
		sv.Cover(true, "crash-after-commit")
	} else {
		sv.Assert(info.LastBlockHeight == verBefore && bytes.Equal(info.LastBlockAppHash, hashBefore), "info-reports-the-last-completed-commit")
		tb3 := svBlock(b2, 3, nv, []action.SignedTx{tx3}, nil)
		sv.Assert(tb3.equal(ta3), "replayed-block-has-the-same-results")
		sv.Cover(true, "crash-mid-block")
	}
	tb4 := svBlock(b2, 4, nv, []action.SignedTx{tx4}, nil)
	sv.Assert(tb4.equal(ta4), "next-block-has-the-same-results")
	tb5 := svBlock(b2, 5, nv, nil, nil)
	sv.Assert(tb5.equal(ta5), "the-block-after-has-the-same-results")
	sv.Observe("code3", ta3.Codes[0])
	sv.Observe("code4", ta4.Codes[0])
	sv.Cover(ta3.Codes[0] == 0 && ta4.Codes[0] == 0 && raw4.Type == action.NETWORK_UNDELEGATE, "delegated-then-undelegated")
}
