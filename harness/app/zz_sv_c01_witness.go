package app

// C01, witness role and local job store: the block-end Ethereum tracker
// transitions must write the same records on a plain node and on a witness
// node whatever the witness's local job store holds.

import (
	"errors"
	"os"

	"github.com/Oneledger/protocol/action"
	action_eth "github.com/Oneledger/protocol/action/eth"
	"github.com/Oneledger/protocol/config"
	"github.com/Oneledger/protocol/data/chain"
	trackerlib "github.com/Oneledger/protocol/data/ethereum"
	"github.com/Oneledger/protocol/data/jobs"
	"github.com/Oneledger/protocol/event"
	"github.com/Oneledger/protocol/log"
	sv "github.com/Oneledger/protocol/zz_sv"
	ethcmn "github.com/ethereum/go-ethereum/common"
)

// ---- the job store (a node-local LevelDB with msgpack records) ----
// Under the engine the four methods below are replaced by an in-memory table
// per store object; natively the real store runs in a temporary directory.

var svJobTables = map[*jobs.JobStore]map[string]jobs.Job{}

// sv:models github.com/Oneledger/protocol/data/jobs.NewJobStore
func svModel_NewJobStore(cfg config.Server, dbDir string) *jobs.JobStore {
	js := &jobs.JobStore{}
	svJobTables[js] = map[string]jobs.Job{}
	return js
}

// sv:models (*github.com/Oneledger/protocol/data/jobs.JobStore).SaveJob
func svModel_SaveJob(js *jobs.JobStore, job jobs.Job) error {
	svJobTables[js][job.GetJobID()] = job
	return nil
}

// sv:models (*github.com/Oneledger/protocol/data/jobs.JobStore).GetJob
func svModel_GetJob(js *jobs.JobStore, jobID string) (jobs.Job, error) {
	if j, ok := svJobTables[js][jobID]; ok {
		return j, nil
	}
	return nil, errors.New("job not found")
}

// sv:models (*github.com/Oneledger/protocol/data/jobs.JobStore).JobExists
func svModel_JobExists(js *jobs.JobStore, jobID string) (bool, error) {
	_, ok := svJobTables[js][jobID]
	return ok, nil
}

// sv:models (*github.com/Oneledger/protocol/data/jobs.JobStore).DeleteJob
func svModel_DeleteJob(js *jobs.JobStore, job jobs.Job) error {
	delete(svJobTables[js], job.GetJobID())
	return nil
}

func svNewJobStore() *jobs.JobStore {
	dir := ""
	if !sv.Symbolic() {
		d, err := os.MkdirTemp("", "svjobs")
		if err != nil {
			panic(err)
		}
		dir = d
	}
	return jobs.NewJobStore(config.Server{Node: &config.NodeConfig{DB: "goleveldb"}}, dir)
}

// svTrackerFullVotes: take all eight vote vectors (with the failing ones) in the quick tier too
var svTrackerFullVotes bool

type svWitnessRun struct {
	writes []svKV
	state  trackerlib.TrackerState
	at     int
	// before the block end: whether the tracker existed and in which state; after it: in how many stores it has a record
	existed bool
	state0  trackerlib.TrackerState
	copies  int
}

// svTrackerBlockEnd builds a node with the given role and job store content
// over the same committed tracker state and runs the block-end transitions.
func svTrackerBlockEnd(witness bool, jobsMode int, pre *svEthPre) svWitnessRun {
	e := svNewEnv(3, 20, svPreETHTracker(pre))
	ctx := &e.app.Context
	me := svAddr(77) // a plain node's validator address: not a witness
	if witness {
		me = svParty_(0).Addr
	}
	ws := ctx.witnesses.WithState(ctx.deliver)
	ws.Init(chain.ETHEREUM, me) // what the node does at start-up
	js := svNewJobStore()
	name := ethcmn.BytesToHash(svExtTxs[pre.ext].raw)
	t, _ := svTrackerAt(e, name)
	if witness && t != nil {
		// local job store content: nothing / a broadcast job (new, completed, failed) / also a finality job
		js.WithChain(chain.ETHEREUM)
		mk := func(st trackerlib.TrackerState, status jobs.Status) {
			j := event.NewETHBroadcast(name, st)
			j.Status = status
			if err := js.SaveJob(j); err != nil {
				sv.Unreachable("save job")
			}
		}
		switch jobsMode {
		case 1:
			mk(trackerlib.BusyBroadcasting, jobs.New)
		case 2:
			mk(trackerlib.BusyBroadcasting, jobs.Completed)
		case 3:
			mk(trackerlib.BusyBroadcasting, jobs.Failed)
		case 4:
			mk(trackerlib.BusyBroadcasting, jobs.Completed)
			f := event.NewETHCheckFinality(name, trackerlib.BusyFinalizing)
			if err := js.SaveJob(f); err != nil {
				sv.Unreachable("save job")
			}
		}
	}
	existed, state0 := t != nil, trackerlib.TrackerState(0)
	if t != nil {
		state0 = t.State
	}
	w0 := len(svBlockWrites(e.app))
	doEthTransitions(js, ctx.ethTrackers, me, log.NewLoggerWithPrefix(os.Stdout, "ethtracker"), ws, ctx.deliver)
	r := svWitnessRun{writes: svBlockWrites(e.app)[w0:], existed: existed, state0: state0}
	if t2, at := svTrackerAt(e, name); t2 != nil {
		r.state, r.at = t2.State, at
	}
	for _, p := range []trackerlib.PrefixType{trackerlib.PrefixOngoing, trackerlib.PrefixPassed, trackerlib.PrefixFailed} {
		if _, err := ctx.ethTrackers.WithState(ctx.deliver).WithPrefixType(p).Get(name); err == nil {
			r.copies++
		}
	}
	return r
}

// svPreETHTracker: svPreETH with the tracker ongoing in any transition state.
func svPreETHTracker(pre *svEthPre) func(e *svEnv) {
	return func(e *svEnv) {
		svLean = sv.Tier() == 0 && !svTrackerFullVotes // quick: 3 vote vectors x 2 rotations; thorough (and the C15 block-end harness): 8 x 4
		svPreETH(pre, 2)(e)
		svLean = false
		if pre.where != 1 {
			return
		}
		ctx := &e.app.Context
		ts := ctx.ethTrackers.WithState(ctx.deliver).WithPrefixType(trackerlib.PrefixOngoing)
		t, err := ts.Get(ethcmn.BytesToHash(svExtTxs[pre.ext].raw))
		if err != nil {
			sv.Unreachable("tracker")
		}
		// the ERC20 variants share the engines and differ inside the transition functions
		if sv.Choice("eth.erc", 2) == 1 {
			if t.Type == trackerlib.ProcessTypeLock {
				t.Type = trackerlib.ProcessTypeLockERC
			} else {
				t.Type = trackerlib.ProcessTypeRedeemERC
			}
			if err := ts.Set(t); err != nil {
				sv.Unreachable("tracker type")
			}
		}
		// any reachable state of the lock / redeem state machine: the finality handler
		// moves a tracker to Released / Failed in the transaction whose vote decides it
		// (svPreETH set that); an undecided one is New (no votes yet: created in this
		// block), BusyBroadcasting, or BusyFinalizing (at least one vote)
		if t.State == trackerlib.Released || t.State == trackerlib.Failed {
			return
		}
		y, n := t.GetVotes()
		switch sv.Choice("eth.state", 3) {
		case 0:
			if y+n > 0 {
				sv.Assume(false)
			}
			t.State = trackerlib.New
		case 1:
			t.State = trackerlib.BusyBroadcasting
		default:
			if y+n == 0 {
				sv.Assume(false)
			}
			t.State = trackerlib.BusyFinalizing
		}
		if err := ts.Set(t); err != nil {
			sv.Unreachable("tracker state")
		}
	}
}

// SV_C01_witness_role: block-end tracker transitions, plain node vs witness node.
//
// sv:bounds one ongoing lock or redeem tracker, ETH or ERC20 type (4 witnesses) in any reachable state (New without votes, BusyBroadcasting, BusyFinalizing with votes, Released / Failed once decided), with recorded votes from 3 representative vectors in 2 rotations (thorough: 8 vectors in 4 rotations, tracker also in the failed store) (so the witness node may or may not have voted); replica 1: a plain node; replica 2: the node of witness A whose local job store holds nothing, a broadcast job (new / completed / failed), or a completed broadcast job and a finality job
// sv:outside the job store's LevelDB / msgpack encoding (models svModel_NewJobStore, svModel_SaveJob, svModel_GetJob, svModel_JobExists, svModel_DeleteJob; the native replay uses the real store in a temporary directory); the jobs' own execution (off-chain); BTC trackers; several trackers
// sv:goal both replicas make the same writes to the block state (keys, order, values) and leave the tracker in the same state and store: job creation is the only witness-local effect
func SV_C01_witness_role() {
	svCurrencyLimit = 1
	sv.NominalSizes(64)
	jobsMode := sv.Choice("witness.jobs", 5)
	preP, preW := &svEthPre{}, &svEthPre{}
	p := svTrackerBlockEnd(false, 0, preP)
	w := svTrackerBlockEnd(true, jobsMode, preW)
	sv.Assert(svSameWrites(p.writes, w.writes), "witness-role-and-job-store-do-not-change-the-block-writes")
	sv.Assert(p.state == w.state && p.at == w.at, "witness-role-and-job-store-do-not-change-the-tracker-state")
	sv.Observe("state.plain", int(p.state))
	sv.Observe("state.witness", int(w.state))
	sv.Cover(len(p.writes) > 0, "transition-written")
	sv.Cover(len(p.writes) == 0, "no-transition")
}

// SV_C07_tracker_checktx: the Ethereum tracker store is one object whose
// selected stage prefix is in-memory state; the block-end transitions must not
// depend on what a CheckTx selected last.
//
// sv:bounds the tracker pre-state of SV_C15_handlers (a tracker for the lock of 5 or the redeem of 3 absent / ongoing / passed / failed, plus B's ongoing lock tracker with two yes votes); replica 1 runs the block-end transitions (doEthTransitions, plain node) directly; replica 2 first serves a CheckTx of an ETH_LOCK or ETH_REDEEM by any party carrying any of the external transactions (a resubmission of a passed one is refused after the passed store was selected)
// sv:outside several CheckTx calls; the ERC20 kinds (same store, same pattern); witness nodes (SV_C01_witness_role)
// sv:goal both replicas make the same writes to the block state (keys, order, values)
func SV_C07_tracker_checktx() {
	svCurrencyLimit = 1
	sv.NominalSizes(64)
	run := func(inject bool) []svKV {
		pre := &svEthPre{}
		e := svNewEnv(3, 20, func(e *svEnv) {
			svPreETH(pre, 0)(e)
			// B's ongoing tracker is due a transition at this block end (votes came in
			// while it was broadcasting: every node moves it to BusyFinalizing)
			ts := e.app.Context.ethTrackers.WithState(e.app.Context.deliver).WithPrefixType(trackerlib.PrefixOngoing)
			bt, err := ts.Get(ethcmn.BytesToHash(svExtTxs[1].raw))
			if err != nil {
				sv.Unreachable("bystander tracker")
			}
			bt.State = trackerlib.BusyBroadcasting
			if err := ts.Set(bt); err != nil {
				sv.Unreachable("bystander tracker state")
			}
		})
		ctx := &e.app.Context
		if inject {
			i, who := svAnyParty("chk.actor", e.n)
			ext := svAnyExt("chk.ext")
			var raw action.RawTx
			if sv.Choice("chk.kind", 2) == 0 {
				raw = svRaw(action.ETH_LOCK, &action_eth.Lock{Locker: who, ETHTxn: ext})
			} else {
				raw = svRaw(action.ETH_REDEEM, &action_eth.Redeem{Owner: who, To: ethcmn.BytesToAddress([]byte{0xbe, 0xef}), ETHTxn: ext})
			}
			r := svCheckEnvGas(e.app, svSign(raw, i))
			sv.Cover(r.Code != 0, "checktx-refused")
			sv.Cover(r.Code == 0, "checktx-accepted")
		}
		me := svAddr(77)
		ws := ctx.witnesses.WithState(ctx.deliver)
		ws.Init(chain.ETHEREUM, me)
		w0 := len(svBlockWrites(e.app))
		doEthTransitions(svNewJobStore(), ctx.ethTrackers, me, log.NewLoggerWithPrefix(os.Stdout, "ethtracker"), ws, ctx.deliver)
		return svBlockWrites(e.app)[w0:]
	}
	with := run(true)
	without := run(false)
	sv.Assert(svSameWrites(with, without), "tracker-transitions-independent-of-an-earlier-checktx")
	sv.Cover(len(without) > 0, "transition-written")
}

// SV_C15_block_end_archives: the block-end transitions keep every tracker in
// exactly one store, the one its state belongs to.
//
// sv:bounds as SV_C01_witness_role, plain node: one lock or redeem tracker, ETH or ERC20 type, absent or in any reachable state (New, BusyBroadcasting, BusyFinalizing, Released, Failed) with its recorded votes, or already archived
// sv:outside several trackers in one block; the witness's local jobs (SV_C01_witness_role)
// sv:goal after the block end a tracker that existed has a record in exactly one of the ongoing / succeeded / failed stores (so the duplicate check of a resubmitted lock or redeem still finds it): a tracker decided as released ends in the succeeded store, one decided as failed in the failed store, an undecided one stays ongoing
func SV_C15_block_end_archives() {
	svCurrencyLimit = 1
	sv.NominalSizes(64)
	pre := &svEthPre{}
	svTrackerFullVotes = true
	r := svTrackerBlockEnd(false, 0, pre)
	svTrackerFullVotes = false
	sv.Observe("existed", r.existed)
	sv.Observe("state0", int(r.state0))
	sv.Observe("copies", r.copies)
	sv.Observe("at", r.at)
	if !r.existed {
		sv.Assert(r.copies == 0, "no-tracker-appears-at-the-block-end")
		return
	}
	sv.Assert(r.copies == 1, "a-tracker-stays-in-exactly-one-store")
	if pre.where == 1 {
		switch r.state0 {
		case trackerlib.Released:
			sv.Assert(r.at == 2, "a-released-tracker-is-archived-in-the-succeeded-store")
			sv.Cover(true, "archived-succeeded")
		case trackerlib.Failed:
			sv.Assert(r.at == 3, "a-failed-tracker-is-archived-in-the-failed-store")
			sv.Cover(true, "archived-failed")
		default:
			sv.Assert(r.at == 1, "an-undecided-tracker-stays-ongoing")
			sv.Cover(true, "stays-ongoing")
		}
	}
}
