package app

// Second batch of transaction families for the generic goals (C02, C03, C06,
// C18): evidence, governance vote / expire / finalise, reward withdrawal,
// Ethereum lock / redeem / report, OLVM.

import (
	"math/big"

	"github.com/Oneledger/protocol/action"
	action_gov "github.com/Oneledger/protocol/action/governance"
	"github.com/Oneledger/protocol/action/olvm"
	"github.com/Oneledger/protocol/storage"
	sv "github.com/Oneledger/protocol/zz_sv"
)

// svLean: the generic second-batch harnesses use reduced pre-state choice
// ranges (the full ranges are explored by each family's own property harness).
var svLean bool

type svMore struct {
	e       *svEnv
	family  int
	raw     action.RawTx
	signers []int
	olvm    bool
}

func (m *svMore) sign(nosig bool) action.SignedTx {
	if m.olvm {
		tx := svSignOLVM(m.raw, 0)
		if nosig {
			tx.Signatures = nil
		}
		return tx
	}
	if nosig {
		return svSign(m.raw)
	}
	return svSign(m.raw, m.signers...)
}

// svMoreKindEnv: one transaction of one of the six families from that
// family's symbolic pre-state. hostile adds payload variants that Validate is
// expected to refuse (used by C18).
func svMoreKindEnv(hostile bool) *svMore {
	svLean = true
	m := &svMore{family: sv.Choice("family", 6)}
	switch m.family {
	case 0: // evidence
		svCurrencyLimit = 1
		pre := &svEvPre{}
		kind := sv.Choice("kind", 3)
		actor := sv.Choice("actor", 2)
		m.e = svNewEnv(2, 20, svPreEvidence(pre, kind, actor))
		m.e.app.header.Time = pre.headerTime
		m.raw, m.signers = svBuildEvidence(m.e, kind, actor)
	case 1: // governance vote / expire / finalise
		svCurrencyLimit = 1
		pre := &svVotePre{}
		kind := sv.Choice("kind", 3)
		m.e = svNewEnv(3, 20, svPreVote(pre, kind))
		m.raw, m.signers = svBuildGov2(m.e, kind, hostile)
	case 2: // reward withdrawal
		svCurrencyLimit = 2
		pre := &svRewardPre{}
		m.e = svNewEnv(2, 20, svPreRewards(pre))
		m.raw, m.signers = svBuildRewardWithdraw(m.e)
	case 3: // Ethereum lock / redeem / report
		svCurrencyLimit = 1
		pre := &svEthPre{}
		kind := sv.Choice("kind", 3)
		m.e = svNewEnv(3, 20, svPreETH(pre, kind))
		m.raw, m.signers = svBuildETH(m.e, pre, kind)
	case 5: // governance create / fund / withdraw-funds / cancel
		svCurrencyLimit = 2
		pre := &svPropPre{}
		m.e = svNewEnv(2, 20, svPreGov(pre))
		kind := sv.Choice("kind", 4)
		m.raw, m.signers = svBuildGov(m.e, kind)
		if hostile && kind == 0 && sv.Choice("create.noGoal", 2) == 1 {
			// the optional funding goal left out of the payload
			cp := &action_gov.CreateProposal{}
			if err := cp.Unmarshal(m.raw.Data); err != nil {
				sv.Unreachable("create payload")
			}
			cp.FundingGoal = nil
			data, err := cp.Marshal()
			if err != nil {
				sv.Unreachable("marshal")
			}
			m.raw.Data = data
		}
	default: // OLVM
		svCurrencyLimit = 1
		svUseEthParties()
		pre := &svOLVMPre{}
		m.e = svNewEnv(2, 20, svPreOLVM(pre))
		sv.Assume(m.e.ledger().get("b:A:OLT").Cmp(svTwo128) < 0 && m.e.ledger().get("b:B:OLT").Cmp(svTwo128) < 0)
		t := svBuildOLVM(m.e, pre, uint64(int(pre.nonce0)+pre.delta))
		if hostile {
			switch sv.Choice("olvm.hostile", 4) {
			case 1: // no chain id
				t.msg.ChainID = nil
			case 2: // wrong chain id
				t.msg.ChainID = big.NewInt(1)
			case 3: // unregistered currency
				t.msg.Amount.Currency = "XXX"
			}
			data, err := t.msg.Marshal()
			if err != nil {
				sv.Unreachable("marshal")
			}
			t.raw.Data = data
		}
		m.raw, m.signers, m.olvm = t.raw, []int{0}, true
	}
	return m
}

var _ = olvm.Transaction{}

// SV_C02_more: no value creation for the second batch of families.
//
// sv:bounds the pre-states and payloads of SV_C19_handlers, SV_C14_vote_expire_finalize, SV_C13_withdraw, SV_C15_handlers and SV_C17_olvm_step (family and kind a choice); mempool-admitted regime
// sv:outside ETH (wrapped) totals: minting and refunding are decided by SV_C15_handlers; matured reward balances are claims on the rewards pool (mirror cells)
// sv:goal the OLT ledger total (balances, pools, fee pool, escrows, contract and created addresses) does not increase and no stored amount is negative
func SV_C02_more() {
	svZeroRecordsInLean = true
	m := svMoreKindEnv(false)
	svZeroRecordsInLean = false
	tx := m.sign(false)
	sv.Assume(m.e.validate(tx))
	l0 := m.e.ledger()
	resp := m.e.deliver(tx)
	l1 := m.e.ledger()
	sv.Observe("code", resp.Code)
	sv.Assert(l1.total("OLT").Cmp(l0.total("OLT")) <= 0, "no-value-created:OLT")
	for _, c := range l1.cells {
		if c.Cur == "OLT" || !c.Mirror {
			sv.Assert(c.V.Sign() >= 0, "no-negative-stored-amount")
		}
	}
	sv.Cover(resp.Code == 0, "delivered-ok")
}

// SV_C03_more: only signers are debited, second batch.
//
// sv:bounds as SV_C02_more
// sv:outside as SV_C02_more; the validator operations of the evidence family charge the validator's stake address (the signer here)
// sv:goal the holdings (every ledger cell owned by the party, both currencies) of every party that did not sign do not decrease
func SV_C03_more() {
	svZeroRecordsInLean = true
	m := svMoreKindEnv(false)
	svZeroRecordsInLean = false
	svMoreC03(m)
}

func svMoreC03(m *svMore) {
	tx := m.sign(false)
	sv.Assume(m.e.validate(tx))
	l0 := m.e.ledger()
	resp := m.e.deliver(tx)
	l1 := m.e.ledger()
	sv.Observe("code", resp.Code)
	for i := 0; i < m.e.n; i++ {
		signed := false
		for _, s := range m.signers {
			signed = signed || s == i
		}
		if !signed {
			name := svPartyName(i)
			sv.Assert(l1.holdings(name).Cmp(l0.holdings(name)) >= 0, "non-signer-not-debited")
		}
	}
	sv.Cover(resp.Code == 0, "delivered-ok")
}

// SV_C06_more_noop: failed transactions of the second batch leave no trace.
//
// sv:bounds as SV_C02_more, in both regimes (admitted / delivered directly)
// sv:outside in-memory fields of the stores; the EVM object cache is examined by SV_C17_two_step
// sv:goal Code != 0 implies the block-level write cache and every ledger cell are unchanged
func SV_C06_more_noop() { svMoreC06(svMoreKindEnv(false)) }

func svMoreC06(m *svMore) {
	tx := m.sign(false)
	if sv.Choice("regime", 2) == 0 {
		sv.Assume(m.e.validate(tx))
	}
	w0 := svBlockWrites(m.e.app)
	l0 := m.e.ledger()
	resp := m.e.deliver(tx)
	sv.Observe("code", resp.Code)
	if resp.Code != 0 {
		sv.Assert(svSameWrites(w0, svBlockWrites(m.e.app)), "failed-tx-leaves-no-write")
		l1 := m.e.ledger()
		for k, c := range l1.cells {
			sv.Assert(c.V.Cmp(l0.cells[k].V) == 0, "failed-tx-changes-no-record")
		}
		sv.Cover(true, "delivered-fail")
	}
	sv.Cover(resp.Code == 0, "delivered-ok")
}

// SV_C18_more_admitted: no crash for the second batch, mempool path: the real
// Validate, then ProcessCheck on the check state (as CheckTx does), then the
// real txDeliverer.
//
// sv:bounds as SV_C02_more plus hostile payloads: vote opinions outside the enumeration, OLVM without / with a wrong chain id or an unregistered currency, embedded Ethereum transactions that are garbage, empty or of the wrong kind, any vote index
// sv:outside byte strings that are not a well-formed SignedTx envelope; resource exhaustion
// sv:goal no path ends in a panic, os.Exit (logger.Fatal) or application close
func SV_C18_more_admitted() {
	sv.CrashIsViolation("admitted-tx-crashes-node")
	svMoreC18Admitted(svMoreKindEnv(true))
}

func svMoreC18Admitted(m *svMore) {
	tx := m.sign(false)
	// the check state gets the environment gas calculator too (store gas is an
	// arbitrary number, as for the deliver state)
	used := sv.Int64("gas.usedCheck")
	sv.Assume(used >= 0 && used < 1<<40)
	m.e.app.Context.check = storage.NewState(m.e.app.Context.chainstate).WithGas(&svGasCalc{used: storage.Gas(used)})
	resp := svCheck(m.e.app, tx)
	sv.Assume(resp.Code == 0)
	d := m.e.deliver(tx)
	sv.Cover(d.Code == 0, "delivered-ok")
}

// SV_C18_more_unvalidated: the same transactions delivered directly in a block.
//
// sv:bounds as SV_C18_more_admitted without the admission; additionally 0 signatures
// sv:outside as SV_C18_more_admitted
// sv:goal no path ends in a panic, os.Exit (logger.Fatal) or application close
func SV_C18_more_unvalidated() {
	sv.CrashIsViolation("delivered-tx-crashes-node")
	svMoreC18Unvalidated(svMoreKindEnv(true))
}

func svMoreC18Unvalidated(m *svMore) {
	tx := m.sign(sv.Choice("nosig", 2) == 1)
	d := m.e.deliver(tx)
	sv.Cover(d.Code == 0, "delivered-ok")
	sv.Cover(d.Code != 0, "delivered-fail")
}
