package app

// C17 — contract-to-contract value transfers and a reverted inner call.

import (
	"math/big"
	"strconv"

	"github.com/Oneledger/protocol/action"
	"github.com/Oneledger/protocol/action/olvm"
	"github.com/Oneledger/protocol/data/balance"
	"github.com/Oneledger/protocol/data/keys"
	"github.com/Oneledger/protocol/utils"
	sv "github.com/Oneledger/protocol/zz_sv"
	ethcmn "github.com/ethereum/go-ethereum/common"
)

var svInnerAddr = keys.Address(ethcmn.FromHex("c0000000000000000000000000000000000000c2"))
var svFreshAddr = keys.Address(ethcmn.FromHex("a1000000000000000000000000000000000000a1"))
var svAddrC = keys.Address(ethcmn.FromHex("c1000000000000000000000000000000000000c1"))
var svAddrE = keys.Address(ethcmn.FromHex("e1000000000000000000000000000000000000e1"))

// svCallWithValue assembles CALL(gas = GAS, to, value, no input, no output); POP
func svCallWithValue(to keys.Address, value byte) []byte {
	code := []byte{0x60, 0x00, 0x60, 0x00, 0x60, 0x00, 0x60, 0x00, 0x60, value, 0x73}
	code = append(code, to...)
	return append(code, 0x5a, 0xf1, 0x50)
}

// SV_C17_nested_call: A sends 10 to the outer contract; the outer contract
// calls the inner contract with 3 (result ignored) and then pays 7 to C; the
// inner contract pays 1 to a fresh address X, 1 to C and 1 to E and then
// either stops or reverts.
//
// sv:bounds sender A (account nonce 0 or 1) with arbitrary balance < 2^128, gas price arbitrary < 2^128, gas limit 400000, amount 10; outer and inner contract, C and E with arbitrary balances < 2^128 (C and E exist natively, they are first loaded by the adapter inside the inner call), X absent; inner program: pays X, C, E then REVERT, or then STOP; admitted by the real Validate
// sv:outside other call graphs and depths, CREATE / CREATE2 / DELEGATECALL / STATICCALL from contract code, precompiles, out-of-gas inside the inner call (the gas limit is ample)
// sv:goal every address reads the same natively and through the EVM before and after; Code 0 and status 1; the sender pays exactly gas used * price + 10, the fee pool receives gas used * price, the outer contract keeps 3 (inner reverted: the 3 came back) or 0, C receives 7 (+1 when the inner call was kept), X and E receive 1 each only when the inner call was kept, the inner contract keeps nothing; total conserved; nonce + 1
func SV_C17_nested_call() {
	svCurrencyLimit = 1
	svUseEthParties()
	innerReverts := sv.Choice("inner.reverts", 2) == 1
	nonce0 := uint64(sv.Choice("olvm.nonce", 2))
	named := []struct {
		name string
		addr keys.Address
	}{{"contract", svContractAddr}, {"inner", svInnerAddr}, {"X", svFreshAddr}, {"C", svAddrC}, {"E", svAddrE}}
	e := svNewEnv(1, 20, func(e *svEnv) {
		ctx := &e.app.Context
		ctx.stateDB.SetBlockHash(ethcmn.BytesToHash([]byte{1}))
		if nonce0 > 0 {
			k := ctx.accountKeeper.WithState(ctx.deliver)
			acc, err := k.NewAccountWithAddress(svParty_(0).Addr)
			if err != nil {
				sv.Unreachable("keeper account")
			}
			acc.Sequence = nonce0
			if err := k.SetAccount(*acc); err != nil {
				sv.Unreachable("keeper set")
			}
		}
		inner := append(append(svCallWithValue(svFreshAddr, 1), svCallWithValue(svAddrC, 1)...), svCallWithValue(svAddrE, 1)...)
		if innerReverts {
			inner = append(inner, 0x60, 0x00, 0x60, 0x00, 0xfd)
		} else {
			inner = append(inner, 0x00)
		}
		outer := append(append(svCallWithValue(svInnerAddr, 3), svCallWithValue(svAddrC, 7)...), 0x00)
		sdb := ctx.stateDB.WithState(ctx.deliver)
		sdb.SetCode(ethcmn.BytesToAddress(svContractAddr), outer)
		sdb.SetCode(ethcmn.BytesToAddress(svInnerAddr), inner)
		if err := sdb.Finalise(true); err != nil {
			sv.Unreachable("deploy")
		}
		svFundOLT(e.app, svContractAddr, svOLVMBalance("olt:contract"))
		svFundOLT(e.app, svInnerAddr, svOLVMBalance("olt:inner"))
		svFundOLT(e.app, svAddrC, svOLVMBalance("olt:C"))
		svFundOLT(e.app, svAddrE, svOLVMBalance("olt:E"))
		e.extra = append(e.extra, func(l *svLedger) {
			bal := ctx.balances.WithState(ctx.deliver)
			for _, a := range named {
				c, err := bal.GetBalanceForCurr(a.addr, &svOLT)
				if err != nil {
					sv.Unreachable("ledger: balance")
				}
				l.add("b:"+a.name+":OLT", a.name, "OLT", c.Amount.BigInt())
			}
		})
	})
	sv.Assume(e.ledger().get("b:A:OLT").Cmp(svTwo128) < 0)
	to := svContractAddr
	price := svOLVMBalance("olvm.price")
	msg := &olvm.Transaction{Nonce: nonce0, From: svParty_(0).Addr, To: &to, Data: []byte{0x01},
		Amount:  action.Amount{Currency: "OLT", Value: *balance.NewAmountFromInt(10)},
		ChainID: utils.HashToBigInt(svHeader(0).ChainID)}
	data, err := msg.Marshal()
	if err != nil {
		sv.Unreachable("marshal")
	}
	raw := action.RawTx{Type: action.OLVM, Data: data, Memo: strconv.FormatUint(nonce0, 10),
		Fee: action.Fee{Price: action.Amount{Currency: "OLT", Value: *balance.NewAmountFromBigInt(price)}, Gas: 400000}}
	tx := svSignOLVM(raw, 0)
	sv.Assume(e.validate(tx))
	l0 := e.ledger()
	views := append(named, struct {
		name string
		addr keys.Address
	}{"A", svParty_(0).Addr})
	for _, a := range views {
		sv.Assert(e.evmView(a.addr).Cmp(l0.get("b:"+a.name+":OLT")) == 0, "evm-and-native-balance-agree-before")
	}
	n0 := e.nonceOf(svParty_(0).Addr)
	resp := svDeliver(e.app, tx)
	l1 := e.ledger()
	n1 := e.nonceOf(svParty_(0).Addr)
	sv.Observe("code", resp.Code)
	sv.Observe("gasUsed", resp.GasUsed)
	for _, c := range l1.cells {
		sv.Observe(c.Name, c.V)
	}
	for _, a := range views {
		sv.Assert(e.evmView(a.addr).Cmp(l1.get("b:"+a.name+":OLT")) == 0, "evm-and-native-balance-agree-after")
	}
	sv.Assert(l1.total("OLT").Cmp(l0.total("OLT")) == 0, "olvm-conserves-the-total")
	if resp.Code != 0 {
		for k, c := range l1.cells {
			sv.Assert(c.V.Cmp(l0.cells[k].V) == 0, "failed-olvm-tx-changes-no-balance")
		}
		sv.Assert(n1 == n0, "failed-olvm-tx-keeps-the-nonce")
		return
	}
	sv.Assert(svOLVMStatus(resp) == "1", "the-outer-call-succeeds")
	sv.Assert(resp.GasUsed >= 0 && resp.GasUsed <= 400000, "gas-used-within-the-limit")
	fee := new(big.Int).Mul(big.NewInt(resp.GasUsed), price)
	want := map[string]*big.Int{}
	for _, c := range l0.cells {
		want[c.Name] = new(big.Int).Set(c.V)
	}
	add := func(cell string, v int64) { want[cell].Add(want[cell], big.NewInt(v)) }
	want["b:A:OLT"].Sub(want["b:A:OLT"], fee)
	add("b:A:OLT", -10)
	want["f:pool"].Add(want["f:pool"], fee)
	add("b:C:OLT", 7)
	if innerReverts {
		add("b:contract:OLT", 3)
	} else {
		add("b:X:OLT", 1)
		add("b:C:OLT", 1)
		add("b:E:OLT", 1)
	}
	for _, c := range l1.cells {
		sv.Assert(c.V.Cmp(want[c.Name]) == 0, "exact-nested-accounting:"+c.Name)
	}
	sv.Assert(n1 == n0+1, "nonce-rises-by-exactly-one")
	sv.Cover(innerReverts, "inner-call-reverted")
	sv.Cover(!innerReverts, "inner-call-kept")
}
