package app

// Evidence kinds (allegation, vote, release) and the C19 handler harness.

import (
	"bytes"
	"fmt"
	"time"

	"github.com/Oneledger/protocol/action"
	action_ev "github.com/Oneledger/protocol/action/evidence"
	"github.com/Oneledger/protocol/data/balance"
	"github.com/Oneledger/protocol/data/evidence"
	"github.com/Oneledger/protocol/identity"
	sv "github.com/Oneledger/protocol/zz_sv"
)

var svFrozenAt = time.Unix(1600000000, 0).UTC()

type svEvPre struct {
	isValidator []bool
	active      []bool
	frozen      []int // 0 no record, 1 frozen (byzantine fault), 2 released, 3 frozen (missed votes)
	reqOpen     bool
	voted       []bool
	headerTime  time.Time
}

// svPreEvidence: every party may be a validator (record with stake address =
// itself), with an arbitrary status record (active or not) and an arbitrary
// freeze record; an allegation request against party B may be open with votes
// recorded from some parties. The validator release time is 1 day.
func svPreEvidence(pre *svEvPre, kind, actor int) func(e *svEnv) {
	full := func(i int) bool { return i == actor || (sv.Tier() > 0 && !svLean) }
	return func(e *svEnv) {
		ctx := &e.app.Context
		vs := ctx.validators.WithState(ctx.deliver)
		es := ctx.evidenceStore.WithState(ctx.deliver)
		g := ctx.govern.WithState(ctx.deliver).WithHeight(0)
		opt, _ := g.GetEvidenceOptions()
		opt.ValidatorReleaseTime = 1
		g.SetEvidenceOptions(*opt)
		for i := 0; i < e.n; i++ {
			p := svParty_(i)
			isVal := sv.Choice("ev.validator"+svPartyName(i), 2) == 0
			pre.isValidator = append(pre.isValidator, isVal)
			act, fr := false, 0
			if isVal {
				v := identity.NewValidator(p.Addr, p.Addr, p.Pub, p.Pub, *balance.NewAmount(5000000), "n"+svPartyName(i))
				v.Power = 5000000
				vs.Set(*v)
				act = true
				if full(i) {
					act = sv.Choice("ev.active"+svPartyName(i), 2) == 0
					if svLean {
						fr = sv.Choice("ev.frozen"+svPartyName(i), 2)
					} else {
						fr = sv.Choice("ev.frozen"+svPartyName(i), 4)
					}
				} else {
					fr = sv.Choice("ev.frozen"+svPartyName(i), 2)
				}
				es.SetValidatorStatus(p.Addr, act, 1)
				svFreeze(e, i, fr)
			}
			pre.active = append(pre.active, act)
			pre.frozen = append(pre.frozen, fr)
		}
		// a bystander: an open request against somebody else with one recorded vote
		{
			arX := evidence.NewAllegationRequest("reqX", svAddr(9), svAddr(8), 1, "proof")
			arX.Votes = append(arX.Votes, &evidence.AllegationVote{Address: svAddr(7), Choice: evidence.NO})
			es.SetAllegationRequest(arX)
			atX, _ := es.GetAllegationTracker()
			atX.Requests["reqX"] = true
			es.SetAllegationTracker(atX)
		}
		pre.voted = make([]bool, e.n)
		if kind != 2 {
			pre.reqOpen = sv.Choice("ev.requestOpen", 2) == 0
		}
		if pre.reqOpen {
			ar := evidence.NewAllegationRequest("req1", svAddr(9), svParty_(1).Addr, 1, "proof")
			// votes of two other validators, recorded before the parties' votes or around them
			// (the list keeps the order of arrival)
			others := 0
			if kind == 1 && !svLean {
				others = sv.Choice("ev.otherVotes", 3)
			}
			if others == 1 {
				ar.Votes = append(ar.Votes, &evidence.AllegationVote{Address: svAddr(5), Choice: evidence.YES}, &evidence.AllegationVote{Address: svAddr(6), Choice: evidence.NO})
			} else if others == 2 {
				ar.Votes = append(ar.Votes, &evidence.AllegationVote{Address: svAddr(6), Choice: evidence.NO})
			}
			for i := 0; i < e.n; i++ {
				if full(i) && sv.Choice("ev.voted"+svPartyName(i), 2) == 0 {
					pre.voted[i] = true
					ar.Votes = append(ar.Votes, &evidence.AllegationVote{Address: svParty_(i).Addr, Choice: evidence.YES})
				}
			}
			if others == 2 {
				ar.Votes = append(ar.Votes, &evidence.AllegationVote{Address: svAddr(5), Choice: evidence.YES})
			}
			if others > 0 {
				// the store keeps the list ordered by address (Vote sorts after every insertion)
				for a := 1; a < len(ar.Votes); a++ {
					for b := a; b > 0 && bytes.Compare(ar.Votes[b-1].Address, ar.Votes[b].Address) > 0; b-- {
						ar.Votes[b-1], ar.Votes[b] = ar.Votes[b], ar.Votes[b-1]
					}
				}
			}
			es.SetAllegationRequest(ar)
			at, _ := es.GetAllegationTracker()
			at.Requests["req1"] = true
			es.SetAllegationTracker(at)
		}
		pre.headerTime = svFrozenAt.Add(time.Second)
		if kind == 2 {
			k := 4
			if svLean {
				k = 1
			}
			pre.headerTime = svFrozenAt.Add([]time.Duration{48 * time.Hour, time.Second, 24 * time.Hour, 24*time.Hour + time.Second}[sv.Choice("ev.sinceFreeze", k)])
		}
	}
}

func svBuildEvidence(e *svEnv, kind, i int) (action.RawTx, []int) {
	who := svParty_(i).Addr
	switch kind {
	case 0:
		_, mal := svAnyParty("malicious", e.n)
		id := []string{"req1", "req2"}[sv.Choice("requestId", 2)]
		return svRaw(action.ALLEGATION, &action_ev.Allegation{RequestID: id, ValidatorAddress: who, MaliciousAddress: mal, BlockHeight: sv.Int64("al.height"), ProofMsg: "p"}), []int{i}
	case 1:
		id := []string{"req1", "req2"}[sv.Choice("requestId", 2)]
		ch := sv.Int64("vote.choice")
		sv.Assume(ch >= -128 && ch <= 127)
		return svRaw(action.ALLEGATION_VOTE, &action_ev.AllegationVote{RequestID: id, Address: who, Choice: int8(ch)}), []int{i}
	}
	return svRaw(action.RELEASE, &action_ev.Release{ValidatorAddress: who}), []int{i}
}

// svFreeze writes the freeze record mode fr for party i (0 none, 1 frozen for
// a byzantine fault, 2 frozen then released, 3 frozen for missed votes).
func svFreeze(e *svEnv, i, fr int) {
	ctx := &e.app.Context
	es := ctx.evidenceStore.WithState(ctx.deliver)
	a := svParty_(i).Addr
	switch fr {
	case 1:
		es.CreateSuspiciousValidator(a, evidence.BYZANTINE_FAULT, 5, &svFrozenAt)
	case 2:
		lvh, _ := es.CreateSuspiciousValidator(a, evidence.BYZANTINE_FAULT, 5, &svFrozenAt)
		rel := svFrozenAt.Add(48 * time.Hour)
		lvh.ReleaseAt, lvh.ReleaseHeight = &rel, 9
		es.UpdateSuspiciousValidator(lvh)
	case 3:
		es.CreateSuspiciousValidator(a, evidence.MISSED_REQUIRED_VOTES, 5, &svFrozenAt)
	}
}

// SV_C19_handlers: one allegation / vote / release transaction.
//
// sv:bounds 2 parties, each a validator or not, with arbitrary active flag and freeze record (none, frozen for a byzantine fault, released, frozen for missed votes); an allegation request against B open or not with yes-votes recorded from any subset of the parties and, for the vote kind, from none or two other validators (before or around them) (quick tier: the party that does not sign is an active validator or none, frozen for a byzantine fault or not, and has not voted); release time 1 day; block time 1 s, 1 day, 1 day + 1 s or 2 days after the freeze (Tendermint block time is strictly increasing and a release is admitted only after the freeze block is committed); kind: allegation (request id open/new, any accused), vote (any int8 choice), release; actor any party (who signs); mempool-admitted regime
// sv:outside the block-end tally (SV_C19_tally); histories; a release delivered in the very block that froze the validator
// sv:goal another open request (against somebody else, one recorded vote) is never changed; an allegation succeeds only if the reporter is an active validator, the accused is not frozen and is someone else; a vote succeeds only from an active, not frozen validator that has not voted on that request, with choice yes or no, and adds exactly that one vote; a release succeeds only for a frozen validator whose release time has elapsed (missed votes: at once) and un-freezes it; a refused transaction leaves the freeze state as it was
func SV_C19_handlers() {
	svCurrencyLimit = 1
	pre := &svEvPre{}
	kind := sv.Choice("kind", 3)
	actor := sv.Choice("actor", 2)
	e := svNewEnv(2, 20, svPreEvidence(pre, kind, actor))
	e.app.header.Time = pre.headerTime
	raw, signers := svBuildEvidence(e, kind, actor)
	es := e.app.Context.evidenceStore.WithState(e.app.Context.deliver)
	votesBefore := 0
	if ar, err := es.GetAllegationRequest("req1"); err == nil {
		votesBefore = len(ar.Votes)
	}
	r := e.step(raw, signers, true)
	ok := r.resp.Code == 0
	es = e.app.Context.evidenceStore.WithState(e.app.Context.deliver)
	if arX, err := es.GetAllegationRequest("reqX"); true {
		sv.Assert(err == nil && len(arX.Votes) == 1 && arX.Votes[0].Choice == evidence.NO && arX.MaliciousAddress.Equal(svAddr(8)), "a-request-no-transaction-names-is-untouched")
	}
	isFrozen := func(i int) bool { return pre.frozen[i] == 1 || pre.frozen[i] == 3 }
	switch kind {
	case 0:
		if ok {
			m := &action_ev.Allegation{}
			m.Unmarshal(raw.Data)
			mal := 0
			if m.MaliciousAddress.Equal(svParty_(1).Addr) {
				mal = 1
			}
			sv.Assert(pre.isValidator[actor] && pre.active[actor], "allegation-only-by-an-active-validator")
			sv.Assert(!isFrozen(mal), "no-allegation-against-a-frozen-validator")
			sv.Assert(mal != actor, "no-allegation-against-oneself")
			sv.Cover(true, "allegation-opened")
		}
	case 1:
		if ok {
			m := &action_ev.AllegationVote{}
			m.Unmarshal(raw.Data)
			sv.Assert(pre.isValidator[actor] && pre.active[actor] && !isFrozen(actor), "vote-only-by-an-active-not-frozen-validator")
			sv.Assert(m.RequestID == "req1" && pre.reqOpen && !pre.voted[actor], "one-vote-per-validator-on-an-open-request")
			sv.Assert(m.Choice == evidence.YES || m.Choice == evidence.NO, "vote-is-yes-or-no")
			ar, err := es.GetAllegationRequest("req1")
			sv.Assert(err == nil && len(ar.Votes) == votesBefore+1, "exactly-one-vote-added")
			sv.Cover(true, "voted")
		} else if pre.reqOpen {
			ar, err := es.GetAllegationRequest("req1")
			sv.Assert(err == nil && len(ar.Votes) == votesBefore, "refused-vote-is-not-recorded")
		}
	case 2:
		if ok {
			sv.Assert(isFrozen(actor), "release-only-for-a-frozen-validator")
			elapsed := pre.headerTime.After(svFrozenAt.Add(24 * time.Hour))
			sv.Assert(pre.frozen[actor] == 3 || elapsed, "release-only-after-the-release-time")
			sv.Assert(!es.IsFrozenValidator(svParty_(actor).Addr), "released-validator-is-no-longer-frozen")
			sv.Cover(true, "released")
		} else {
			sv.Assert(es.IsFrozenValidator(svParty_(actor).Addr) == isFrozen(actor), "refused-release-changes-nothing")
		}
	}
	sv.Cover(ok, fmt.Sprint("ok-kind-", kind))
}

// SV_C19_frozen_staking: stake, unstake and stake-withdraw naming a validator
// that may be frozen.
//
// sv:bounds the staking pre-state of SV_C02_step_staking (3 parties, validator B with stake address A) plus a freeze record for B (none, frozen for a byzantine fault, released, frozen for missed votes); kinds STAKE, UNSTAKE, WITHDRAW with havoc payload; admitted by Validate on this state, or delivered without it (the freeze can come between the mempool check and the delivery)
// sv:outside histories
// sv:goal a staking transaction naming a frozen validator fails when delivered, in both regimes; (cover) the same transaction can succeed when the validator is not frozen
func SV_C19_frozen_staking() {
	svCurrencyLimit = 1
	fr := 0
	e := svNewEnv(3, 20, func(e *svEnv) {
		svPreStaking(e)
		fr = sv.Choice("ev.frozenB", 4)
		svFreeze(e, 1, fr)
	})
	kind := sv.Choice("kind", 3)
	var raw action.RawTx
	var signers []int
	var valAddr []byte
	switch kind {
	case 0:
		raw, signers = svBuildStake(e)
		valAddr = svStakeValidator(raw)
	case 1:
		raw, signers = svBuildUnstake(e)
		valAddr = svUnstakeValidator(raw)
	default:
		raw, signers = svBuildStakeWithdraw(e)
		valAddr = svWithdrawValidator(raw)
	}
	// the freeze may come after the mempool admitted the transaction (BeginBlock's
	// missed-vote check, the previous block's verdict): the deliver path itself must
	// refuse, with or without an admission on this very state
	admitted := sv.Choice("regime", 2) == 0
	r := e.step(raw, signers, admitted)
	ok := r.resp.Code == 0
	if svParty_(1).Addr.Equal(valAddr) {
		if fr == 1 || fr == 3 {
			sv.Assert(!ok, "no-staking-operation-on-a-frozen-validator")
			sv.Cover(!admitted, fmt.Sprint("delivered-on-frozen-refused-", kind))
		} else {
			sv.Cover(ok, fmt.Sprint("staking-on-unfrozen-ok-", kind))
		}
	}
}

// SV_C11_frozen_guard: nothing is staked, unstaked or withdrawn while the
// validator is frozen (same exploration as SV_C19_frozen_staking).
//
// sv:bounds as SV_C19_frozen_staking
// sv:outside as SV_C19_frozen_staking
// sv:goal as SV_C19_frozen_staking
func SV_C11_frozen_guard() { SV_C19_frozen_staking() }
