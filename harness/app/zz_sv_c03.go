package app

import (
	"math/big"

	sv "github.com/Oneledger/protocol/zz_sv"
)

// C03 — no unauthorised debit: only signers' holdings may decrease
// (same exploration as C02, different goal).

// SV_C03_send.
//
// sv:bounds as SV_C02_send with 3 parties (A signs; sender and recipient any party)
// sv:outside sequences; guilty-verdict slashing (C19)
// sv:goal the holdings (all ledger cells, every currency) of every party that did not sign do not decrease
func SV_C03_send() {
	e := svNewEnv(3, 2, nil)
	e.step(svBuildSend(e), []int{0}, true).goalsC03(e.n)
}

// SV_C03_sendpool.
//
// sv:bounds as SV_C02_sendpool with 3 parties
// sv:goal as SV_C03_send
func SV_C03_sendpool() {
	e := svNewEnv(3, 2, nil)
	e.step(svBuildSendPool(e), []int{0}, true).goalsC03(e.n)
}

// SV_C03_stake: the two signers are the parties the payload names.
//
// sv:bounds as SV_C02_stake
// sv:goal as SV_C03_send
func SV_C03_stake() {
	e := svNewEnv(3, 20, svPreStaking)
	raw, signers := svBuildStake(e)
	e.step(raw, signers, true).goalsC03(e.n)
}

// SV_C03_unstake.
//
// sv:bounds as SV_C02_stake
// sv:goal as SV_C03_send
func SV_C03_unstake() {
	e := svNewEnv(3, 20, svPreStaking)
	raw, signers := svBuildUnstake(e)
	e.step(raw, signers, true).goalsC03(e.n)
}

// SV_C03_stake_withdraw.
//
// sv:bounds as SV_C02_stake
// sv:goal as SV_C03_send
func SV_C03_stake_withdraw() {
	e := svNewEnv(3, 20, svPreStaking)
	raw, signers := svBuildStakeWithdraw(e)
	e.step(raw, signers, true).goalsC03(e.n)
}

// SV_C03_delegation: the four network delegation kinds.
//
// sv:bounds as SV_C02_delegate with the kind as a choice
// sv:goal as SV_C03_send
func SV_C03_delegation() {
	e := svNewEnv(2, 20, svPreDeleg)
	raw, signers := svBuildAnyDeleg(e)
	e.step(raw, signers, true).goalsC03(e.n)
}

// SV_C03_ons: the seven domain-name kinds; a purchase credits (never debits) the previous owner.
//
// sv:bounds as SV_C02_ons with 2 (quick) / 3 (thorough) parties
// sv:goal as SV_C03_send
func SV_C03_ons() {
	svCurrencyLimit = 2
	pre := &svDomainPre{}
	e := svNewEnv(2+sv.Tier(), 20, svPreONS(pre))
	raw, signers := svBuildONS(e, sv.Choice("kind", 7))
	e.step(raw, signers, true).goalsC03(e.n)
}

// SV_C03_gov: create / fund / withdraw-funds / cancel (the beneficiary of a withdrawal is credited, never debited).
//
// sv:bounds as SV_C14_funds_and_stage
// sv:goal as SV_C03_send (escrowed contributions count as their funder's holdings)
func SV_C03_gov() {
	svCurrencyLimit = 2
	pre := &svPropPre{}
	e := svNewEnv(2, 20, svPreGov(pre))
	raw, signers := svBuildGov(e, sv.Choice("kind", 4))
	r := e.step(raw, signers, true)
	// escrow cells are owned by "escrow:<party>": fold them into the party's holdings
	for i := 0; i < e.n; i++ {
		name := svPartyName(i)
		if i == signers[0] {
			continue
		}
		h0 := new(big.Int).Add(r.before.holdings(name), r.before.holdings("escrow:"+name))
		h1 := new(big.Int).Add(r.after.holdings(name), r.after.holdings("escrow:"+name))
		sv.Assert(h1.Cmp(h0) >= 0, "non-signer-not-debited")
	}
	sv.Cover(r.resp.Code == 0, "delivered-ok")
}
