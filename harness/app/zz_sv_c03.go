package app

import sv "github.com/Oneledger/protocol/zz_sv"

// C03 — no unauthorised debit: only signers' holdings may decrease
// (same exploration as C02, different goal).

// SV_C03_send.
//
// sv:bounds as SV_C02_send with 3 parties (A signs; sender and recipient any party)
// sv:outside sequences; guilty-verdict slashing (C19)
// sv:goal the holdings (all ledger cells, every currency) of every party that did not sign do not decrease
func SV_C03_send() {
	e := svNewEnv(3, 2, nil)
	e.step(svBuildSend(e), []int{0}, true).goalsC03(e.n)
}

// SV_C03_sendpool.
//
// sv:bounds as SV_C02_sendpool with 3 parties
// sv:goal as SV_C03_send
func SV_C03_sendpool() {
	e := svNewEnv(3, 2, nil)
	e.step(svBuildSendPool(e), []int{0}, true).goalsC03(e.n)
}

// SV_C03_stake: the two signers are the parties the payload names.
//
// sv:bounds as SV_C02_stake
// sv:goal as SV_C03_send
func SV_C03_stake() {
	e := svNewEnv(3, 20, svPreStaking)
	raw, signers := svBuildStake(e)
	e.step(raw, signers, true).goalsC03(e.n)
}

// SV_C03_unstake.
//
// sv:bounds as SV_C02_stake
// sv:goal as SV_C03_send
func SV_C03_unstake() {
	e := svNewEnv(3, 20, svPreStaking)
	raw, signers := svBuildUnstake(e)
	e.step(raw, signers, true).goalsC03(e.n)
}

// SV_C03_stake_withdraw.
//
// sv:bounds as SV_C02_stake
// sv:goal as SV_C03_send
func SV_C03_stake_withdraw() {
	e := svNewEnv(3, 20, svPreStaking)
	raw, signers := svBuildStakeWithdraw(e)
	e.step(raw, signers, true).goalsC03(e.n)
}

// SV_C03_delegation: the four network delegation kinds.
//
// sv:bounds as SV_C02_delegate with the kind as a choice
// sv:goal as SV_C03_send
func SV_C03_delegation() {
	e := svNewEnv(2, 20, svPreDeleg)
	raw, signers := svBuildAnyDeleg(e)
	e.step(raw, signers, true).goalsC03(e.n)
}

// SV_C03_ons: the seven domain-name kinds; a purchase credits (never debits) the previous owner.
//
// sv:bounds as SV_C02_ons with 2 (quick) / 3 (thorough) parties
// sv:goal as SV_C03_send
func SV_C03_ons() {
	svCurrencyLimit = 2
	pre := &svDomainPre{}
	e := svNewEnv(2+sv.Tier(), 20, svPreONS(pre))
	raw, signers := svBuildONS(e, sv.Choice("kind", 7))
	e.step(raw, signers, true).goalsC03(e.n)
}
