package identity

// C10 — validator-set updates are well formed and follow the staking rule:
// one election step (InitValidatorQueue + GetEndBlockUpdate) from arbitrary
// candidate records.

import (
	"fmt"
	"time"

	abci "github.com/tendermint/tendermint/abci/types"
	"github.com/tendermint/tendermint/crypto/ed25519"
	db "github.com/tendermint/tm-db"

	"github.com/Oneledger/protocol/data/balance"
	"github.com/Oneledger/protocol/data/chain"
	"github.com/Oneledger/protocol/data/delegation"
	"github.com/Oneledger/protocol/data/evidence"
	"github.com/Oneledger/protocol/data/fees"
	"github.com/Oneledger/protocol/data/governance"
	"github.com/Oneledger/protocol/data/keys"
	"github.com/Oneledger/protocol/storage"
	sv "github.com/Oneledger/protocol/zz_sv"
)

var c10OLT = balance.Currency{Id: 0, Name: "OLT", Chain: chain.ONELEDGER, Decimal: 18, Unit: "nue"}

type c10Cand struct {
	addr keys.Address
	pub  keys.PublicKey
}

func c10Candidate(i int) c10Cand {
	priv := ed25519.GenPrivKeyFromSecret([]byte{'c', '1', '0', byte('A' + i)})
	pub := keys.PublicKey{KeyType: keys.ED25519, Data: priv.PubKey().Bytes()[5:]}
	h, _ := pub.GetHandler()
	return c10Cand{addr: h.Address(), pub: pub}
}

type c10Env struct {
	cs    *storage.ChainState
	st    *storage.State
	vs    *ValidatorStore
	vctx  *ValidatorContext
	cands []c10Cand
}

func c10NewEnv(n int, minSelf, topCount int64) *c10Env {
	e := &c10Env{}
	e.cs = storage.NewChainState("c10", db.NewMemDB())
	e.cs.SetupRotation(configRotation())
	e.st = storage.NewState(e.cs)
	e.vs = NewValidatorStore("v", "purged", e.st)
	cur := balance.NewCurrencySet()
	cur.Register(c10OLT)
	fp := fees.NewStore("f", e.st)
	fp.SetupOpt(&fees.FeeOption{FeeCurrency: c10OLT, MinFeeDecimal: 9})
	gov := governance.NewStore("g", e.st)
	g := gov.WithHeight(0)
	if err := g.SetStakingOptions(delegation.Options{MinSelfDelegationAmount: *balance.NewAmount(minSelf), MinDelegationAmount: *balance.NewAmount(1),
		TopValidatorCount: topCount, MaturityTime: 10}); err != nil {
		sv.Unreachable("staking options")
	}
	g.SetEvidenceOptions(evidence.Options{MinVotesRequired: 2, BlockVotesDiff: 4, PenaltyBasePercentage: 30, PenaltyBaseDecimals: 100,
		PenaltyBountyPercentage: 50, PenaltyBountyDecimals: 100, PenaltyBurnPercentage: 50, PenaltyBurnDecimals: 100,
		ValidatorVotePercentage: 50, ValidatorVoteDecimals: 100, AllegationPercentage: 50, AllegationDecimals: 100})
	g.SetProposalOptions(governance.ProposalOptionSet{BountyProgramAddr: "oneledgerBountyProgram"})
	g.SetAllLUH()
	e.vctx = NewValidatorContext(balance.NewStore("b", e.st), fp, delegation.NewDelegationStore("st", e.st),
		evidence.NewEvidenceStore("es", e.st), gov, cur, e.vs)
	for i := 0; i < n; i++ {
		e.cands = append(e.cands, c10Candidate(i))
	}
	return e
}

// SV_C10_election: one block-end election.
//
// sv:bounds 2 (quick) / 3 (thorough) candidate validator records at version h-1 with arbitrary power (0 <= p < 2^62; record present or absent), each arbitrary whether it was in the last commit (active) and whether it signed it, flagged malicious, has a status record, and its last purge height (0..h); TopValidatorCount in 1..number of candidates; minimum self delegation symbolic (1 <= m < 2^62); fee pool below the distribution threshold; no open allegation; h = 4
// sv:outside more candidates than stated; fee distribution (covered by C02 hooks); allegation verdicts in the same block (C19); the pipeline of pending updates over several blocks and convergence (not yet encoded)
// sv:goal no duplicate key among the updates; every positive-power update names a candidate whose record at h-1 has power >= the minimum, is not flagged malicious, carries exactly that power, at most TopValidatorCount of them, and every eligible candidate left out has power <= every elected one; every zero-power update names a validator of the last commit that was not elected and was not already purged at h-1 or h-2 (Tendermint applies updates two blocks later); every member of the last commit (signed or not) that is not elected and has no removal in flight receives a zero-power update
func SV_C10_election() {
	n := 2 + sv.Tier() // quick: 2 candidates, thorough: 3
	top := int64(1 + sv.Choice("topCount", n))
	minSelf := sv.Int64("minSelf")
	sv.Assume(minSelf >= 1 && minSelf < 1<<62)
	// options hold the minimum as an Amount: any int64 works through NewAmount
	e := c10NewEnv(n, 1, top)
	// overwrite the symbolic minimum
	opts, _ := e.vctx.Govern.GetStakingOptions()
	opts.MinSelfDelegationAmount = *balance.NewAmount(minSelf)
	e.vctx.Govern.WithHeight(0).SetStakingOptions(*opts)

	power := make([]int64, n)
	present := make([]bool, n)
	for i, c := range e.cands {
		present[i] = sv.Choice(fmt.Sprint("present", i), 2) == 0
		if !present[i] {
			continue
		}
		power[i] = sv.Int64(fmt.Sprint("power", i))
		sv.Assume(power[i] >= 0 && power[i] < 1<<62)
		v := NewValidator(c.addr, c.addr, c.pub, c.pub, *balance.NewAmount(power[i]), fmt.Sprint("n", i))
		v.Power = power[i]
		if err := e.vs.Set(*v); err != nil {
			sv.Unreachable("validator record")
		}
	}
	e.st.Commit()
	e.st.Commit()
	e.st.Commit() // version 3 = h-1
	height := int64(4)
	e.vs.lastHeight = height

	// in-memory state Setup() rebuilds at BeginBlock
	var votes []abci.VoteInfo
	active := make([]bool, n)
	malicious := make([]bool, n)
	purgeH := make([]int64, n)
	statusMode := sv.Choice("statusRecords", 3) // none / all active / all inactive (does not influence the election)
	for i, c := range e.cands {
		active[i] = sv.Bool(fmt.Sprint("active", i))
		if !present[i] && !active[i] {
			continue // nothing known about this address: no further choices
		}
		if active[i] {
			// whether it signed the last block must not matter: it is in Tendermint's set either way
			votes = append(votes, abci.VoteInfo{Validator: abci.Validator{Address: c.addr, Power: 1}, SignedLastBlock: sv.Bool(fmt.Sprint("signed", i))})
		}
		malicious[i] = sv.Bool(fmt.Sprint("malicious", i))
		if malicious[i] {
			e.vs.maliciousValidators[c.addr.String()] = &evidence.LastValidatorHistory{Address: c.addr}
		}
		purge := sv.Int64(fmt.Sprint("purge", i))
		sv.Assume(purge >= 0 && purge <= height)
		purgeH[i] = purge
		// reachable states only: a validator without a record is in the last commit only
		// while its removal (issued in the block that deleted the record) is in flight
		if !present[i] && active[i] {
			sv.Assume(purge > 0 && height <= purge+2)
		}
		if purge > 0 {
			e.vs.SetLastPurgeHeight(c.addr, purge)
		}
		if statusMode > 0 {
			e.vctx.EvidenceStore.SetValidatorStatus(c.addr, statusMode == 1, 1)
		}
	}
	e.vs.InitValidatorQueue(nil)
	e.vs.cacheActiveValidators(abci.LastCommitInfo{Votes: votes})

	updates := e.vs.GetEndBlockUpdate(e.vctx, abci.RequestEndBlock{Height: height})

	// --- goals ---
	idx := func(u abci.ValidatorUpdate) int {
		for i, c := range e.cands {
			if string(u.PubKey.Data) == string(c.pub.Data) {
				return i
			}
		}
		return -1
	}
	elected := make([]bool, n)
	removed := make([]bool, n)
	nElected := int64(0)
	for _, u := range updates {
		i := idx(u)
		sv.Assert(i >= 0, "update-names-a-known-candidate")
		if i < 0 {
			continue
		}
		sv.Assert(!elected[i] && !removed[i], "no-duplicate-key-in-updates")
		if u.Power > 0 {
			elected[i] = true
			nElected++
			sv.Assert(present[i] && u.Power == power[i], "positive-update-carries-the-recorded-power")
			sv.Assert(power[i] >= minSelf, "elected-has-at-least-the-minimum-self-delegation")
			sv.Assert(!malicious[i], "elected-is-not-flagged-malicious")
		} else {
			removed[i] = true
			sv.Assert(u.Power == 0, "power-not-negative")
			sv.Assert(active[i], "zero-update-only-for-a-validator-of-the-last-commit")
			// Tendermint applies the updates of block P at P+2: a validator removed at P is still
			// in the last commit of P+1 and P+2 but no longer in the set the new updates apply to;
			// removing it again there is rejected ("failed to find validator to remove")
			sv.Assert(!(purgeH[i] > 0 && height <= purgeH[i]+2), "no-second-removal-within-two-blocks-of-a-purge")
		}
	}
	sv.Assert(nElected <= top, "at-most-top-count-elected")
	for i := 0; i < n; i++ {
		eligible := present[i] && power[i] >= minSelf && !malicious[i]
		if eligible && !elected[i] {
			for j := 0; j < n; j++ {
				if elected[j] {
					sv.Assert(power[i] <= power[j], "higher-stake-preferred")
				}
			}
			sv.Assert(nElected == top, "eligible-candidate-left-out-only-when-the-top-count-is-reached")
			sv.Cover(true, "eligible-left-out")
		}
	}
	// convergence: a member of the current set that is not elected gets its removal
	// (unless one was issued within the last two blocks and is still in flight)
	for i := 0; i < n; i++ {
		if active[i] && !elected[i] && !(purgeH[i] > 0 && height <= purgeH[i]+2) {
			sv.Assert(removed[i], "set-member-that-is-not-elected-is-removed")
		}
	}
	sv.Cover(nElected > 0, "someone-elected")
	sv.Cover(int64(len(updates)) > nElected, "some-removal")
	sv.Observe("nElected", nElected)
	sv.Observe("nUpdates", len(updates))
}

// SV_C10_frozen_records: the election read from the evidence records, the way a
// block does it (Setup, CheckMaliciousValidators, GetEndBlockUpdate), instead
// of from a prepared malicious map.
//
// sv:bounds 3 validators with symbolic powers above the minimum, all in the last commit; each never suspected, frozen for a byzantine fault, or frozen and released (record kept), in every combination and therefore in every address order; top count 3; block 6 (above the BlockVotesDiff threshold 4), all signed
// sv:outside missed-vote accounting (everybody signed); allegation verdicts in this block; more validators
// sv:goal a validator whose record says frozen is issued no positive power and, being in the last commit, is purged; every other validator is issued exactly its power
func SV_C10_frozen_records() {
	e := c10NewEnv(3, 1, 3)
	now := time.Unix(1600000000, 0).UTC()
	power := []int64{sv.Int64("power0"), sv.Int64("power1"), sv.Int64("power2")}
	frozen := make([]bool, 3)
	var votes []abci.VoteInfo
	for i, c := range e.cands {
		sv.Assume(power[i] >= 1 && power[i] < 1<<40)
		v := NewValidator(c.addr, c.addr, c.pub, c.pub, *balance.NewAmount(power[i]), fmt.Sprint("n", i))
		v.Power = power[i]
		if err := e.vs.Set(*v); err != nil {
			sv.Unreachable("validator record")
		}
		switch sv.Choice(fmt.Sprint("suspicious", i), 3) {
		case 1:
			e.vctx.EvidenceStore.CreateSuspiciousValidator(c.addr, evidence.BYZANTINE_FAULT, 2, &now)
			frozen[i] = true
		case 2:
			lvh, _ := e.vctx.EvidenceStore.CreateSuspiciousValidator(c.addr, evidence.BYZANTINE_FAULT, 2, &now)
			rel := now.Add(time.Hour)
			lvh.ReleaseAt, lvh.ReleaseHeight = &rel, 3
			e.vctx.EvidenceStore.UpdateSuspiciousValidator(lvh)
		}
		votes = append(votes, abci.VoteInfo{Validator: abci.Validator{Address: c.addr, Power: power[i]}, SignedLastBlock: true})
	}
	for i := 0; i < 5; i++ {
		e.st.Commit() // version 5 = h-1
	}
	h := int64(6)
	t := now.Add(2 * time.Hour)
	if err := e.vs.Setup(abci.RequestBeginBlock{Header: abci.Header{Height: h, Time: t}, LastCommitInfo: abci.LastCommitInfo{Votes: votes}}, nil); err != nil {
		sv.Unreachable("setup")
	}
	e.vs.CheckMaliciousValidators(e.vctx.EvidenceStore, e.vctx.Govern)
	ups := e.vs.GetEndBlockUpdate(e.vctx, abci.RequestEndBlock{Height: h})
	for i, c := range e.cands {
		got, seen := int64(-1), 0
		for _, u := range ups {
			if string(u.PubKey.Data) == string(c.pub.Data) {
				got = u.Power
				seen++
			}
		}
		sv.Assert(seen <= 1, "no-duplicate-update")
		if frozen[i] {
			sv.Assert(got == 0, "frozen-validator-is-not-elected-and-is-purged")
			sv.Cover(true, fmt.Sprint("frozen", i))
		} else {
			sv.Assert(got == power[i], "validator-that-is-not-frozen-is-elected-with-its-power")
		}
		sv.Observe(fmt.Sprint("update", i), got)
	}
}
