package identity

// C10 — the validator updates of consecutive blocks, applied to a model of
// Tendermint's validator set with its two-block delay.

import (
	"fmt"
	"time"

	abci "github.com/tendermint/tendermint/abci/types"

	"github.com/Oneledger/protocol/data/balance"
	sv "github.com/Oneledger/protocol/zz_sv"
)

// SV_C10_blocks: seven consecutive blocks through the real Setup /
// HandleStake / HandleUnstake / GetEndBlockUpdate / commit.
//
// sv:bounds 3 validator records A, B, C with arbitrary distinct powers (1 <= p < 2^40, every order), minimum self delegation arbitrary, top count 1..3; Tendermint's set before block 4 is the election of that state (at least one validator eligible); blocks 4..10; one staking event delivered in block 5: none, X stakes an arbitrary amount more, X unstakes an arbitrary part, or X unstakes everything, for X any of the three; optionally a second event in block 6: X stakes an arbitrary amount (again) or X unstakes everything; at least one validator stays eligible throughout; nobody frozen, fee pool below the distribution threshold
// sv:outside more than 3 validators; more than two staking events; equal powers (the election order among equals is the queue's); byzantine evidence and allegations in these blocks (C19); Tendermint's own total-power cap (powers are below 2^40)
// sv:goal the updates of every block are acceptable to Tendermint when applied two blocks later: no key twice, a removal only of a member of the set it is applied to, the set never becomes empty; five blocks after the last staking event the set is exactly the election of the final records: the top-count highest powers among those at or above the minimum, each with its recorded power
func SV_C10_blocks() {
	n := 3
	top := int64(1 + sv.Choice("topCount", n))
	minSelf := sv.Int64("minSelf")
	sv.Assume(minSelf >= 1 && minSelf < 1<<40)
	e := c10NewEnv(n, 1, top)
	opts, _ := e.vctx.Govern.GetStakingOptions()
	opts.MinSelfDelegationAmount = *balance.NewAmount(minSelf)
	e.vctx.Govern.WithHeight(0).SetStakingOptions(*opts)

	power := make([]int64, n)
	for i, c := range e.cands {
		power[i] = sv.Int64(fmt.Sprint("power", i))
		sv.Assume(power[i] >= 1 && power[i] < 1<<40)
		for j := 0; j < i; j++ {
			sv.Assume(power[i] != power[j])
		}
		if err := e.vs.HandleStake(Stake{ValidatorAddress: c.addr, StakeAddress: c.addr, Pubkey: c.pub, ECDSAPubKey: c.pub,
			Name: fmt.Sprint("n", i), Amount: *balance.NewAmount(power[i])}, false, 0); err != nil {
			sv.Unreachable("genesis stake")
		}
	}
	e.st.Commit()
	e.st.Commit()
	e.st.Commit() // version 3

	// reference election over a power table
	elect := func(p []int64) []bool {
		in := make([]bool, n)
		cnt := int64(0)
		for cnt < top {
			best := -1
			for i := 0; i < n; i++ {
				if !in[i] && p[i] >= minSelf && (best < 0 || p[i] > p[best]) {
					best = i
				}
			}
			if best < 0 {
				break
			}
			in[best] = true
			cnt++
		}
		return in
	}
	anyOf := func(b []bool) bool {
		for _, x := range b {
			if x {
				return true
			}
		}
		return false
	}
	// Tendermint's sets: cur is the set of the block being executed, next the one after it
	el0 := elect(power)
	sv.Assume(anyOf(el0))
	type tmset map[int]int64
	mk := func(in []bool, p []int64) tmset {
		s := tmset{}
		for i := 0; i < n; i++ {
			if in[i] {
				s[i] = p[i]
			}
		}
		return s
	}
	cur, next := mk(el0, power), mk(el0, power)
	prev := mk(el0, power) // the set of the previous block (its members are the last commit)

	// the staking events
	ev := sv.Choice("event", 4) // none, stake more, partial unstake, full unstake
	who := sv.Choice("event.validator", n)
	amount := sv.Int64("event.amount")
	sv.Assume(amount >= 1 && amount < 1<<40)
	second := 0 // none, X stakes again, X unstakes everything
	if ev != 0 {
		second = sv.Choice("second.event", 3)
	}
	again := second == 1
	amount2 := sv.Int64("second.amount")
	sv.Assume(amount2 >= 1 && amount2 < 1<<40)
	lastEvent := int64(4)

	idx := func(u abci.ValidatorUpdate) int {
		for i, c := range e.cands {
			if string(u.PubKey.Data) == string(c.pub.Data) {
				return i
			}
		}
		return -1
	}
	now := time.Unix(1600000000, 0).UTC()
	for h := int64(4); h <= 11; h++ {
		var votes []abci.VoteInfo
		for i, c := range e.cands {
			if p, ok := prev[i]; ok {
				votes = append(votes, abci.VoteInfo{Validator: abci.Validator{Address: c.addr, Power: p}, SignedLastBlock: true})
			}
		}
		now = now.Add(17 * time.Second)
		if err := e.vs.Setup(abci.RequestBeginBlock{Header: abci.Header{Height: h, Time: now}, LastCommitInfo: abci.LastCommitInfo{Votes: votes}}, nil); err != nil {
			sv.Unreachable("setup")
		}
		c := e.cands[who]
		if h == 5 {
			switch ev {
			case 1:
				if e.vs.HandleStake(Stake{ValidatorAddress: c.addr, StakeAddress: c.addr, Pubkey: c.pub, ECDSAPubKey: c.pub, Name: "x", Amount: *balance.NewAmount(amount)}, false, h) == nil {
					power[who] += amount
					lastEvent = h
				}
			case 2:
				sv.Assume(amount < power[who])
				if e.vs.HandleUnstake(Unstake{Address: c.addr, Amount: *balance.NewAmount(amount)}, h) == nil {
					power[who] -= amount
					lastEvent = h
				}
			case 3:
				if e.vs.HandleUnstake(Unstake{Address: c.addr, Amount: *balance.NewAmount(power[who])}, h) == nil {
					power[who] = 0
					lastEvent = h
				}
			}
			for j := 0; j < n; j++ {
				if j != who {
					sv.Assume(power[j] != power[who])
				}
			}
			sv.Assume(anyOf(elect(power)))
		}
		if h == 6 && again {
			if e.vs.HandleStake(Stake{ValidatorAddress: c.addr, StakeAddress: c.addr, Pubkey: c.pub, ECDSAPubKey: c.pub, Name: "x", Amount: *balance.NewAmount(amount2)}, false, h) == nil {
				power[who] += amount2
				lastEvent = h
				sv.Cover(ev == 3, "staked-again-after-a-full-unstake")
			}
			for j := 0; j < n; j++ {
				if j != who {
					sv.Assume(power[j] != power[who])
				}
			}
		}
		if h == 6 && second == 2 && power[who] > 0 {
			if e.vs.HandleUnstake(Unstake{Address: c.addr, Amount: *balance.NewAmount(power[who])}, h) == nil {
				power[who] = 0
				lastEvent = h
				sv.Cover(ev == 1, "staked-then-left-in-the-next-block")
			}
			sv.Assume(anyOf(elect(power)))
		}
		updates := e.vs.GetEndBlockUpdate(e.vctx, abci.RequestEndBlock{Height: h})
		e.st.Commit()
		// Tendermint applies them to the set of h+1, giving the set of h+2
		after := tmset{}
		for i, p := range next {
			after[i] = p
		}
		seen := map[int]bool{}
		for _, u := range updates {
			i := idx(u)
			sv.Assert(i >= 0 && !seen[i], "no-duplicate-or-unknown-key-in-updates")
			if i < 0 {
				continue
			}
			seen[i] = true
			if u.Power == 0 {
				_, member := next[i]
				sv.Assert(member, "removal-names-a-member-of-the-set-it-is-applied-to")
				delete(after, i)
			} else {
				sv.Assert(u.Power > 0, "power-not-negative")
				after[i] = u.Power
			}
		}
		sv.Assert(len(after) > 0, "the-set-is-never-emptied")
		prev, cur, next = cur, next, after
	}
	_ = cur
	// convergence: block 11 is at least five blocks after the last event
	sv.Assert(lastEvent <= 6, "events-in-blocks-5-and-6")
	want := elect(power)
	for i := 0; i < n; i++ {
		p, member := next[i]
		sv.Assert(member == want[i], "the-set-converges-to-the-election")
		if member && want[i] {
			sv.Assert(p == power[i], "members-carry-their-recorded-power")
		}
	}
	sv.Cover(ev == 2, "partial-unstake")
	sv.Cover(ev == 3, "full-unstake")
	sv.Cover(ev == 1, "staked-more")
	sv.Observe("members", len(next))
}
