package identity

// C19 — allegations: the block-end tally (ExecuteAllegationTracker).

import (
	"fmt"
	"math/big"
	"time"

	"github.com/Oneledger/protocol/data/balance"
	"github.com/Oneledger/protocol/data/evidence"
	"github.com/Oneledger/protocol/data/keys"
	sv "github.com/Oneledger/protocol/zz_sv"
)

// SV_C19_tally: one allegation request with up to 3 recorded votes against a
// validator with an arbitrary stake, tallied at block end.
//
// sv:bounds 1 open request against validator M; 3 possible voters (distinct addresses, as Vote() maintains), each having voted yes, no or not at all (symbolic); activeCount in 1..4; evidence options of the devnet genesis (vote share 50/100, allegation share 50/100, penalty 30/100, bounty 50/100); M's stake S (whole OLT) symbolic, 0 <= S < 2^40, held by its own stake address; M not frozen before
// sv:outside several concurrent requests (thorough tier: 2, against different validators); other option values; votes of validators that are no longer active (the code counts every recorded vote: noted, not asserted); histories
// sv:goal with required = ceil(active*50/100): guilty iff yes/required > 1/2, else innocent iff no/required > 1/2, else undecided; guilty implies M is frozen, its stake records (validator total, its own locked amount) drop by exactly round(S*30/100), the bounty address receives exactly that penalty * 10^18 * 50/100, and the same amount is recorded as the delayed unstake applied to the validator record in the next block; innocent/undecided changes neither stake nor bounty nor frozen status; a decided request leaves the tracker
func SV_C19_tally() {
	e := c10NewEnv(1, 1, 4)
	m := e.cands[0]
	S := sv.Int64("stake")
	sv.Assume(S >= 0 && S < 1<<40)
	v := NewValidator(m.addr, m.addr, m.pub, m.pub, *balance.NewAmount(S), "m")
	v.Power = S
	if err := e.vs.Set(*v); err != nil {
		sv.Unreachable("validator record")
	}
	if err := e.vctx.Delegators.Stake(m.addr, m.addr, *balance.NewAmount(S)); err != nil {
		sv.Unreachable("stake record")
	}
	es := e.vctx.EvidenceStore
	// the request and its votes
	ar := evidence.NewAllegationRequest("req1", c10Candidate(5).addr, m.addr, 1, "proof")
	yes, no := 0, 0
	for i := 0; i < 3; i++ {
		switch sv.Choice(fmt.Sprint("vote", i), 3) {
		case 1:
			ar.Votes = append(ar.Votes, &evidence.AllegationVote{Address: c10Candidate(5 + i).addr, Choice: evidence.YES})
			yes++
		case 2:
			ar.Votes = append(ar.Votes, &evidence.AllegationVote{Address: c10Candidate(5 + i).addr, Choice: evidence.NO})
			no++
		}
	}
	if err := es.SetAllegationRequest(ar); err != nil {
		sv.Unreachable("request")
	}
	at, _ := es.GetAllegationTracker()
	at.Requests["req1"] = true
	es.SetAllegationTracker(at)
	e.st.Commit()
	e.st.Commit() // version 2 = h-1
	height := int64(3)
	e.vs.lastHeight = height
	now := time.Unix(1600000000, 0).UTC()
	e.vs.lastBlockTime = &now
	active := int64(1 + sv.Choice("activeCount", 4))
	bounty := keys.Address("oneledgerBountyProgram")
	bal0, _ := e.vctx.Balances.GetBalanceForCurr(bounty, &c10OLT)

	err := e.vs.ExecuteAllegationTracker(e.vctx, active)
	sv.Assert(err == nil, "tally-runs")

	// reference tally in exact integers
	required := (active*50 + 99) / 100
	guilty := int64(yes)*100 > 50*required   // yes/required > 50/100
	innocent := !guilty && int64(no)*100 > 50*required // no/required > 1 - 50/100
	frozen := es.IsFrozenValidator(m.addr)
	T, _ := e.vctx.Delegators.GetValidatorAmount(m.addr)
	E, _ := e.vctx.Delegators.GetValidatorDelegationAmount(m.addr, m.addr)
	bal1, _ := e.vctx.Balances.GetBalanceForCurr(bounty, &c10OLT)
	gain := new(big.Int).Sub(bal1.Amount.BigInt(), bal0.Amount.BigInt())
	at2, _ := es.GetAllegationTracker()
	_, open := at2.Requests["req1"]
	if guilty {
		sv.Assert(frozen, "guilty-validator-is-frozen")
		// round half up of S*30/100 = floor((S*30 + 50)/100)
		pen := (S*30 + 50) / 100
		sv.Assert(T.BigInt().Cmp(big.NewInt(S-pen)) == 0 && E.BigInt().Cmp(big.NewInt(S-pen)) == 0, "stake-reduced-by-exactly-the-configured-percentage")
		wantBounty := new(big.Int).Mul(big.NewInt(pen), new(big.Int).Exp(big.NewInt(10), big.NewInt(18), nil))
		wantBounty.Mul(wantBounty, big.NewInt(50)).Div(wantBounty, big.NewInt(100))
		sv.Assert(gain.Cmp(wantBounty) == 0, "bounty-receives-exactly-its-share-of-the-penalty")
		// the validator record follows one block later through the delayed unstake
		e.vs.lastHeight = height + 1
		du, derr := e.vs.GetDelayUnstake(m.addr)
		sv.Assert(derr == nil && du.Amount.BigInt().Cmp(big.NewInt(pen)) == 0, "delayed-unstake-records-the-penalty")
		sv.Assert(!open, "decided-request-leaves-the-tracker")
		sv.Cover(true, "guilty")
		sv.Observe("penalty", pen)
	} else {
		sv.Assert(!frozen, "not-guilty-means-not-frozen")
		sv.Assert(T.BigInt().Cmp(big.NewInt(S)) == 0 && E.BigInt().Cmp(big.NewInt(S)) == 0 && gain.Sign() == 0, "not-guilty-changes-no-stake-and-pays-no-bounty")
		sv.Assert(open == !innocent, "request-stays-open-exactly-while-undecided")
		sv.Cover(innocent, "innocent")
		sv.Cover(!innocent, "undecided")
	}
	sv.Observe("guilty", guilty)
	sv.Observe("frozen", frozen)
}
