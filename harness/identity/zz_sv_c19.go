package identity

// C19 — allegations: the block-end tally (ExecuteAllegationTracker).

import (
	"fmt"
	"math/big"
	"time"

	"github.com/tendermint/tendermint/abci/types"

	"github.com/Oneledger/protocol/data/balance"
	"github.com/Oneledger/protocol/data/evidence"
	"github.com/Oneledger/protocol/data/keys"
	sv "github.com/Oneledger/protocol/zz_sv"
)

type c19Req struct {
	id      string
	stake   keys.Address // the validator's stake account
	m       c10Cand
	S       int64
	yes, no int
	bal0    *big.Int
}

// SV_C19_tally: one or two allegation requests with recorded votes against
// validators with an arbitrary stake, tallied at block end.
//
// sv:bounds request req1 against validator M with 3 possible voters (distinct addresses, as Vote() maintains), each having voted yes, no or not at all; optionally a second request req2 against another validator N with 2 possible voters, inserted before or after req1 in the tracker; activeCount in 1..4; evidence options of the devnet genesis (vote share 50/100, allegation share 50/100, penalty 30/100, bounty 50/100); M's stake S (whole OLT) symbolic, 0 <= S < 2^40, N's stake 1000, N's held by its own address; M's stake account is M's own address or a separate account (then M's own address also holds a symbolic stake with a validator whose address is that account); M's stake address also holds a symbolic stake 0 <= X < 2^40 with a third validator that nobody accuses; M not frozen before, or frozen for missed votes by an earlier block
// sv:outside more than two concurrent requests; other option values; votes of validators that are no longer active (the code counts every recorded vote: noted, not asserted); histories
// sv:goal for each request on its own votes, with required = ceil(active*50/100): guilty iff yes/required > 1/2, else innocent iff no/required > 1/2, else undecided; guilty implies the accused is frozen with a byzantine-fault record dated at the verdict block (whatever record it had) and cannot be released in that block, its stake records (validator total, its own locked amount) drop by exactly round(S*30/100), the bounty address receives exactly that penalty * 10^18 * 50/100, and the same amount is recorded as the delayed unstake; after the next block's begin hook (real Setup) every accused validator's record equals the amount locked with it in the delegation store (two verdicts in one block: both records follow); innocent/undecided changes neither stake nor bounty nor frozen status; a decided request leaves the tracker; the stake M's stake address holds with the third validator is never touched and never enters the penalty base
func SV_C19_tally() {
	e := c10NewEnv(2, 1, 4)
	S := sv.Int64("stake")
	sv.Assume(S >= 0 && S < 1<<40)
	reqs := []*c19Req{{id: "req1", m: e.cands[0], S: S}}
	two := sv.Choice("secondRequest", 3) // 0 none, 1 inserted after, 2 inserted before
	if two > 0 {
		r2 := &c19Req{id: "req2", m: e.cands[1], S: 1000}
		if two == 1 {
			reqs = append(reqs, r2)
		} else {
			reqs = []*c19Req{r2, reqs[0]}
		}
	}
	// M's stake address also holds a stake with a validator nobody accuses
	other := sv.Int64("otherStake")
	sv.Assume(other >= 0 && other < 1<<40)
	otherV := c10Candidate(9).addr
	// M's stake account: M's own address, or a separate account; in the second case M's
	// own address holds a stake ("cross") with a validator whose address is that account
	stakeM := e.cands[0].addr
	separate := sv.Choice("separateStakeAccount", 2) == 1
	cross := sv.Int64("crossStake")
	sv.Assume(cross >= 0 && cross < 1<<40)
	if separate {
		stakeM = c10Candidate(8).addr
		if err := e.vctx.Delegators.Stake(stakeM, e.cands[0].addr, *balance.NewAmount(cross)); err != nil {
			sv.Unreachable("cross stake record")
		}
	}
	reqs[len(reqs)-1].stake, reqs[0].stake = reqs[len(reqs)-1].m.addr, reqs[0].m.addr
	for _, r := range reqs {
		if r.id == "req1" {
			r.stake = stakeM
		}
	}
	if err := e.vctx.Delegators.Stake(otherV, stakeM, *balance.NewAmount(other)); err != nil {
		sv.Unreachable("other stake record")
	}
	es := e.vctx.EvidenceStore
	at, _ := es.GetAllegationTracker()
	for _, r := range reqs {
		v := NewValidator(r.m.addr, r.stake, r.m.pub, r.m.pub, *balance.NewAmount(r.S), r.id)
		v.Power = r.S
		if err := e.vs.Set(*v); err != nil {
			sv.Unreachable("validator record")
		}
		if err := e.vctx.Delegators.Stake(r.m.addr, r.stake, *balance.NewAmount(r.S)); err != nil {
			sv.Unreachable("stake record")
		}
		ar := evidence.NewAllegationRequest(r.id, c10Candidate(5).addr, r.m.addr, 1, "proof")
		nv := 3
		if r.id == "req2" {
			nv = 2
		}
		for i := 0; i < nv; i++ {
			switch sv.Choice(fmt.Sprint(r.id, ".vote", i), 3) {
			case 1:
				ar.Votes = append(ar.Votes, &evidence.AllegationVote{Address: c10Candidate(5 + i).addr, Choice: evidence.YES})
				r.yes++
			case 2:
				ar.Votes = append(ar.Votes, &evidence.AllegationVote{Address: c10Candidate(5 + i).addr, Choice: evidence.NO})
				r.no++
			}
		}
		if err := es.SetAllegationRequest(ar); err != nil {
			sv.Unreachable("request")
		}
		at.Requests[r.id] = true
	}
	// M may already be frozen for missed votes (the block-begin check froze it while the request was open)
	early := time.Unix(1599990000, 0).UTC()
	already := sv.Choice("alreadyFrozenForMissedVotes", 2) == 1
	if already {
		if _, err := es.CreateSuspiciousValidator(e.cands[0].addr, evidence.MISSED_REQUIRED_VOTES, 1, &early); err != nil {
			sv.Unreachable("earlier freeze record")
		}
	}
	// ... and, when the block-begin check froze it in this very block, the election of this
	// block (which runs before the tally) has just purged it
	if already && sv.Choice("purgedInThisBlock", 2) == 1 {
		if err := e.vs.SetLastPurgeHeight(e.cands[0].addr, 3); err != nil {
			sv.Unreachable("purge height")
		}
		sv.Cover(true, "purged-in-the-verdict-block")
	}
	es.SetAllegationTracker(at)
	e.st.Commit()
	e.st.Commit() // version 2 = h-1
	height := int64(3)
	e.vs.lastHeight = height
	now := time.Unix(1600000000, 0).UTC()
	e.vs.lastBlockTime = &now
	active := int64(1 + sv.Choice("activeCount", 4))
	bounty := keys.Address("oneledgerBountyProgram")
	bal0, _ := e.vctx.Balances.GetBalanceForCurr(bounty, &c10OLT)

	err := e.vs.ExecuteAllegationTracker(e.vctx, active)
	sv.Assert(err == nil, "tally-runs")

	// reference tally in exact integers, each request on its own votes
	required := (active*50 + 99) / 100
	bal1, _ := e.vctx.Balances.GetBalanceForCurr(bounty, &c10OLT)
	gain := new(big.Int).Sub(bal1.Amount.BigInt(), bal0.Amount.BigInt())
	wantGain := new(big.Int)
	at2, _ := es.GetAllegationTracker()
	for _, r := range reqs {
		guilty := int64(r.yes)*100 > 50*required             // yes/required > 50/100
		innocent := !guilty && int64(r.no)*100 > 50*required // no/required > 1 - 50/100
		frozen := es.IsFrozenValidator(r.m.addr)
		T, _ := e.vctx.Delegators.GetValidatorAmount(r.m.addr)
		E, _ := e.vctx.Delegators.GetValidatorDelegationAmount(r.m.addr, r.stake)
		_, open := at2.Requests[r.id]
		if guilty {
			sv.Assert(frozen, "guilty-validator-is-frozen")
			// the freeze record is the verdict's: byzantine fault, frozen at this block (the release time counts from here)
			lvh, lerr := es.GetSuspiciousValidator(r.m.addr, 0, 0)
			sv.Assert(lerr == nil && lvh.Status == evidence.BYZANTINE_FAULT && lvh.FrozenHeight == height && lvh.FrozenAt != nil && lvh.FrozenAt.Equal(now), "guilty-verdict-is-recorded-as-a-byzantine-fault-frozen-at-the-verdict-block")
			eo, _ := e.vctx.Govern.GetEvidenceOptions()
			rerr := es.HandleRelease(eo, r.m.addr, height, now)
			sv.Assert(rerr != nil && es.IsFrozenValidator(r.m.addr), "guilty-validator-cannot-be-released-in-the-verdict-block")
			// round half up of S*30/100 = floor((S*30 + 50)/100)
			pen := (r.S*30 + 50) / 100
			sv.Assert(T.BigInt().Cmp(big.NewInt(r.S-pen)) == 0 && E.BigInt().Cmp(big.NewInt(r.S-pen)) == 0, "stake-reduced-by-exactly-the-configured-percentage")
			w := new(big.Int).Mul(big.NewInt(pen), new(big.Int).Exp(big.NewInt(10), big.NewInt(18), nil))
			w.Mul(w, big.NewInt(50)).Div(w, big.NewInt(100))
			wantGain.Add(wantGain, w)
			// the validator record follows one block later through the delayed unstake
			e.vs.lastHeight = height + 1
			du, derr := e.vs.GetDelayUnstake(r.m.addr)
			e.vs.lastHeight = height
			sv.Assert(derr == nil && du.Amount.BigInt().Cmp(big.NewInt(pen)) == 0, "delayed-unstake-records-the-penalty")
			sv.Assert(!open, "decided-request-leaves-the-tracker")
			sv.Cover(true, "guilty:"+r.id)
			sv.Observe("penalty:"+r.id, pen)
		} else {
			sv.Assert(frozen == (already && r.id == "req1"), "not-guilty-changes-no-freeze")
			sv.Assert(T.BigInt().Cmp(big.NewInt(r.S)) == 0 && E.BigInt().Cmp(big.NewInt(r.S)) == 0, "not-guilty-changes-no-stake")
			sv.Assert(open == !innocent, "request-stays-open-exactly-while-undecided")
			sv.Cover(innocent, "innocent:"+r.id)
			sv.Cover(!innocent, "undecided:"+r.id)
		}
		sv.Observe("guilty:"+r.id, guilty)
		sv.Observe("frozen:"+r.id, frozen)
	}
	sv.Assert(gain.Cmp(wantGain) == 0, "bounty-receives-exactly-its-share-of-the-penalties")
	// the next block's begin hook applies the delayed unstakes: every guilty validator's
	// record follows the delegation store (C11: recorded stake = locked amounts)
	e.st.Commit()
	next := now.Add(17 * time.Second)
	if err := e.vs.Setup(types.RequestBeginBlock{Header: types.Header{Height: height + 1, Time: next}}, nil); err != nil {
		sv.Unreachable("next block setup")
	}
	for _, r := range reqs {
		v, verr := e.vs.Get(r.m.addr)
		T, _ := e.vctx.Delegators.GetValidatorAmount(r.m.addr)
		sv.Assert(verr == nil && v.Staking.BigInt().Cmp(T.BigInt()) == 0, "validator-record-follows-the-locked-amounts-in-the-next-block")
		sv.Observe("record:"+r.id, v.Staking.BigInt())
	}
	O, _ := e.vctx.Delegators.GetValidatorDelegationAmount(otherV, stakeM)
	OT, _ := e.vctx.Delegators.GetValidatorAmount(otherV)
	sv.Assert(O.BigInt().Cmp(big.NewInt(other)) == 0 && OT.BigInt().Cmp(big.NewInt(other)) == 0, "stake-lodged-with-another-validator-is-untouched")
	if separate {
		X, _ := e.vctx.Delegators.GetValidatorDelegationAmount(stakeM, e.cands[0].addr)
		XT, _ := e.vctx.Delegators.GetValidatorAmount(stakeM)
		sv.Assert(X.BigInt().Cmp(big.NewInt(cross)) == 0 && XT.BigInt().Cmp(big.NewInt(cross)) == 0, "stake-the-validator's-own-address-holds-elsewhere-is-untouched")
		sv.Cover(true, "separate-stake-account")
	}
}

// SV_C03_guilty_verdict: the block-end tally debits only the stake account of
// the validator found guilty (same exploration as SV_C19_tally).
//
// sv:bounds as SV_C19_tally
// sv:outside as SV_C19_tally
// sv:goal as SV_C19_tally: the penalty leaves the guilty validator's stake account only; the stake that account holds with another validator, and the stake the validator's own address holds with a validator whose address is that account, stay as they are
func SV_C03_guilty_verdict() { SV_C19_tally() }

// SV_C19_frozen_stays_out: a frozen validator drops out of the validator set
// and stays out while other validators are released (the election read from
// the evidence records; same exploration as SV_C10_frozen_records).
//
// sv:bounds as SV_C10_frozen_records
// sv:outside as SV_C10_frozen_records
// sv:goal as SV_C10_frozen_records
func SV_C19_frozen_stays_out() { SV_C10_frozen_records() }

// SV_C11_verdict_reaches_the_validator_record: after guilty verdicts (one or two in
// the same block) the next block's begin hook brings every validator record back to
// the sum of the amounts locked with it (same exploration as SV_C19_tally).
//
// sv:bounds as SV_C19_tally
// sv:outside as SV_C19_tally
// sv:goal as SV_C19_tally, in particular validator-record-follows-the-locked-amounts-in-the-next-block
func SV_C11_verdict_reaches_the_validator_record() { SV_C19_tally() }
