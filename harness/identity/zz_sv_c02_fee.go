package identity

// C02 — the block-end distribution of the fee pool among the validators.

import (
	"fmt"
	"math/big"

	abci "github.com/tendermint/tendermint/abci/types"

	"github.com/Oneledger/protocol/data/balance"
	"github.com/Oneledger/protocol/data/fees"
	sv "github.com/Oneledger/protocol/zz_sv"
)

// SV_C02_fee_distribution: GetEndBlockUpdate with a fee pool above the
// distribution threshold.
//
// sv:bounds 2 (quick) / 3 (thorough) validator records with arbitrary powers (1 <= p < 2^40), stake addresses distinct from the validator addresses, arbitrary previous fee credits; fee pool arbitrary above the threshold (< 2^100); all candidates in the last commit; h = 4
// sv:outside the election itself (SV_C10_election); more validators
// sv:goal nothing is created: what the stake addresses gain equals what the pool loses, the pool never goes negative, each validator's share is floor(pool * power / total power), and no other fee record changes
func SV_C02_fee_distribution() {
	n := 2 + sv.Tier()
	e := c10NewEnv(n, 1, 4)
	fp := e.vctx.FeePool
	pool := sv.BigInt("feePool")
	sv.Assume(pool.Sign() >= 0 && pool.Cmp(new(big.Int).Lsh(big.NewInt(1), 100)) < 0)
	if err := fp.AddToPool(c10OLT.NewCoinFromAmount(*balance.NewAmountFromBigInt(pool))); err != nil {
		sv.Unreachable("pool")
	}
	power := make([]int64, n)
	prev := make([]*big.Int, n)
	var votes []abci.VoteInfo
	total := int64(0)
	for i, c := range e.cands {
		power[i] = sv.Int64(fmt.Sprint("power", i))
		sv.Assume(power[i] >= 1 && power[i] < 1<<40)
		total += power[i]
		stake := c10Candidate(10 + i).addr
		v := NewValidator(c.addr, stake, c.pub, c.pub, *balance.NewAmount(power[i]), fmt.Sprint("n", i))
		v.Power = power[i]
		if err := e.vs.Set(*v); err != nil {
			sv.Unreachable("validator record")
		}
		prev[i] = sv.BigInt(fmt.Sprint("credit", i))
		sv.Assume(prev[i].Sign() >= 0 && prev[i].Cmp(new(big.Int).Lsh(big.NewInt(1), 100)) < 0)
		if err := fp.AddToAddress(stake, c10OLT.NewCoinFromAmount(*balance.NewAmountFromBigInt(prev[i]))); err != nil {
			sv.Unreachable("credit")
		}
		votes = append(votes, abci.VoteInfo{Validator: abci.Validator{Address: c.addr, Power: power[i]}, SignedLastBlock: true})
	}
	e.st.Commit()
	e.st.Commit()
	e.st.Commit() // version 3 = h-1
	height := int64(4)
	e.vs.lastHeight = height
	e.vs.InitValidatorQueue(nil)
	e.vs.cacheActiveValidators(abci.LastCommitInfo{Votes: votes})
	distribute := fp.GetOpt().MinFee().LessThanCoin(c10OLT.NewCoinFromAmount(*balance.NewAmountFromBigInt(pool)))

	e.vs.GetEndBlockUpdate(e.vctx, abci.RequestEndBlock{Height: height})

	after, _ := fp.Get([]byte(fees.POOL_KEY))
	sv.Assert(after.Amount.BigInt().Sign() >= 0, "fee-pool-never-negative")
	lost := new(big.Int).Sub(pool, after.Amount.BigInt())
	gained := new(big.Int)
	for i := range e.cands {
		c, _ := fp.Get(c10Candidate(10 + i).addr)
		g := new(big.Int).Sub(c.Amount.BigInt(), prev[i])
		sv.Assert(g.Sign() >= 0, "no-stake-address-loses-fees")
		gained.Add(gained, g)
		if distribute {
			want := new(big.Int).Mul(pool, big.NewInt(power[i]))
			want.Div(want, big.NewInt(total))
			sv.Assert(g.Cmp(want) == 0, "share-is-the-floor-of-pool-times-power-over-total-power")
		} else {
			sv.Assert(g.Sign() == 0, "no-distribution-below-the-threshold")
		}
		// the validator address itself holds no fee record
		own, _ := fp.Get(e.cands[i].addr)
		sv.Assert(own.Amount.BigInt().Sign() == 0, "no-other-fee-record-changes")
	}
	sv.Assert(gained.Cmp(lost) == 0, "distributed-fees-equal-what-left-the-pool")
	sv.Cover(distribute, "distributed")
	sv.Cover(!distribute, "below-threshold")
	sv.Observe("lost", lost)
}
