package identity

// C08 — the validator store's in-memory state (last-commit cache, queue,
// malicious map, delayed unstakes) must be a function of the committed state
// and the current block's inputs: a store object that has lived through the
// previous block and one created by a restart answer the block end alike.

import (
	"fmt"
	"time"

	abci "github.com/tendermint/tendermint/abci/types"

	"github.com/Oneledger/protocol/data/balance"
	"github.com/Oneledger/protocol/data/evidence"
	sv "github.com/Oneledger/protocol/zz_sv"
)

type c08Run struct {
	updates []abci.ValidatorUpdate
	status  []string
}

// c08Run drives blocks 4 and 5 on a fresh environment; restart: the validator
// store object is re-created between the two blocks (what a crash does).
func c08Drive(restart bool) c08Run {
	e := c10NewEnv(2, 1, 4)
	now := time.Unix(1600000000, 0).UTC()
	power := []int64{10, 7}
	var votes []abci.VoteInfo
	for i, c := range e.cands {
		v := NewValidator(c.addr, c.addr, c.pub, c.pub, *balance.NewAmount(power[i]), fmt.Sprint("n", i))
		v.Power = power[i]
		if err := e.vs.Set(*v); err != nil {
			sv.Unreachable("validator record")
		}
		// frozen for a byzantine fault, released, or never suspected
		switch sv.Choice(fmt.Sprint("suspicious", i), 3) {
		case 1:
			e.vctx.EvidenceStore.CreateSuspiciousValidator(c.addr, evidence.BYZANTINE_FAULT, 2, &now)
		case 2:
			lvh, _ := e.vctx.EvidenceStore.CreateSuspiciousValidator(c.addr, evidence.BYZANTINE_FAULT, 2, &now)
			rel := now.Add(time.Hour)
			lvh.ReleaseAt, lvh.ReleaseHeight = &rel, 3
			e.vctx.EvidenceStore.UpdateSuspiciousValidator(lvh)
		}
		votes = append(votes, abci.VoteInfo{Validator: abci.Validator{Address: c.addr, Power: power[i]}, SignedLastBlock: sv.Choice(fmt.Sprint("signed", i), 2) == 0})
	}
	// the height threshold below which the malicious check is skipped, at each
	// of the two blocks (a governance update can raise or lower it)
	diffs := []int64{[]int64{2, 10}[sv.Choice("votesDiff.block4", 2)], []int64{2, 10}[sv.Choice("votesDiff.block5", 2)]}
	setDiff := func(d int64) {
		opt, err := e.vctx.Govern.GetEvidenceOptions()
		if err != nil {
			sv.Unreachable("evidence options")
		}
		opt.BlockVotesDiff = d
		if err := e.vctx.Govern.WithHeight(0).SetEvidenceOptions(*opt); err != nil {
			sv.Unreachable("set evidence options")
		}
	}
	setDiff(diffs[0])
	e.st.Commit()
	e.st.Commit()
	e.st.Commit() // version 3

	vs, vctx := e.vs, e.vctx
	var out c08Run
	for b, h := range []int64{4, 5} {
		if b == 1 && restart {
			vs = NewValidatorStore("v", "purged", e.st)
			vctx = NewValidatorContext(vctx.Balances, vctx.FeePool, vctx.Delegators, vctx.EvidenceStore, vctx.Govern, vctx.Currencies, vs)
		}
		t := now.Add(time.Duration(h) * time.Minute)
		req := abci.RequestBeginBlock{Header: abci.Header{Height: h, Time: t}, LastCommitInfo: abci.LastCommitInfo{Votes: votes}}
		if err := vs.Setup(req, nil); err != nil {
			sv.Unreachable("setup")
		}
		vs.CheckMaliciousValidators(vctx.EvidenceStore, vctx.Govern)
		ups := vs.GetEndBlockUpdate(vctx, abci.RequestEndBlock{Height: h})
		if b == 0 {
			setDiff(diffs[1]) // takes effect in the next block
		} else {
			out.updates = ups
			for _, c := range e.cands {
				s, _ := vctx.EvidenceStore.GetValidatorStatus(c.addr)
				if s == nil {
					out.status = append(out.status, "none")
				} else {
					out.status = append(out.status, fmt.Sprint(s.IsActive, "@", s.Height))
				}
			}
		}
		e.st.Commit()
	}
	return out
}

// SV_C08_validator_memory: a validator store that lived through the previous
// block vs one re-created by a restart.
//
// sv:bounds 2 validators (powers 10 and 7, both in the last commit, each signed or not), each frozen / released / never suspected; the height threshold of the malicious check (BlockVotesDiff) 2 or 10 at block 4 and, independently, at block 5 (so the check runs or is skipped in either block); replica 1 keeps one ValidatorStore object for both blocks, replica 2 re-creates it before block 5
// sv:outside the application-level restart (SV_C08_crash_restart); byzantine evidence in the block; allegations
// sv:goal both replicas return the same validator updates (keys, powers, order) at block 5 and leave the same validator status records
func SV_C08_validator_memory() {
	sv.NominalSizes(64)
	a := c08Drive(false)
	b := c08Drive(true)
	sv.Assert(len(a.updates) == len(b.updates), "restart-does-not-change-the-validator-updates")
	if len(a.updates) == len(b.updates) {
		for i := range a.updates {
			sv.Assert(string(a.updates[i].PubKey.Data) == string(b.updates[i].PubKey.Data) && a.updates[i].Power == b.updates[i].Power, "restart-does-not-change-the-validator-updates")
		}
	}
	for i := range a.status {
		sv.Assert(a.status[i] == b.status[i], "restart-does-not-change-the-status-records")
	}
	sv.Observe("updates", len(a.updates))
	sv.Cover(len(a.updates) > 0, "some-update")
}

// c08DriveSwap: three validators, two places; the last-commit set of block 5
// has the size of block 4's with one member replaced.
func c08DriveSwap(restart bool) c08Run {
	e := c10NewEnv(3, 1, 2)
	now := time.Unix(1600000000, 0).UTC()
	power := []int64{sv.Int64("power0"), sv.Int64("power1"), sv.Int64("power2")}
	sv.Assume(power[0] > power[2] && power[2] > power[1] && power[1] >= 1 && power[0] < 1<<40)
	for i, c := range e.cands {
		v := NewValidator(c.addr, c.addr, c.pub, c.pub, *balance.NewAmount(power[i]), fmt.Sprint("n", i))
		v.Power = power[i]
		if err := e.vs.Set(*v); err != nil {
			sv.Unreachable("validator record")
		}
	}
	// validator 1 (outranked by validator 2) was purged at an earlier height or never
	if p := []int64{0, 1, 2, 3}[sv.Choice("purged1", 4)]; p > 0 {
		if err := e.vs.SetLastPurgeHeight(e.cands[1].addr, p); err != nil {
			sv.Unreachable("purge height")
		}
	}
	e.st.Commit()
	e.st.Commit()
	e.st.Commit() // version 3
	vote := func(i int) abci.VoteInfo {
		return abci.VoteInfo{Validator: abci.Validator{Address: e.cands[i].addr, Power: power[i]}, SignedLastBlock: true}
	}
	votes4 := []abci.VoteInfo{vote(0), vote(1)}
	votes5 := [][]abci.VoteInfo{votes4, {vote(0), vote(2)}, {vote(2), vote(1)}}[sv.Choice("votes5", 3)]

	vs, vctx := e.vs, e.vctx
	var out c08Run
	for b, h := range []int64{4, 5} {
		if b == 1 && restart {
			vs = NewValidatorStore("v", "purged", e.st)
			vctx = NewValidatorContext(vctx.Balances, vctx.FeePool, vctx.Delegators, vctx.EvidenceStore, vctx.Govern, vctx.Currencies, vs)
		}
		votes := votes4
		if b == 1 {
			votes = votes5
		}
		t := now.Add(time.Duration(h) * time.Minute)
		req := abci.RequestBeginBlock{Header: abci.Header{Height: h, Time: t}, LastCommitInfo: abci.LastCommitInfo{Votes: votes}}
		if err := vs.Setup(req, nil); err != nil {
			sv.Unreachable("setup")
		}
		vs.CheckMaliciousValidators(vctx.EvidenceStore, vctx.Govern)
		ups := vs.GetEndBlockUpdate(vctx, abci.RequestEndBlock{Height: h})
		if b == 1 {
			out.updates = ups
			for _, c := range e.cands {
				p, _ := vs.GetLastPurgeHeight(c.addr)
				out.status = append(out.status, fmt.Sprint("purged@", p))
			}
		}
		e.st.Commit()
	}
	return out
}

// SV_C08_validator_memory_swap: the last-commit cache after a same-size
// change of the validator set.
//
// sv:bounds 3 validators (any powers with p0 > p2 > p1 >= 1; two places, so validator 1 is outranked), validator 1 purged at height 1, 2, 3 or never; last commit of block 4 = {0, 1}; last commit of block 5 = the same, {0, 2} or {2, 1} (Tendermint applies a change two blocks later); replica 1 keeps one ValidatorStore object for both blocks, replica 2 re-creates it before block 5
// sv:outside as SV_C08_validator_memory
// sv:goal both replicas return the same validator updates at block 5 and leave the same last-purge heights
func SV_C08_validator_memory_swap() {
	sv.NominalSizes(64)
	a := c08DriveSwap(false)
	b := c08DriveSwap(true)
	sv.Assert(len(a.updates) == len(b.updates), "restart-does-not-change-the-validator-updates")
	if len(a.updates) == len(b.updates) {
		for i := range a.updates {
			sv.Assert(string(a.updates[i].PubKey.Data) == string(b.updates[i].PubKey.Data) && a.updates[i].Power == b.updates[i].Power, "restart-does-not-change-the-validator-updates")
		}
	}
	for i := range a.status {
		sv.Assert(a.status[i] == b.status[i], "restart-does-not-change-the-purge-records")
	}
	sv.Observe("updates", len(a.updates))
	sv.Cover(len(a.updates) > 0, "some-update")
}
