package identity

import "github.com/Oneledger/protocol/config"

func configRotation() config.ChainStateRotationCfg { return config.ChainStateRotationCfg{Recent: 10} }
