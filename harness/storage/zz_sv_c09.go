package storage

// C09 — the layered state store behaves like a transactional, versioned map.
// Harnesses over the real State / sessionCache / cacheSession / GasStore /
// ChainState (iavl behind its stub contract).

import (
	"bytes"
	"fmt"

	db "github.com/tendermint/tm-db"

	sv "github.com/Oneledger/protocol/zz_sv"
)

var c09Keys = [][]byte{[]byte("ka"), []byte("kb")}

// reference model: three overlays + saved versions
type c09Entry struct {
	val     []byte
	deleted bool
}
type c09Ref struct {
	session  map[string]c09Entry
	hasSess  bool
	block    map[string]c09Entry
	commited map[string][]byte
	versions []map[string][]byte // versions[i] = content of version i+1
}

func newC09Ref() *c09Ref {
	return &c09Ref{block: map[string]c09Entry{}, commited: map[string][]byte{}}
}

func (r *c09Ref) get(k string) ([]byte, bool) {
	if r.hasSess {
		if e, ok := r.session[k]; ok {
			return e.val, !e.deleted
		}
	}
	if e, ok := r.block[k]; ok {
		return e.val, !e.deleted
	}
	v, ok := r.commited[k]
	return v, ok
}

func (r *c09Ref) put(k string, e c09Entry) {
	if r.hasSess {
		r.session[k] = e
	} else {
		r.block[k] = e
	}
}

func (r *c09Ref) commitSession() {
	for k, e := range r.session {
		r.block[k] = e
	}
	r.hasSess, r.session = false, nil
}

func (r *c09Ref) commitBlock() {
	for k, e := range r.block {
		if e.deleted {
			delete(r.commited, k)
		} else {
			r.commited[k] = e.val
		}
	}
	r.block = map[string]c09Entry{}
	r.hasSess, r.session = false, nil
	snap := map[string][]byte{}
	for k, v := range r.commited {
		snap[k] = v
	}
	r.versions = append(r.versions, snap)
}

func (r *c09Ref) reopen() {
	r.block = map[string]c09Entry{}
	r.hasSess, r.session = false, nil
}

func c09Value(name string) []byte {
	// 3 symbolic bytes: the tombstone marker is 3 bytes of UTF-8, so equality
	// with it is a solver question
	return []byte{sv.Byte(name + ".0"), sv.Byte(name + ".1"), sv.Byte(name + ".2")}
}

// deletedInOpenBlock: the latest write in scope is a delete that has not been
// committed to the tree yet.
func (r *c09Ref) deletedInOpenBlock(k string) bool {
	if r.hasSess {
		if e, ok := r.session[k]; ok {
			return e.deleted
		}
	}
	if e, ok := r.block[k]; ok {
		return e.deleted
	}
	return false
}

func c09Compare(st *State, ref *c09Ref) {
	for _, k := range c09Keys {
		want, present := ref.get(string(k))
		got, err := st.Get(k)
		ex := st.Exists(k)
		switch {
		case present:
			sv.Assert(err == nil && bytes.Equal(got, want), "get-returns-latest-write")
			sv.Assert(ex, "exists-after-write")
		case ref.deletedInOpenBlock(string(k)):
			// known deviation of the current tree (KNOWN_FINDINGS): the
			// tombstone marker is returned until the block is committed.
			// The weak goals bound what the deviation may look like; the
			// strict ones state the property.
			sv.Assert(err == nil && (len(got) == 0 || bytes.Equal(got, []byte(TOMBSTONE))), "deleted-in-open-block-reads-absent-or-tombstone")
			sv.Assert(len(got) == 0, "deleted-in-open-block-reads-as-absent")
			sv.Assert(!ex, "deleted-in-open-block-does-not-exist")
			sv.Cover(true, "deleted-in-open-block")
		default:
			sv.Assert(len(got) == 0, "absent-key-reads-as-absent")
			sv.Assert(!ex, "absent-key-does-not-exist")
		}
	}
	// iteration and range reads: the keys of the last commit, each with the value
	// a point read returns now (session, block, commit), deleted ones skipped
	var wantK, wantV [][]byte
	for _, k := range c09Keys {
		if _, inTree := ref.commited[string(k)]; !inTree {
			continue
		}
		if v, present := ref.get(string(k)); present {
			wantK, wantV = append(wantK, k), append(wantV, v)
		}
	}
	for mode := 0; mode < 2; mode++ {
		var gotK, gotV [][]byte
		collect := func(key, value []byte) bool {
			gotK, gotV = append(gotK, append([]byte{}, key...)), append(gotV, append([]byte{}, value...))
			return false
		}
		if mode == 0 {
			st.Iterate(collect)
		} else {
			st.IterateRange([]byte("k"), []byte("l"), true, collect)
		}
		sv.Assert(len(gotK) == len(wantK), "iteration-visits-the-visible-committed-keys")
		if len(gotK) == len(wantK) {
			for i := range gotK {
				sv.Assert(bytes.Equal(gotK[i], wantK[i]) && bytes.Equal(gotV[i], wantV[i]), "iteration-returns-the-latest-write-in-scope")
			}
		}
	}
	// every saved version keeps its content
	for vi, snap := range ref.versions {
		for _, k := range c09Keys {
			got := st.GetVersioned(int64(vi+1), k)
			want, present := snap[string(k)]
			if present {
				sv.Assert(bytes.Equal(got, want), "old-version-keeps-value")
			} else {
				sv.Assert(len(got) == 0, "old-version-keeps-absence")
			}
		}
	}
}

// SV_C09_overlay_model explores every sequence of L operations from
// {set,delete}×{ka,kb}, begin/commit/discard session, block commit, reopen,
// with symbolic 3-byte values, and compares Get/Exists/GetVersioned after every
// step with the reference model above.
//
// sv:bounds sequence length L = 4 (quick) / 5 (thorough); 2 keys; values = 3 symbolic bytes each (assumed different from the TOMBSTONE marker, see SV_C09_tombstone_value); rotation setting recent=100 (all versions kept)
// sv:outside IAVL's own correctness and hashing (stub: versioned ordered map); LevelDB durability; sequences longer than L; more than 2 keys
// sv:goal after every step: Iterate / IterateRange visit the keys of the last commit that are still visible, in order, with the value a point read returns; Get == reference latest write (session, block, commit), deleted/absent keys read as absent and do not exist, every saved version keeps returning its content, reopen returns the last commit
func SV_C09_overlay_model() {
	L := 4
	if sv.Tier() > 0 {
		L = 5
	}
	mem := db.NewMemDB()
	cs := NewChainState("c09", mem)
	cs.ChainStateRotation.recent = 100
	st := NewState(cs)
	ref := newC09Ref()
	nval := 0
	for step := 0; step < L; step++ {
		op := sv.Choice(fmt.Sprint("op", step), 9)
		switch op {
		case 0, 1: // set
			k := c09Keys[op]
			v := c09Value(fmt.Sprint("v", nval))
			nval++
			sv.Assume(!bytes.Equal(v, []byte(TOMBSTONE)))
			err := st.Set(k, v)
			sv.Assert(err == nil, "set-ok")
			ref.put(string(k), c09Entry{val: v})
		case 2, 3: // delete
			k := c09Keys[op-2]
			_, err := st.Delete(k)
			sv.Assert(err == nil, "delete-ok")
			ref.put(string(k), c09Entry{deleted: true})
		case 4:
			st.BeginTxSession()
			ref.hasSess, ref.session = true, map[string]c09Entry{}
		case 5:
			if !ref.hasSess {
				sv.Unreachable("commit without session (documented precondition)")
			}
			st.CommitTxSession()
			ref.commitSession()
		case 6:
			st.DiscardTxSession()
			ref.hasSess, ref.session = false, nil
		case 7:
			_, ver := st.Commit()
			ref.commitBlock()
			sv.Assert(ver == int64(len(ref.versions)), "commit-version-increments")
			sv.Cover(true, "block-committed")
		case 8:
			cs = NewChainState("c09", mem)
			cs.ChainStateRotation.recent = 100
			st = NewState(cs)
			ref.reopen()
			sv.Assert(st.Version() == int64(len(ref.versions)), "reopen-reports-last-commit")
			sv.Cover(len(ref.versions) > 0, "reopened-after-commit")
		}
		c09Compare(st, ref)
	}
}

// c09Apply applies one write-side operation to a state (no reference model).
func c09Apply(st *State, op int, v []byte) {
	switch op {
	case 0, 1:
		st.Set(c09Keys[op], v)
	case 2, 3:
		st.Delete(c09Keys[op-2])
	case 4:
		st.BeginTxSession()
	case 5:
		if st.txSession != nil {
			st.CommitTxSession()
		}
	case 6:
		st.DiscardTxSession()
	case 7:
		st.Commit()
	}
}

// SV_C09_hash_ignores_reads: the same write sequence is applied to two stores;
// on the second one reads, existence checks, versioned reads and a discarded
// session carrying writes are interleaved after every step. The committed root
// hashes and versions must be equal (relational, 2 runs in one path).
//
// sv:bounds write sequence length 3 (quick) / 4 (thorough) from {set,delete}×{ka,kb}, begin/commit/discard session, block commit; one injected discarded session with a write and a delete at every position; symbolic 3-byte values
// sv:outside the real IAVL hash (stub: an injective function of the write history reaching the tree)
// sv:goal final Commit() of both stores returns the same hash and version
func SV_C09_hash_ignores_reads() {
	L := 3
	if sv.Tier() > 0 {
		L = 4
	}
	a := NewState(NewChainState("a", db.NewMemDB()))
	b := NewState(NewChainState("b", db.NewMemDB()))
	open := false
	for step := 0; step < L; step++ {
		op := sv.Choice(fmt.Sprint("op", step), 8)
		var v []byte
		if op < 2 {
			v = c09Value(fmt.Sprint("v", step))
		}
		c09Apply(a, op, v)
		c09Apply(b, op, v)
		switch op {
		case 4:
			open = true
		case 5, 6, 7:
			open = false
		}
		// noise on b only
		for _, k := range c09Keys {
			b.Get(k)
			b.Exists(k)
			b.GetVersioned(1, k)
		}
		if !open {
			b.BeginTxSession()
			b.Set(c09Keys[0], []byte("zzz"))
			b.Delete(c09Keys[1])
			b.Get(c09Keys[0])
			b.DiscardTxSession()
			sv.Cover(true, "discarded-session-injected")
		}
	}
	ha, va := a.Commit()
	hb, vb := b.Commit()
	sv.Assert(va == vb, "same-version")
	sv.Assert(bytes.Equal(ha, hb), "hash-is-a-function-of-writes-only")
	sv.Observe("va", va)
}

// SV_C09_tombstone_value: a value equal to the reserved TOMBSTONE marker is the
// one value the store cannot hold (it is turned into a removal at Write). The
// harness shows that this is the ONLY 3-byte value with that effect.
//
// sv:bounds one key, one symbolic 3-byte value, written in a block and committed
// sv:goal value != TOMBSTONE implies the committed read returns it
func SV_C09_tombstone_value() {
	st := NewState(NewChainState("t", db.NewMemDB()))
	v := c09Value("v")
	st.Set(c09Keys[0], v)
	st.Commit()
	got, _ := st.Get(c09Keys[0])
	if !bytes.Equal(v, []byte(TOMBSTONE)) {
		sv.Assert(bytes.Equal(got, v), "non-reserved-value-survives-commit")
		sv.Cover(true, "ordinary-value")
	} else {
		sv.Cover(len(got) == 0, "reserved-value-is-dropped")
	}
}

// SV_C09_rotation: which earlier versions stay readable under every small
// rotation setting (the documented meaning of recent / every / cycles).
//
// sv:bounds rotation settings symbolic: recent in 0..4, every in 0..4, cycles in 0..3; N = 9 block commits, each writing the key "k" with the version's number; after every commit all earlier versions are read back
// sv:outside longer histories and larger settings (the shipped default 10/100/10 needs > 110 commits); IAVL's own pruning (stub: versioned ordered map with DeleteVersion)
// sv:goal after the commit of version V a version v < V returns its value iff it is within the recent window (v >= V - 1 - recent) or is an epoch (every > 0, v a multiple of every) that is kept: all of them when cycles = 0, else those with v + cycles*every > V - 1 - recent; every other version is gone; the last version always reads
func SV_C09_rotation() {
	recent, every, cycles := sv.Int64("recent"), sv.Int64("every"), sv.Int64("cycles")
	sv.Assume(recent >= 0 && recent <= 4 && every >= 0 && every <= 4 && cycles >= 0 && cycles <= 3)
	cs := NewChainState("c09rot", db.NewMemDB())
	cs.ChainStateRotation.recent, cs.ChainStateRotation.every, cs.ChainStateRotation.cycles = recent, every, cycles
	st := NewState(cs)
	key := StoreKey("k")
	const N = 9
	for V := int64(1); V <= N; V++ {
		if err := st.Set(key, []byte{byte(V)}); err != nil {
			sv.Unreachable("set")
		}
		_, ver := st.Commit()
		sv.Assert(ver == V, "commit-version-increments")
		released := V - 1 - recent // versions up to here have left the recent window
		for v := int64(1); v <= V; v++ {
			kept := v > released
			if !kept && every > 0 && v%every == 0 {
				kept = cycles == 0 || v+cycles*every > released
			}
			got := st.GetVersioned(v, key)
			if kept {
				sv.Assert(len(got) == 1 && got[0] == byte(v), "kept-version-returns-its-value")
			} else {
				sv.Assert(len(got) == 0, "rotated-version-is-gone")
			}
		}
	}
	sv.Cover(true, "ran")
}
