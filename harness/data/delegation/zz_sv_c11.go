package delegation

// C11 — stake lifecycle at the level of the delegation store: one operation
// from an arbitrary state satisfying the representation invariant.

import (
	"fmt"
	"math/big"

	db "github.com/tendermint/tm-db"

	"github.com/Oneledger/protocol/data/balance"
	"github.com/Oneledger/protocol/data/keys"
	"github.com/Oneledger/protocol/storage"
	sv "github.com/Oneledger/protocol/zz_sv"
)

func c11Addr(kind byte, i int) keys.Address {
	a := make([]byte, 20)
	for k := range a {
		a[k] = kind + byte(i)
	}
	return a
}

type c11State struct {
	st     *DelegationStore
	E      [2][2]*big.Int // effective per (validator, delegator)
	B      [2]*big.Int    // bounded (withdrawable) per delegator
	M      map[int64][2]*big.Int
	hts    []int64
	vals   [2]keys.Address
	delegs [2]keys.Address
}

func c11NonNeg(name string) *big.Int {
	v := sv.BigInt(name)
	sv.Assume(v.Sign() >= 0)
	return v
}

// c11Arbitrary builds a store in an arbitrary state that satisfies the
// invariant T[v] = sum_d E[v,d], DE[d] = sum_v E[v,d], everything >= 0, with
// maturing entries at the given heights.
func c11Arbitrary(heights []int64) *c11State {
	s := &c11State{M: map[int64][2]*big.Int{}, hts: heights}
	s.st = NewDelegationStore("st", storage.NewState(storage.NewChainState("c11", db.NewMemDB())))
	for i := 0; i < 2; i++ {
		s.vals[i] = c11Addr(0x10, i)
		s.delegs[i] = c11Addr(0x80, i)
	}
	for v := 0; v < 2; v++ {
		t := new(big.Int)
		for d := 0; d < 2; d++ {
			s.E[v][d] = c11NonNeg(fmt.Sprint("E", v, d))
			t.Add(t, s.E[v][d])
			s.st.SetValidatorDelegationAmount(s.vals[v], s.delegs[d], *balance.NewAmountFromBigInt(s.E[v][d]))
		}
		s.st.SetValidatorAmount(s.vals[v], *balance.NewAmountFromBigInt(t))
	}
	for d := 0; d < 2; d++ {
		de := new(big.Int).Add(s.E[0][d], s.E[1][d])
		s.st.SetDelegatorEffectiveAmount(s.delegs[d], *balance.NewAmountFromBigInt(de))
		s.B[d] = c11NonNeg(fmt.Sprint("B", d))
		s.st.SetDelegatorBoundedAmount(s.delegs[d], *balance.NewAmountFromBigInt(s.B[d]))
	}
	for _, h := range heights {
		var row [2]*big.Int
		mb := &MatureBlock{Height: h}
		for d := 0; d < 2; d++ {
			// the record of a height holds an entry per delegator that unstaked
			// towards it: each entry may be present or absent
			if sv.Choice(fmt.Sprint("M", h, "_", d, ".present"), 2) == 1 {
				row[d] = new(big.Int)
				continue
			}
			row[d] = c11NonNeg(fmt.Sprint("M", h, "_", d))
			mb.Data = append(mb.Data, &MatureData{Address: s.delegs[d], Amount: *balance.NewAmountFromBigInt(row[d]), Height: h})
		}
		// a delegator may have several entries in one record (two unstakes in one
		// block, or from two validators): delegator 0 may have a second one
		if sv.Choice(fmt.Sprint("M", h, "_0.second"), 2) == 1 {
			extra := c11NonNeg(fmt.Sprint("M", h, "_0b"))
			mb.Data = append(mb.Data, &MatureData{Address: s.delegs[0], Amount: *balance.NewAmountFromBigInt(extra), Height: h})
			row[0] = new(big.Int).Add(row[0], extra)
		}
		s.M[h] = row
		s.st.SetMatureAmounts(h, mb)
	}
	return s
}

func (s *c11State) amt(get func() (*balance.Amount, error)) *big.Int {
	a, err := get()
	sv.Assert(err == nil, "record-readable")
	return a.BigInt()
}

// maturing(h, d) = sum of the entries of delegator d in the block record h
func (s *c11State) maturing(h int64, d int) *big.Int {
	mb, err := s.st.GetMatureAmounts(h)
	sv.Assert(err == nil, "mature-record-readable")
	t := new(big.Int)
	for _, m := range mb.Data {
		if m.Address.Equal(s.delegs[d]) {
			t.Add(t, m.Amount.BigInt())
		}
	}
	return t
}

// checkInvariant asserts the representation invariant on the real records
// and returns the current E table.
func (s *c11State) checkInvariant() (E [2][2]*big.Int) {
	for v := 0; v < 2; v++ {
		t := new(big.Int)
		for d := 0; d < 2; d++ {
			v_, d_ := v, d
			E[v][d] = s.amt(func() (*balance.Amount, error) { return s.st.GetValidatorDelegationAmount(s.vals[v_], s.delegs[d_]) })
			sv.Assert(E[v][d].Sign() >= 0, "locked-amount-non-negative")
			t.Add(t, E[v][d])
		}
		v_ := v
		T := s.amt(func() (*balance.Amount, error) { return s.st.GetValidatorAmount(s.vals[v_]) })
		sv.Assert(T.Cmp(t) == 0, "validator-stake-equals-sum-of-delegators-locked")
	}
	for d := 0; d < 2; d++ {
		d_ := d
		DE := s.amt(func() (*balance.Amount, error) { return s.st.GetDelegatorEffectiveAmount(s.delegs[d_]) })
		sv.Assert(DE.Cmp(new(big.Int).Add(E[0][d], E[1][d])) == 0, "delegator-effective-equals-sum-over-validators")
	}
	return
}

// SV_C11_store_step: one Stake / Unstake / Withdraw / UpdateWithdrawReward
// with arbitrary arguments from an arbitrary invariant-satisfying state.
//
// sv:bounds 2 validators x 2 delegators; all locked, bounded and maturing amounts arbitrary >= 0; maturing records at heights {9, 20}, each delegator's entry in them present or absent, delegator 0 possibly with a second entry in the same record; operation amount any integer >= 0 (store-level precondition); unstake height in {9, 20, 31}; block-end height in {9, 20}
// sv:outside histories (inductive step); more than 2x2 parties
// sv:goal the invariant (validator stake = sum of its delegators' locked amounts, all amounts >= 0) is preserved; unstake moves exactly the amount from locked to the maturing record of the given height and nowhere else; only the block-end step of height h moves maturing[h] (and exactly that) to withdrawable and clears it; withdraw never exceeds the withdrawable amount; the potential locked+maturing+withdrawable of a delegator changes only by a stake (+) or a withdraw (-)
func SV_C11_store_step() {
	heights := []int64{9, 20}
	s := c11Arbitrary(heights)
	v := sv.Choice("validator", 2)
	d := sv.Choice("delegator", 2)
	// store-level precondition: callers pass non-negative amounts (the
	// handlers' own validation of the amount is examined at handler level)
	amount := c11NonNeg("amount")
	amt := *balance.NewAmountFromBigInt(amount)
	op := sv.Choice("op", 4)
	var err error
	var uh int64
	switch op {
	case 0:
		err = s.st.Stake(s.vals[v], s.delegs[d], amt)
	case 1:
		uh = []int64{9, 20, 31}[sv.Choice("unstakeHeight", 3)]
		err = s.st.Unstake(s.vals[v], s.delegs[d], amt, uh)
	case 2:
		err = s.st.Withdraw(s.vals[v], s.delegs[d], amt)
	case 3:
		uh = heights[sv.Choice("endHeight", 2)]
		s.st.UpdateWithdrawReward(uh)
	}
	sv.Cover(op == 0 && err == nil, "stake-ok")
	sv.Cover(op == 1 && err == nil, "unstake-ok")
	sv.Cover(op == 1 && err != nil, "unstake-refused")
	sv.Cover(op == 2 && err == nil, "withdraw-ok")
	sv.Cover(op == 2 && err != nil, "withdraw-refused")
	sv.Cover(op == 3, "block-end")
	if err != nil {
		// a refused operation may leave partial writes behind: they live in the
		// transaction session, which the caller discards (C06)
		return
	}
	E := s.checkInvariant()
	allH := []int64{9, 20, 31}
	for dd := 0; dd < 2; dd++ {
		dd_ := dd
		B := s.amt(func() (*balance.Amount, error) { return s.st.GetDelegatorBoundedAmount(s.delegs[dd_]) })
		sv.Assert(B.Sign() >= 0, "withdrawable-non-negative")
		locked0 := new(big.Int).Add(s.E[0][dd], s.E[1][dd])
		locked1 := new(big.Int).Add(E[0][dd], E[1][dd])
		mat0, mat1 := new(big.Int), new(big.Int)
		for _, h := range allH {
			m1 := s.maturing(h, dd)
			sv.Assert(m1.Sign() >= 0, "maturing-non-negative")
			m0 := new(big.Int)
			if row, ok := s.M[h]; ok {
				m0 = row[dd]
			}
			mat0.Add(mat0, m0)
			mat1.Add(mat1, m1)
			// per-height expectations
			switch {
			case op == 1 && err == nil && dd == d && h == uh:
				sv.Assert(m1.Cmp(new(big.Int).Add(m0, amount)) == 0, "unstake-adds-to-maturing-of-its-height")
			case op == 3 && h == uh:
				sv.Assert(m1.Sign() == 0, "matured-record-cleared")
			default:
				sv.Assert(m1.Cmp(m0) == 0, "other-maturing-records-untouched")
			}
		}
		phi0 := new(big.Int).Add(new(big.Int).Add(locked0, mat0), s.B[dd])
		phi1 := new(big.Int).Add(new(big.Int).Add(locked1, mat1), B)
		switch {
		case op == 0 && err == nil && dd == d:
			sv.Assert(phi1.Cmp(new(big.Int).Add(phi0, amount)) == 0, "stake-adds-exactly-the-amount")
			sv.Assert(B.Cmp(s.B[dd]) == 0, "stake-does-not-touch-withdrawable")
		case op == 2 && err == nil && dd == d:
			sv.Assert(phi1.Cmp(new(big.Int).Sub(phi0, amount)) == 0, "withdraw-removes-exactly-the-amount")
			sv.Assert(amount.Cmp(s.B[dd]) <= 0, "withdraw-at-most-withdrawable")
			sv.Assert(locked1.Cmp(locked0) == 0, "withdraw-does-not-touch-locked")
		case op == 3:
			sv.Assert(phi1.Cmp(phi0) == 0, "maturity-moves-within-the-delegator")
			sv.Assert(B.Cmp(new(big.Int).Add(s.B[dd], s.M[uh][dd])) == 0, "withdrawable-grows-exactly-by-matured")
		case op == 1 && err == nil && dd == d:
			sv.Assert(phi1.Cmp(phi0) == 0, "unstake-moves-within-the-delegator")
			sv.Assert(B.Cmp(s.B[dd]) == 0, "unstake-does-not-make-withdrawable")
			sv.Assert(locked1.Cmp(new(big.Int).Sub(locked0, amount)) == 0, "unstake-unlocks-exactly-the-amount")
		default:
			sv.Assert(phi1.Cmp(phi0) == 0 && B.Cmp(s.B[dd]) == 0 && locked1.Cmp(locked0) == 0, "uninvolved-delegator-or-failed-op-unchanged")
		}
	}
}
