package governance

// C14 — the vote tally (ResultSoFar) against an exact-integer reference.

import (
	"fmt"
	"strings"

	db "github.com/tendermint/tm-db"

	"github.com/Oneledger/protocol/data/keys"
	"github.com/Oneledger/protocol/storage"
	sv "github.com/Oneledger/protocol/zz_sv"
)

var c14PowerTables = [][]int64{{1, 1, 1, 1}, {1, 1, 2, 0}, {33, 33, 34, 0}, {49, 2, 49, 0}, {10, 20, 30, 40}, {1, 2, 3, 0}, {7, 7, 7, 4}, {3, 0, 0, 0}}

// SV_C14_tally: ResultSoFar over a snapshot of validators with recorded
// opinions, compared with the tally in exact integer arithmetic.
//
// sv:bounds 3 (quick) or 4 (thorough) snapshotted validators; power tables {1,1,1,1}, {1,1,2}, {33,33,34}, {49,2,49} (thorough also {10,20,30,40}, {1,2,3}, {7,7,7,4}, {3}); pass percentage 51, 67, 75 (thorough also 50, 60, 80); every combination of opinions unknown / yes / no / give-up; floating point of the implementation evaluated exactly as Go does (all inputs concrete per path)
// sv:outside other power distributions and percentages (the float64 arithmetic of ResultSoFar is not reasoned about symbolically); more validators
// sv:goal passed iff yes*100 >= pass*(all - giveup); else failed iff the power that has not voted no can no longer reach the pass share, (all-giveup-no)*100 < pass*(all-giveup); else undecided; the reported yes/no/all powers are the sums of the recorded ones
func SV_C14_tally() {
	st := storage.NewState(storage.NewChainState("c14", db.NewMemDB()))
	pvs := NewProposalVoteStore("pv", st)
	id := ProposalID(strings.Repeat("ab", 32))
	nv, nt, passes := 3, 4, []int{51, 67, 75}
	if sv.Tier() > 0 {
		nv, nt, passes = 4, len(c14PowerTables), []int{51, 67, 75, 50, 60, 80}
	}
	powers := c14PowerTables[sv.Choice("powers", nt)]
	pass := passes[sv.Choice("pass", len(passes))]
	var all, yes, no, giveup int64
	for i := 0; i < nv; i++ {
		if powers[i] == 0 {
			continue
		}
		addr := keys.Address(strings.Repeat(string(rune('a'+i)), 20))
		op := VoteOpinion(sv.Choice(fmt.Sprint("opinion", i), 4))
		pv := NewProposalVote(addr, op, powers[i])
		if err := pvs.Setup(id, pv); err != nil {
			sv.Unreachable("setup")
		}
		pv.Opinion = op
		if err := pvs.Update(id, pv); err != nil {
			sv.Unreachable("update")
		}
		all += powers[i]
		switch op {
		case OPIN_POSITIVE:
			yes += powers[i]
		case OPIN_NEGATIVE:
			no += powers[i]
		case OPIN_GIVEUP:
			giveup += powers[i]
		}
	}
	st.Commit() // the snapshot was written in an earlier block (range reads list committed keys)
	stat, err := pvs.ResultSoFar(id, pass)
	sv.Assert(err == nil, "tally-runs")
	total := all - giveup
	want := VOTE_RESULT_TBD
	if total > 0 && yes*100 >= int64(pass)*total {
		want = VOTE_RESULT_PASSED
	} else if total > 0 && (total-no)*100 < int64(pass)*total {
		want = VOTE_RESULT_FAILED
	}
	sv.Observe("result", int(stat.Result))
	sv.Assert(stat.Result == want, "tally-equals-the-exact-integer-tally")
	sv.Assert(stat.PowerYes == yes && stat.PowerNo == no && stat.PowerAll == all, "reported-powers-are-the-recorded-sums")
	sv.Cover(want == VOTE_RESULT_PASSED, "passed")
	sv.Cover(want == VOTE_RESULT_FAILED, "failed")
	sv.Cover(want == VOTE_RESULT_TBD, "undecided")
}
