package ethereum

// C15 — cross-chain lock/redeem: the vote-counting kernel of the tracker.

import (
	"fmt"

	"github.com/Oneledger/protocol/data/keys"
	sv "github.com/Oneledger/protocol/zz_sv"
)

func c15Addr(i int) keys.Address {
	a := make([]byte, 20)
	for k := range a {
		a[k] = byte(0x10 + i)
	}
	return a
}

// c15Tracker builds a tracker with n witnesses and arbitrary recorded votes
// (each slot 0 = none, 1 = yes, 2 = no).
func c15Tracker(n int) *Tracker {
	ws := make([]keys.Address, n)
	for i := range ws {
		ws[i] = c15Addr(i)
	}
	t := NewTracker(ProcessTypeLock, c15Addr(9), []byte("signed"), [32]byte{1}, ws)
	for i := 0; i < n; i++ {
		v := sv.Byte(fmt.Sprint("slot", i))
		sv.Assume(v <= 2)
		t.FinalityVotes[i] = Vote(v)
	}
	return t
}

// SV_C15_addvote: one AddVote from an arbitrary tracker state with an
// arbitrary voter (each witness or an outsider), arbitrary index >= 0 and vote.
//
// sv:bounds n = 1..5 recorded witnesses; every slot content in {0,1,2} symbolic; voter = any witness or a non-witness; index any int64 >= 0 (a negative index is examined under C18); vote symbolic
// sv:outside more than 5 witnesses
// sv:goal only the slot of the voting witness changes, only when the index names that witness and the slot was empty; it becomes 1 for yes and 2 for no; a repeated vote is refused; a non-witness changes nothing
func SV_C15_addvote() {
	n := 1 + sv.Choice("n", 5)
	t := c15Tracker(n)
	before := make([]Vote, n)
	copy(before, t.FinalityVotes)
	who := sv.Choice("voter", n+1) // n = outsider
	voter := c15Addr(who)
	if who == n {
		voter = c15Addr(7)
	}
	index := sv.Int64("index")
	sv.Assume(index >= 0)
	vote := sv.Bool("vote")
	err := t.AddVote(voter, index, vote)
	for i := 0; i < n; i++ {
		if i == who && index == int64(i) && before[i] == 0 {
			sv.Assert(err == nil, "first-vote-accepted")
			if vote {
				sv.Assert(t.FinalityVotes[i] == 1, "yes-recorded-as-1")
			} else {
				sv.Assert(t.FinalityVotes[i] == 2, "no-recorded-as-2")
			}
			sv.Cover(true, "vote-recorded")
		} else {
			sv.Assert(t.FinalityVotes[i] == before[i], "other-slots-unchanged")
		}
	}
	if who < n && before[who] != 0 {
		sv.Assert(err != nil, "repeated-vote-refused")
		sv.Cover(true, "repeated-vote")
	}
	sv.Cover(who == n, "non-witness-voter")
	sv.Observe("slot0", t.FinalityVotes[0])
}

// SV_C15_threshold: Finalized/Failed agree with "more than two thirds of the
// recorded witnesses" on every vote pattern.
//
// sv:bounds n = 1..5 witnesses, every slot in {0,1,2} symbolic
// sv:goal Finalized() <=> 3*yes > 2*n ; Failed() <=> 3*no > 2*n ; GetVotes counts exactly the 1s and the 2s
func SV_C15_threshold() {
	n := 1 + sv.Choice("n", 5)
	t := c15Tracker(n)
	yes, no := 0, 0
	for i := 0; i < n; i++ {
		switch t.FinalityVotes[i] {
		case 1:
			yes++
		case 2:
			no++
		}
	}
	y, nn := t.GetVotes()
	sv.Assert(y == yes && nn == no, "getvotes-counts")
	sv.Assert(t.Finalized() == (3*yes > 2*n), "finalized-iff-more-than-two-thirds-yes")
	sv.Assert(t.Failed() == (3*no > 2*n), "failed-iff-more-than-two-thirds-no")
	sv.Assert(!(t.Finalized() && t.Failed()), "never-both")
	sv.Cover(t.Finalized(), "finalized")
	sv.Cover(t.Failed(), "failed")
	sv.Observe("yes", y)
	sv.Observe("fin", t.Finalized())
}
