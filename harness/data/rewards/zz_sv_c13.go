package rewards

// C13 — block rewards stay within the pulled amount and the yearly schedule:
// the per-block amount (PullRewards / Calculate) and its independence from the
// restart point within a calculation cycle.

import (
	"fmt"
	"math/big"
	"time"

	db "github.com/tendermint/tm-db"

	"github.com/Oneledger/protocol/data/balance"
	"github.com/Oneledger/protocol/storage"
	sv "github.com/Oneledger/protocol/zz_sv"
)

const c13T0 = int64(1600000000) // header time of block 1 (unix seconds)
const c13Year = int64(365 * 24 * 3600)

func c13NonNeg(name string) *balance.Amount {
	v := sv.BigInt(name)
	sv.Assume(v.Sign() >= 0)
	return balance.NewAmountFromBigInt(v)
}

type c13Env struct {
	store *RewardCumulativeStore
	opts  *Options
	years RewardYears
}

// c13Setup: a cumulative store over a fresh state with arbitrary yearly
// supplies, burnout rate and an arbitrary year table (Distributed >=
// TillLastCycle >= 0); block header times follow one of three scenarios:
// 0 = regular blocks (17.28 s), 1 = the last completed cycle ended inside the
// close window of year 1 (year 2 is selected), 2 = after both years (burnout).
func c13Setup(scenario int) *c13Env {
	e := &c13Env{}
	e.store = NewRewardCumulativeStore("rwcum", storage.NewState(storage.NewChainState("c13", db.NewMemDB())))
	e.opts = &Options{RewardInterval: 150, RewardPoolAddress: "rewardpool", RewardCurrency: "OLT",
		EstimatedSecondsPerCycle: 1728, BlockSpeedCalculateCycle: 100, YearCloseWindow: 3600 * 24,
		YearBlockRewardShares: []balance.Amount{*c13NonNeg("supply0"), *c13NonNeg("supply1")},
		BurnoutRate:           *c13NonNeg("burnout")}
	e.store.SetOptions(e.opts)
	var base int64
	switch scenario {
	case 0:
		base = 0
	case 1:
		base = c13Year - 3600 // cycle ends one hour before year 1 closes
	case 2:
		base = 3 * c13Year
	}
	heights := []int64{1, 101, 201, 301}
	times := []int64{c13T0, c13T0 + base + 1728, c13T0 + base + 2*1728, c13T0 + base + 3*1728}
	// blocks inside the cycles (what a node restarted in mid cycle sees as the latest
	// block): regular spacing, and in scenario 1 the later ones fall after the
	// opening of the close window of year 1
	for _, first := range []int64{1, 101, 201} {
		for _, off := range []int64{1, 49, 99} {
			t := times[(first-1)/100] + off*17
			if scenario == 1 && off > 1 {
				t += 2 * 3600
			}
			heights = append(heights, first+off)
			times = append(times, t)
		}
	}
	e.store.Init(sv.BlockStore(heights, times))
	start := time.Unix(c13T0, 0).UTC()
	for y := 0; y < 2; y++ {
		closeT := start.AddDate(1, 0, 0).UTC()
		till := c13NonNeg(fmt.Sprint("till", y))
		dist := c13NonNeg(fmt.Sprint("dist", y))
		sv.Assume(dist.BigInt().Cmp(till.BigInt()) >= 0)
		e.years.Years = append(e.years.Years, RewardYear{StartTime: start, CloseTime: closeT, Distributed: dist, TillLastCycle: till})
		start = closeT
	}
	if err := e.store.set(e.store.getYearDistributedKey(), e.years); err != nil {
		sv.Unreachable("year table")
	}
	return e
}

// SV_C13_pull: the amount pulled for a block.
//
// sv:bounds 2 reward years with arbitrary supplies >= 0; year table arbitrary with Distributed >= TillLastCycle >= 0; burnout rate and rewards pool arbitrary >= 0; heights {7 (first cycle), 101 (first block of cycle 2), 150, 201, 250}; three block-time scenarios (regular; cycle ending inside the close window of year 1; after the schedule); options as in the devnet genesis (cycle 100 blocks, estimate 1728 s, close window 1 day)
// sv:outside arbitrary block-time sequences (three concrete scenarios); more than 2 years; other option values
// sv:goal the pulled amount is >= 0; while the schedule runs it is at most (year supply - distributed till last cycle) of the selected year; after the schedule it is the burnout rate capped by the rewards pool
func SV_C13_pull() {
	scenario := sv.Choice("scenario", 3)
	e := c13Setup(scenario)
	height := []int64{7, 101, 150, 201, 250}[sv.Choice("height", 5)]
	pool := c13NonNeg("pool")
	amt, err := e.store.PullRewards(height, pool)
	if err != nil {
		sv.Cover(true, "supply-exhausted-error")
		return
	}
	sv.Assert(amt.BigInt().Sign() >= 0, "pulled-amount-non-negative")
	c := e.store.calculator.cached
	if c.burnedout {
		sv.Assert(amt.BigInt().Cmp(pool.BigInt()) <= 0, "burnout-amount-capped-by-pool")
		sv.Assert(amt.BigInt().Cmp(e.opts.BurnoutRate.BigInt()) <= 0, "burnout-amount-at-most-burnout-rate")
		sv.Cover(true, "burnedout")
	} else {
		left := new(big.Int).Sub(e.opts.YearBlockRewardShares[c.year].BigInt(), e.years.Years[c.year].TillLastCycle.BigInt())
		sv.Assert(amt.BigInt().Cmp(left) <= 0, "amount-within-what-was-left-of-the-year-when-the-cycle-began")
		sv.Cover(c.year == 0, "year-1")
		sv.Cover(c.year == 1, "year-2")
	}
	sv.Observe("amount", amt.BigInt())
	sv.Observe("year", c.year)
}

// SV_C13_restart_independent: the amount returned at a height inside a cycle
// by a calculator that computed and cached it at the first block of the cycle
// equals what a freshly started node (empty cache) computes at that height.
// The year's Distributed total moves between the two computations (arbitrary
// increase), TillLastCycle does not (it is only written at the last block of a
// cycle).
//
// sv:bounds as SV_C13_pull; cycle start heights {1, 101, 201}; later height = start + {1, 49, 99}, whose own block times exist in the block store (regular spacing; in scenario 1 the later ones lie after the opening of year 1's close window)
// sv:goal same pulled amount and same selected year / burnout flag
func SV_C13_restart_independent() {
	sv.CrashIsViolation("restarted-node-computes-the-reward-without-crashing")
	scenario := sv.Choice("scenario", 3)
	e := c13Setup(scenario)
	first := []int64{1, 101, 201}[sv.Choice("cycleStart", 3)]
	later := first + []int64{1, 49, 99}[sv.Choice("offset", 3)]
	pool := c13NonNeg("pool")
	// node that never stopped
	a0, err0 := e.store.PullRewards(first, pool)
	if err0 != nil {
		return
	}
	_ = a0
	// rewards were distributed in between
	grown := e.years
	grown.Years = append([]RewardYear(nil), e.years.Years...)
	for y := range grown.Years {
		inc := c13NonNeg(fmt.Sprint("inc", y))
		grown.Years[y].Distributed = grown.Years[y].Distributed.Plus(*inc)
	}
	e.store.set(e.store.getYearDistributedKey(), grown)
	a1, err1 := e.store.PullRewards(later, pool)
	c1 := e.store.calculator.cached
	// restarted node: fresh calculator on the same committed records
	fresh := NewRewardCumulativeStore("rwcum", e.store.state)
	fresh.SetOptions(e.opts)
	fresh.Init(e.store.blockStore)
	a2, err2 := fresh.PullRewards(later, pool)
	c2 := fresh.calculator.cached
	sv.Assert((err1 == nil) == (err2 == nil), "same-error-status")
	if err1 == nil && err2 == nil {
		sv.Assert(a1.BigInt().Cmp(a2.BigInt()) == 0, "restart-does-not-change-the-block-reward")
		sv.Assert(c1.burnedout == c2.burnedout && (c1.burnedout || c1.year == c2.year), "restart-selects-the-same-year")
		sv.Cover(true, "compared")
	}
	sv.Observe("a1", a1.BigInt())
}
