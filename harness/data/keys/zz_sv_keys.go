package keys

// Harness-supplied model of the key-handler factory: the ed25519 and secp256k1
// branches are the real ones; the two branches that decompress a curve point
// (go-ethereum's DecompressPubkey, btcec.ParsePubKey: elliptic-curve code the
// engine does not interpret) know one public key, whose coordinates were
// computed once natively, and refuse everything else.

import (
	"bytes"
	"errors"
	"fmt"
	"math/big"

	"github.com/btcsuite/btcd/btcec"
	"github.com/tendermint/tendermint/crypto/ed25519"
)

// SVKnownSecpPub is the compressed secp256k1 public key the model knows; its
// account address under the SECP256K1 label is SVKnownSecpAddr.
var (
	SVKnownSecpPub  = []byte{0x02, 0x7f, 0x2d, 0xc9, 0xf8, 0xbf, 0x33, 0x4e, 0xa1, 0xf2, 0xeb, 0x97, 0x5f, 0x37, 0x40, 0xa8, 0x74, 0x4f, 0x77, 0xeb, 0xec, 0xad, 0xec, 0x6c, 0x89, 0xa7, 0x04, 0xd9, 0x16, 0xfe, 0x09, 0x35, 0x02}
	SVKnownSecpAddr = Address{0x09, 0x61, 0xc3, 0x72, 0x96, 0x7c, 0xdb, 0x04, 0x6e, 0x2c, 0xb7, 0xde, 0x11, 0x3d, 0x08, 0x57, 0x72, 0x7a, 0xa8, 0x47}
	svKnownY, _     = new(big.Int).SetString("42f86ade94456b6d66b7b342223baf2f362ee37c9d16f7dc5056af9b0be25f96", 16)
)

// sv:models (github.com/Oneledger/protocol/data/keys.PublicKey).GetHandler
func svModel_GetHandler(pubKey PublicKey) (PublicKeyHandler, error) {
	switch pubKey.KeyType {
	case ED25519:
		size := ed25519.PubKeyEd25519Size
		if len(pubKey.Data) != size {
			return new(PublicKeyED25519),
				fmt.Errorf("given key doesn't match the size of the key algorithm %s length %d", pubKey.KeyType.String(), len(pubKey.Data))
		}
		var key [ED25519_PUB_SIZE]byte
		copy(key[:], pubKey.Data)
		return PublicKeyED25519{key}, nil

	case SECP256K1:
		size := SECP256K1_PUB_SIZE
		if len(pubKey.Data) != size {
			return new(PublicKeySECP256K1),
				fmt.Errorf("given key doesn't match the size of the key algorithm %s length %d", pubKey.KeyType.String(), len(pubKey.Data))
		}
		var key [SECP256K1_PUB_SIZE]byte
		copy(key[:], pubKey.Data)
		return PublicKeySECP256K1{key}, nil

	case BTCECSECP:
		if !bytes.Equal(pubKey.Data, SVKnownSecpPub) {
			return nil, errors.New("invalid pub key (model: only the known point parses)")
		}
		return PublicKeyBTCEC{btcec.PublicKey{X: new(big.Int).SetBytes(SVKnownSecpPub[1:]), Y: new(big.Int).Set(svKnownY)}}, nil

	default:
		// ETHSECP is not modelled (the harnesses do not use the label)
		return nil, errors.New("provided invalid key algorithm")
	}
}
