// Package sv is the harness vocabulary. This file is the NATIVE implementation
// used when a harness is compiled and run for replay / cross-validation: the
// inputs come from a replay file (SV_REPLAY), observations are printed. Under
// the symbolic executor every function of this package is an intrinsic.
package sv

import (
	"encoding/json"
	"fmt"
	"math/big"
	"os"
	"sort"
	"strconv"
)

type replayFile struct {
	Harness string            `json:"harness"`
	Model   map[string]string `json:"model"`
	Choices map[string]int    `json:"choices"`
	Tier    int               `json:"tier"`
}

var rf *replayFile
var observed = map[string]string{}
var obsOrder []string

func file() *replayFile {
	if rf != nil {
		return rf
	}
	rf = &replayFile{Model: map[string]string{}, Choices: map[string]int{}}
	if p := os.Getenv("SV_REPLAY"); p != "" {
		b, err := os.ReadFile(p)
		if err != nil {
			fmt.Println("SV-ERROR cannot read replay file:", err)
			os.Exit(3)
		}
		if err := json.Unmarshal(b, rf); err != nil {
			fmt.Println("SV-ERROR bad replay file:", err)
			os.Exit(3)
		}
	}
	return rf
}

// Reset is called by the replay test before running a harness.
func Reset() { rf = nil; observed = map[string]string{}; obsOrder = nil }

func Symbolic() bool { return false }

func big0(name string) *big.Int {
	s, ok := file().Model[name]
	if !ok {
		return new(big.Int)
	}
	v, ok := new(big.Int).SetString(s, 10)
	if !ok {
		fmt.Println("SV-ERROR bad integer for", name, s)
		os.Exit(3)
	}
	return v
}

func Int64(name string) int64   { return big0(name).Int64() }
func Int(name string) int       { return int(big0(name).Int64()) }
func Int32(name string) int32   { return int32(big0(name).Int64()) }
func Uint64(name string) uint64 { return big0(name).Uint64() }
func Byte(name string) byte     { return byte(big0(name).Uint64()) }
func Bool(name string) bool     { return file().Model[name] == "true" }
func BigInt(name string) *big.Int {
	return big0(name)
}

// Choice returns a value in [0,n): every alternative is explored.
func Choice(name string, n int) int {
	c := file().Choices[name]
	if c < 0 || c >= n {
		return 0
	}
	return c
}

// Tier is 0 (quick) or 1 (thorough).
func Tier() int { return file().Tier }

func Assume(c bool) {
	if !c {
		fmt.Println("SV-ASSUME-FAIL")
		dump()
		os.Exit(4)
	}
}

func Assert(c bool, label string) {
	if !c {
		fmt.Println("SV-ASSERT-FAIL " + label)
	}
}

func Cover(c bool, label string) {}

func Observe(name string, v interface{}) {
	var s string
	switch x := v.(type) {
	case *big.Int:
		if x == nil {
			s = "<nil>"
		} else {
			s = x.String()
		}
	case big.Int:
		s = x.String()
	case []byte:
		s = fmt.Sprintf("%x", x)
	case bool:
		s = strconv.FormatBool(x)
	case nil:
		s = "<nil>"
	default:
		s = fmt.Sprint(v)
	}
	if _, ok := observed[name]; !ok {
		obsOrder = append(obsOrder, name)
	}
	observed[name] = s
}

func CrashIsViolation(label string) {}
func MapOrders(on bool)             {}
func Note(s string)                 {}
func Unreachable(s string)          { fmt.Println("SV-UNREACHABLE " + s); dump(); os.Exit(4) }
func IsConcrete(v interface{}) bool { return true }

func dump() {
	names := append([]string(nil), obsOrder...)
	sort.Strings(names)
	for _, n := range names {
		fmt.Printf("SV-OBS %s=%s\n", n, observed[n])
	}
}

// Done prints the observations (called by the replay test after the harness).
func Done() { dump(); fmt.Println("SV-DONE") }

// Reencode returns another byte encoding of the same JSON document
// (insignificant trailing whitespace).
func Reencode(b []byte) []byte { return append(append([]byte(nil), b...), ' ') }

// NominalSizes: under the symbolic executor serialised records get the given
// constant size from here on (relational harnesses compare two runs, so only
// differences matter). Natively a no-op.
func NominalSizes(n int) {}
