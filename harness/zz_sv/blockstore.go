package sv

import (
	"fmt"
	"time"

	amino "github.com/tendermint/go-amino"
	tmstore "github.com/tendermint/tendermint/store"
	tmtypes "github.com/tendermint/tendermint/types"
	dbm "github.com/tendermint/tm-db"
)

// BlockStore returns a real Tendermint BlockStore whose block metas carry the
// given header times (unix seconds) at the given heights — what the reward
// calculator reads. Under the symbolic executor this is an intrinsic (an
// opaque store answering LoadBlockMeta(h).Header.Time from the same table).
func BlockStore(heights []int64, unix []int64) *tmstore.BlockStore {
	db := dbm.NewMemDB()
	cdc := amino.NewCodec()
	tmtypes.RegisterBlockAmino(cdc)
	for i, h := range heights {
		meta := &tmtypes.BlockMeta{Header: tmtypes.Header{Height: h, Time: time.Unix(unix[i], 0).UTC()}}
		if err := db.Set([]byte(fmt.Sprintf("H:%v", h)), cdc.MustMarshalBinaryBare(meta)); err != nil {
			panic(err)
		}
	}
	return tmstore.NewBlockStore(db)
}
