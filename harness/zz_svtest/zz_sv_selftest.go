// Package zz_svtest holds the engine self-test corpus: small Go programs run
// both symbolically and natively.
package zz_svtest

import (
	"errors"
	"fmt"
	"math/big"
	"sort"
	"strings"

	sv "github.com/Oneledger/protocol/zz_sv"
)

type shape interface{ Area() int64 }
type rect struct{ w, h int64 }
type sq struct{ s int64 }

func (r rect) Area() int64 { return r.w * r.h }
func (s *sq) Area() int64  { return s.s * s.s }

// wrap-around of machine integers
func SV_T01_wrap() {
	x := sv.Int64("x")
	y := x + 1
	sv.Cover(y < x, "overflow-reachable")
	sv.Assert(y > x || x == 9223372036854775807, "succ")
	var b byte = sv.Byte("b")
	c := b + 200
	sv.Assert(int(c) == (int(b)+200)%256, "byte-wrap")
	sv.Observe("y", y)
	sv.Observe("c", c)
}

// this one must be violated: x*2 can overflow
func SV_T02_violated() {
	x := sv.Int64("x")
	sv.Assume(x > 0)
	sv.Assert(x*2 > 0, "double-positive")
}

func SV_T03_heap() {
	n := sv.Int64("n")
	m := map[string]int64{}
	m["a"] = n
	m["b"] = n + 1
	s := []int64{}
	for _, k := range []string{"a", "b"} {
		s = append(s, m[k])
	}
	var sh shape = rect{n, 2}
	if n > 10 {
		sh = &sq{n}
	}
	a := sh.Area()
	if n > 10 && n < 1000 {
		sv.Assert(a == n*n, "sq")
	} else if n <= 10 && n > -1000 {
		sv.Assert(a == 2*n, "rect")
	}
	sv.Observe("a", a)
	sv.Observe("s1", s[1])
}

func div(a, b int64) (r int64, err error) {
	defer func() {
		if e := recover(); e != nil {
			err = errors.New("recovered")
		}
	}()
	return a / b, nil
}

func SV_T04_panic_recover() {
	a, b := sv.Int64("a"), sv.Int64("b")
	r, err := div(a, b)
	if b == 0 {
		sv.Assert(err != nil, "div0-recovered")
	} else {
		sv.Assert(err == nil, "no-err")
		if a >= 0 && b > 0 {
			sv.Assert(r*b <= a && a-r*b < b, "quotient")
		}
	}
	sv.Cover(err != nil, "recovered")
	sv.Observe("r", r)
}

func SV_T05_big() {
	a, b := sv.BigInt("a"), sv.BigInt("b")
	sum := new(big.Int).Add(a, b)
	d := new(big.Int).Sub(sum, b)
	sv.Assert(d.Cmp(a) == 0, "add-sub")
	if b.Sign() > 0 {
		q := new(big.Int).Div(a, b)
		r := new(big.Int).Mod(a, b)
		back := new(big.Int).Add(new(big.Int).Mul(q, b), r)
		sv.Assert(back.Cmp(a) == 0, "euclid")
		sv.Assert(r.Sign() >= 0, "mod-nonneg")
		sv.Observe("q", q)
	}
	t := a.Int64()
	sv.Cover(big.NewInt(t).Cmp(a) != 0, "int64-truncates")
	sv.Observe("t", t)
	sv.Observe("sum", sum)
}

func SV_T06_sort_strings() {
	x, y, z := sv.Int64("x"), sv.Int64("y"), sv.Int64("z")
	s := []int64{x, y, z}
	sort.Slice(s, func(i, j int) bool { return s[i] < s[j] })
	sv.Assert(s[0] <= s[1] && s[1] <= s[2], "sorted")
	k := fmt.Sprintf("%s_%d", strings.ToUpper("k"), 7)
	sv.Assert(k == "K_7", "sprintf")
	sv.Observe("s0", s[0])
	sv.Observe("s2", s[2])
}

type node struct {
	val  int64
	next *node
}

func SV_T07_choice_list() {
	n := sv.Choice("n", 4)
	var head *node
	var sum int64
	for i := 0; i < n; i++ {
		v := sv.Int64(fmt.Sprint("v", i))
		sv.Assume(v >= 0 && v < 1000)
		head = &node{v, head}
		sum += v
	}
	var got int64
	cnt := 0
	for p := head; p != nil; p = p.next {
		got += p.val
		cnt++
	}
	sv.Assert(got == sum && cnt == n, "list-sum")
	sv.Observe("got", got)
}

func SV_T08_index_panic() {
	sv.CrashIsViolation("no-crash")
	i := sv.Int("i")
	sv.Assume(i >= 0 && i <= 3)
	a := []int{1, 2, 3}
	_ = a[i] // i == 3 panics: must be reported
}
