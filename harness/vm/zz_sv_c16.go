package vm

// C16 — the EVM state adapter (CommitStateDB over the contract store, the
// account keeper and the balance store) against a reference model of
// go-ethereum's state.StateDB semantics (v1.10.8), operation by operation.
//
// The reference keeps whole-state copies for snapshots, so its revert is
// correct by construction; everything else follows core/state/statedb.go and
// state_object.go: GetOrNewStateObject creation, the zero-amount touch of
// AddBalance, CreateAccount carrying the balance over, Suicide, committed vs
// current storage, Finalise deleting suicided and touched-empty accounts.

import (
	"bytes"
	"fmt"
	"math/big"
	"os"

	db "github.com/tendermint/tm-db"

	"github.com/Oneledger/protocol/data/balance"
	"github.com/Oneledger/protocol/data/chain"
	"github.com/Oneledger/protocol/data/evm"
	"github.com/Oneledger/protocol/data/keys"
	"github.com/Oneledger/protocol/log"
	"github.com/Oneledger/protocol/storage"
	sv "github.com/Oneledger/protocol/zz_sv"
	ethcmn "github.com/ethereum/go-ethereum/common"
	ethtypes "github.com/ethereum/go-ethereum/core/types"
	ethcrypto "github.com/ethereum/go-ethereum/crypto"
)

// ---- reference model ----

type refAcct struct {
	// recreated: the account was created at an address where a removed
	// account left storage behind in the adapter's store (see KNOWN_FINDINGS)
	recreated bool
	balance   *big.Int
	nonce     uint64
	code      []byte
	storage   map[ethcmn.Hash]ethcmn.Hash
	committed map[ethcmn.Hash]ethcmn.Hash
	suicided  bool
}

func (a *refAcct) empty() bool { return a.nonce == 0 && a.balance.Sign() == 0 && len(a.code) == 0 }

func (a *refAcct) copy() *refAcct {
	c := &refAcct{balance: new(big.Int).Set(a.balance), nonce: a.nonce, code: a.code, suicided: a.suicided, recreated: a.recreated,
		storage: map[ethcmn.Hash]ethcmn.Hash{}, committed: map[ethcmn.Hash]ethcmn.Hash{}}
	for k, v := range a.storage {
		c.storage[k] = v
	}
	for k, v := range a.committed {
		c.committed[k] = v
	}
	return c
}

type refState struct {
	ghost  map[ethcmn.Address]bool // addresses whose removed account had persisted storage
	accts  map[ethcmn.Address]*refAcct
	dirty  map[ethcmn.Address]bool
	refund uint64
	nlogs  int
	logIdx []uint // Index of each log of the transaction
	logSeq uint   // block-wide log counter
	alAddr map[ethcmn.Address]bool
	alSlot map[ethcmn.Address]map[ethcmn.Hash]bool
}

func newRefState() *refState {
	return &refState{ghost: map[ethcmn.Address]bool{}, accts: map[ethcmn.Address]*refAcct{}, dirty: map[ethcmn.Address]bool{},
		alAddr: map[ethcmn.Address]bool{}, alSlot: map[ethcmn.Address]map[ethcmn.Hash]bool{}}
}

func (s *refState) copy() *refState {
	c := newRefState()
	for a, v := range s.accts {
		c.accts[a] = v.copy()
	}
	for a := range s.dirty {
		c.dirty[a] = true
	}
	for a := range s.ghost {
		c.ghost[a] = true
	}
	c.refund, c.nlogs = s.refund, s.nlogs
	c.logIdx, c.logSeq = append([]uint{}, s.logIdx...), s.logSeq
	for a := range s.alAddr {
		c.alAddr[a] = true
	}
	for a, m := range s.alSlot {
		c.alSlot[a] = map[ethcmn.Hash]bool{}
		for k := range m {
			c.alSlot[a][k] = true
		}
	}
	return c
}

func newRefAcct() *refAcct {
	return &refAcct{balance: new(big.Int), storage: map[ethcmn.Hash]ethcmn.Hash{}, committed: map[ethcmn.Hash]ethcmn.Hash{}}
}

func (s *refState) getOrNew(a ethcmn.Address) *refAcct {
	if o := s.accts[a]; o != nil {
		return o
	}
	o := newRefAcct()
	o.recreated = s.ghost[a]
	s.accts[a] = o
	s.dirty[a] = true // createObjectChange
	return o
}

type refModel struct {
	cur   *refState
	snaps []refSnap
	next  int
}
type refSnap struct {
	id int
	st *refState
}

func (m *refModel) AddBalance(a ethcmn.Address, x *big.Int) {
	o := m.cur.getOrNew(a)
	if x.Sign() == 0 {
		if o.empty() {
			m.cur.dirty[a] = true // touch
		}
		return
	}
	o.balance = new(big.Int).Add(o.balance, x)
	m.cur.dirty[a] = true
}
func (m *refModel) SubBalance(a ethcmn.Address, x *big.Int) {
	o := m.cur.getOrNew(a)
	if x.Sign() == 0 {
		return
	}
	o.balance = new(big.Int).Sub(o.balance, x)
	m.cur.dirty[a] = true
}
func (m *refModel) SetNonce(a ethcmn.Address, n uint64) {
	m.cur.getOrNew(a).nonce = n
	m.cur.dirty[a] = true
}
func (m *refModel) SetCode(a ethcmn.Address, code []byte) {
	m.cur.getOrNew(a).code = code
	m.cur.dirty[a] = true
}
func (m *refModel) SetState(a ethcmn.Address, k, v ethcmn.Hash) {
	o := m.cur.getOrNew(a)
	if o.storage[k] == v {
		return
	}
	o.storage[k] = v
	m.cur.dirty[a] = true
}
func (m *refModel) Suicide(a ethcmn.Address) bool {
	o := m.cur.accts[a]
	if o == nil {
		return false
	}
	o.suicided = true
	o.balance = new(big.Int)
	m.cur.dirty[a] = true
	return true
}
func (m *refModel) CreateAccount(a ethcmn.Address) {
	prev := m.cur.accts[a]
	o := newRefAcct()
	o.recreated = m.cur.ghost[a] || (prev != nil && (prev.recreated || len(prev.committed) > 0))
	if prev != nil {
		o.balance = new(big.Int).Set(prev.balance)
	} else {
		m.cur.dirty[a] = true // createObjectChange; a reset does not dirty
	}
	m.cur.accts[a] = o
}
func (m *refModel) Snapshot() int {
	id := m.next
	m.next++
	m.snaps = append(m.snaps, refSnap{id, m.cur.copy()})
	return id
}
func (m *refModel) Revert(id int) {
	for i, sn := range m.snaps {
		if sn.id == id {
			m.cur = sn.st
			m.snaps = m.snaps[:i]
			return
		}
	}
	panic("ref: unknown snapshot")
}
func (m *refModel) Finalise(deleteEmpty bool) {
	for a := range m.cur.dirty {
		o := m.cur.accts[a]
		if o == nil {
			continue
		}
		if o.suicided || (deleteEmpty && o.empty()) {
			for _, v := range o.committed {
				if v != (ethcmn.Hash{}) {
					m.cur.ghost[a] = true
				}
			}
			if o.recreated {
				m.cur.ghost[a] = true
			}
			delete(m.cur.accts, a)
		}
	}
	for _, o := range m.cur.accts {
		o.committed = map[ethcmn.Hash]ethcmn.Hash{}
		for k, v := range o.storage {
			o.committed[k] = v
		}
	}
	m.cur.dirty = map[ethcmn.Address]bool{}
	m.cur.refund = 0
	m.snaps = nil
}

// ---- the real adapter on real stores ----

type c16Env struct {
	sdb   *CommitStateDB
	ref   *refModel
	st    *storage.State
	bal   *balance.Store
	olt   balance.Currency
	addrs []ethcmn.Address
	keys  []ethcmn.Hash
	snaps []int // ids returned by the adapter, in order (parallel to ref ids)
}

func c16Addr(i int) ethcmn.Address { return ethcmn.BytesToAddress([]byte{0xA0, byte(i + 1)}) }

var c16Codes = [][]byte{nil, {0x00}, {0x60, 0x00, 0x00}}

func c16NewEnv(symbolic bool) *c16Env {
	e := &c16Env{}
	e.st = storage.NewState(storage.NewChainState("c16", db.NewMemDB()))
	e.bal = balance.NewStore("b", e.st)
	cur := balance.NewCurrencySet()
	e.olt = balance.Currency{Name: "OLT", Chain: chain.Type(0), Decimal: 18}
	cur.Register(e.olt)
	keeper := balance.NewNesterAccountKeeper(e.st, e.bal, cur)
	e.sdb = NewCommitStateDB(evm.NewContractStore(e.st), keeper, log.NewLoggerWithPrefix(os.Stdout, "c16"))
	e.sdb.SetBlockHash(ethcmn.BytesToHash([]byte{1}))
	e.sdb.Prepare(ethcmn.BytesToHash([]byte{2}))
	e.ref = &refModel{cur: newRefState()}
	for i := 0; i < 4; i++ {
		e.addrs = append(e.addrs, c16Addr(i))
	}
	e.keys = []ethcmn.Hash{ethcmn.BytesToHash([]byte{1}), ethcmn.BytesToHash([]byte{2})}
	// a0: EOA with a keeper record, nonce 3, balance b0; a1: contract with code, slot k0 = 7, balance b1;
	// a2: absent; a3: natively funded address without keeper record (exists iff its balance is not 0)
	b := func(name string) *big.Int {
		if !symbolic {
			return big.NewInt(5)
		}
		v := sv.BigInt(name)
		sv.Assume(v.Sign() >= 0 && v.Cmp(new(big.Int).Lsh(big.NewInt(1), 128)) < 0)
		return v
	}
	b0, b1, b3 := b("bal0"), b("bal1"), b("bal3")
	fund := func(a ethcmn.Address, v *big.Int) {
		if err := e.bal.AddToAddress(keys.Address(a.Bytes()), e.olt.NewCoinFromAmount(*balance.NewAmountFromBigInt(v))); err != nil {
			sv.Unreachable("fund")
		}
	}
	fund(e.addrs[0], b0)
	fund(e.addrs[1], b1)
	fund(e.addrs[3], b3)
	e.sdb.SetNonce(e.addrs[0], 3)
	e.sdb.SetCode(e.addrs[1], c16Codes[2])
	e.sdb.SetNonce(e.addrs[1], 1)
	e.sdb.SetState(e.addrs[1], e.keys[0], ethcmn.BytesToHash([]byte{7}))
	if err := e.sdb.Finalise(true); err != nil {
		sv.Unreachable("initial finalise")
	}
	e.st.Commit()
	r := e.ref.cur
	r.accts[e.addrs[0]] = newRefAcct()
	r.accts[e.addrs[0]].balance, r.accts[e.addrs[0]].nonce = b0, 3
	r.accts[e.addrs[1]] = newRefAcct()
	r.accts[e.addrs[1]].balance, r.accts[e.addrs[1]].nonce, r.accts[e.addrs[1]].code = b1, 1, c16Codes[2]
	r.accts[e.addrs[1]].storage[e.keys[0]] = ethcmn.BytesToHash([]byte{7})
	r.accts[e.addrs[1]].committed[e.keys[0]] = ethcmn.BytesToHash([]byte{7})
	if b3.Sign() != 0 {
		r.accts[e.addrs[3]] = newRefAcct()
		r.accts[e.addrs[3]].balance = b3
	}
	return e
}

// compare checks every observable of the interface on the given addresses.
func (e *c16Env) compare(at string, which ...int) {
	r := e.ref.cur
	sv.Note("compare at " + at)
	for _, i := range which {
		a := e.addrs[i]
		o := r.accts[a]
		sv.Assert(e.sdb.Exist(a) == (o != nil), "Exist")
		sv.Assert(e.sdb.Empty(a) == (o == nil || o.empty()), "Empty")
		wb, wn, wc, ws := new(big.Int), uint64(0), []byte(nil), false
		if o != nil {
			wb, wn, wc, ws = o.balance, o.nonce, o.code, o.suicided
		}
		sv.Assert(e.sdb.GetBalance(a).Cmp(wb) == 0, "GetBalance")
		sv.Assert(e.sdb.GetNonce(a) == wn, "GetNonce")
		sv.Assert(bytes.Equal(e.sdb.GetCode(a), wc), "GetCode")
		sv.Assert(e.sdb.GetCodeSize(a) == len(wc), "GetCodeSize")
		wh := ethcmn.Hash{}
		if o != nil {
			wh = ethcrypto.Keccak256Hash(wc)
		}
		sv.Assert(e.sdb.GetCodeHash(a) == wh, "GetCodeHash")
		sv.Assert(e.sdb.HasSuicided(a) == ws, "HasSuicided")
		suffix := ""
		if o != nil && o.recreated {
			suffix = "-of-an-account-created-over-leftover-storage"
		}
		for _, k := range e.keys {
			cur, com := ethcmn.Hash{}, ethcmn.Hash{}
			if o != nil {
				cur, com = o.storage[k], o.committed[k]
			}
			sv.Assert(e.sdb.GetState(a, k) == cur, "GetState"+suffix)
			sv.Assert(e.sdb.GetCommittedState(a, k) == com, "GetCommittedState"+suffix)
			ap, sp := e.sdb.SlotInAccessList(a, k)
			sv.Assert(ap == r.alAddr[a] && sp == r.alSlot[a][k], "SlotInAccessList")
		}
		sv.Assert(e.sdb.AddressInAccessList(a) == r.alAddr[a], "AddressInAccessList")
	}
	sv.Assert(e.sdb.GetRefund() == r.refund, "GetRefund")
	e.compareLogs()
}

func (e *c16Env) compareLogs() {
	r := e.ref.cur
	logs := e.sdb.GetTxLogs()
	sv.Assert(len(logs) == r.nlogs, "GetTxLogs")
	if len(logs) == r.nlogs {
		for i, l := range logs {
			sv.Assert(l.Index == r.logIdx[i] && l.TxHash == e.sdb.thash && l.BlockHash == e.sdb.bhash, "log-index-and-hashes")
		}
	}
}

// compareGlobals checks the refund counter, the logs and the access list.
func (e *c16Env) compareGlobals() {
	r := e.ref.cur
	for _, a := range e.addrs {
		for _, k := range e.keys {
			ap, sp := e.sdb.SlotInAccessList(a, k)
			sv.Assert(ap == r.alAddr[a] && sp == r.alSlot[a][k], "SlotInAccessList")
		}
		sv.Assert(e.sdb.AddressInAccessList(a) == r.alAddr[a], "AddressInAccessList")
	}
	sv.Assert(e.sdb.GetRefund() == r.refund, "GetRefund")
	e.compareLogs()
}

// step applies one operation to both sides. kind 0: account operations on the
// address addr (or any when addr < 0); kind 1: refund / log / access list;
// kind 2: everything plus snapshot / revert / finalise.
func (e *c16Env) step(name string, addr int, kind int) {
	var op int
	switch kind {
	case 0:
		op = sv.Choice(name+".op", 7)
	case 1:
		op = 7 + sv.Choice(name+".op", 4)
	case 3: // the life of a self-destructing account: value in and out, Suicide, re-creation
		op = []int{0, 1, 5, 6}[sv.Choice(name+".op", 4)]
	default:
		op = sv.Choice(name+".op", 14)
	}
	pick := func() ethcmn.Address {
		i := addr
		if i < 0 && kind == 1 {
			i = 1 + sv.Choice(name+".addr", 2)
		} else if i < 0 {
			i = sv.Choice(name+".addr", len(e.addrs))
		}
		return e.addrs[i]
	}
	switch op {
	case 0:
		a := pick()
		x := sv.BigInt(name + ".amount")
		sv.Assume(x.Sign() >= 0 && x.Cmp(new(big.Int).Lsh(big.NewInt(1), 128)) < 0)
		e.sdb.AddBalance(a, x)
		e.ref.AddBalance(a, x)
	case 1:
		a := pick()
		x := sv.BigInt(name + ".amount")
		// precondition of the interface (the EVM checks CanTransfer first)
		have := new(big.Int)
		if o := e.ref.cur.accts[a]; o != nil {
			have = o.balance
		}
		sv.Assume(x.Sign() >= 0 && x.Cmp(have) <= 0)
		e.sdb.SubBalance(a, x)
		e.ref.SubBalance(a, x)
	case 2:
		a := pick()
		n := uint64(sv.Choice(name+".nonce", 2)) // 0, 1
		e.sdb.SetNonce(a, n)
		e.ref.SetNonce(a, n)
	case 3:
		a := pick()
		c := c16Codes[sv.Choice(name+".code", 2)]
		e.sdb.SetCode(a, c)
		e.ref.SetCode(a, c)
	case 4:
		a := pick()
		k := e.keys[sv.Choice(name+".key", len(e.keys))]
		v := ethcmn.BytesToHash([]byte{byte([]int{0, 9}[sv.Choice(name+".value", 2)])})
		e.sdb.SetState(a, k, v)
		e.ref.SetState(a, k, v)
	case 5:
		a := pick()
		sv.Assert(e.sdb.Suicide(a) == e.ref.Suicide(a), "Suicide-result")
	case 6:
		a := pick()
		// precondition: the EVM creates only at addresses without nonce and code (collision check in create)
		if o := e.ref.cur.accts[a]; o != nil && (o.nonce != 0 || len(o.code) != 0) {
			sv.Assume(false)
		}
		e.sdb.CreateAccount(a)
		e.ref.CreateAccount(a)
	case 7:
		g := uint64(1 + sv.Choice(name+".gas", 2))
		e.sdb.AddRefund(g)
		e.ref.cur.refund += g
	case 8:
		g := uint64(1 + sv.Choice(name+".gas", 2))
		if g > e.ref.cur.refund {
			sv.Assume(false) // SubRefund below zero panics on both sides
		}
		e.sdb.SubRefund(g)
		e.ref.cur.refund -= g
	case 9:
		a := e.addrs[1]
		e.sdb.AddLog(&ethtypes.Log{Address: a})
		e.ref.cur.nlogs++
		e.ref.cur.logIdx = append(e.ref.cur.logIdx, e.ref.cur.logSeq)
		e.ref.cur.logSeq++
	case 10:
		a := pick()
		if sv.Choice(name+".slot", 2) == 0 {
			e.sdb.AddAddressToAccessList(a)
			e.ref.cur.alAddr[a] = true
		} else {
			k := e.keys[sv.Choice(name+".key", len(e.keys))]
			e.sdb.AddSlotToAccessList(a, k)
			e.ref.cur.alAddr[a] = true
			if e.ref.cur.alSlot[a] == nil {
				e.ref.cur.alSlot[a] = map[ethcmn.Hash]bool{}
			}
			e.ref.cur.alSlot[a][k] = true
		}
	case 11:
		e.snapshot()
	case 12:
		if len(e.snaps) == 0 {
			sv.Assume(false)
		}
		e.revert(sv.Choice(name+".to", len(e.snaps)))
	default:
		e.finalise()
	}
}

func (e *c16Env) snapshot() {
	e.snaps = append(e.snaps, e.sdb.Snapshot())
	e.ref.Snapshot()
}

func (e *c16Env) revert(i int) {
	e.sdb.RevertToSnapshot(e.snaps[i])
	e.ref.Revert(e.ref.snaps[i].id)
	e.snaps = e.snaps[:i]
}

func (e *c16Env) finalise() {
	err := e.sdb.Finalise(true)
	sv.Assert(err == nil, "Finalise-error")
	e.ref.Finalise(true)
	e.snaps = nil
	// the access list and the logs live until the next transaction / block
}

// SV_C16_snapshot_revert: [op, snapshot, op, (snapshot, op), revert, compare, finalise, compare].
//
// sv:bounds accounts: EOA with keeper record (nonce 3), contract (code, nonce 1, slot k0=7), absent address, natively funded address without keeper record; balances symbolic in [0,2^128); account operations AddBalance / SubBalance (symbolic amounts incl. 0, SubBalance within the balance), SetNonce (0,1), SetCode (empty, one byte), SetState (2 keys x {0,9}), Suicide, CreateAccount (only where the EVM creates: no nonce, no code); all operations of one run on one chosen address; quick: two operations, one snapshot; thorough: three operations, two nested snapshots, revert to either; Finalise(true)
// sv:outside longer sequences; other storage values and code bytes; SubBalance above the balance (the adapter panics, go-ethereum goes negative: the EVM never does it); CreateAccount over an account with nonce or code; Finalise(false); preimages; Copy; ForEachStorage; whole EVM messages (C17 runs seven programs through the adapter)
// sv:goal after the operations, after the revert and after Finalise every getter of the interface (Exist, Empty, GetBalance, GetNonce, GetCode, GetCodeSize, GetCodeHash, HasSuicided, GetState, GetCommittedState, access list, refund, log count) returns what the reference model of go-ethereum's StateDB returns
func SV_C16_snapshot_revert() {
	e := c16NewEnv(true)
	a := sv.Choice("addr", len(e.addrs))
	e.step("op1", a, 0)
	e.snapshot()
	e.step("op2", a, 0)
	if sv.Tier() > 0 && sv.Choice("nested", 2) == 1 {
		e.snapshot()
		e.step("op3", a, 0)
	}
	e.compare("ops", a)
	e.revert(sv.Choice("revertTo", len(e.snaps)))
	e.compare("reverted", a)
	e.finalise()
	e.compare("finalised", a)
}

// SV_C16_suicide_sequence: what an account can live through inside one
// transaction once SELFDESTRUCT is involved (its code keeps running until the
// transaction ends): four operations from {AddBalance, SubBalance, Suicide,
// CreateAccount} on one address, compared after each.
//
// sv:bounds accounts and amounts as SV_C16_snapshot_revert; quick: three operations from AddBalance / SubBalance (symbolic amounts) / Suicide / CreateAccount on one chosen address, compared after the third and after Finalise(true); thorough: four operations, compared after each from the second on, a snapshot after the second, reverted or not
// sv:outside as SV_C16_snapshot_revert
// sv:goal as SV_C16_snapshot_revert
func SV_C16_suicide_sequence() {
	e := c16NewEnv(true)
	a := sv.Choice("addr", len(e.addrs))
	e.step("s1", a, 3)
	e.step("s2", a, 3)
	if sv.Tier() > 0 {
		e.compare("2", a)
		e.snapshot()
	}
	e.step("s3", a, 3)
	e.compare("3", a)
	if sv.Tier() > 0 {
		e.step("s4", a, 3)
		e.compare("4", a)
		if sv.Choice("revert", 2) == 1 {
			e.revert(0)
			e.compare("reverted", a)
		}
	}
	e.finalise()
	e.compare("finalised", a)
}

// SV_C16_across_finalise: state carried between transactions.
//
// sv:bounds as SV_C16_snapshot_revert; quick: [op, finalise, op, finalise]; thorough: [op, op, finalise, op, finalise]; on one chosen address
// sv:outside as SV_C16_snapshot_revert
// sv:goal as SV_C16_snapshot_revert, compared after every Finalise and after the last operation
func SV_C16_across_finalise() {
	e := c16NewEnv(true)
	a := sv.Choice("addr", len(e.addrs))
	e.step("op1", a, 0)
	if sv.Tier() > 0 {
		e.step("op2", a, 0)
	}
	e.finalise()
	e.compare("finalised1", a)
	e.step("op3", a, 0)
	e.compare("3", a)
	e.finalise()
	e.compare("finalised2", a)
}

// SV_C16_globals: refund counter, logs and access list under snapshot / revert.
//
// sv:bounds operations AddRefund / SubRefund (1,2), AddLog, access-list address / slot on 2 of the addresses; [op, snapshot, op, (thorough: op,) revert or not, compare, op, compare, finalise, compare]
// sv:outside as SV_C16_snapshot_revert
// sv:goal refund, the logs (count, Index, transaction and block hash) and the access list equal the reference after the operations, after the revert and after Finalise
func SV_C16_globals() {
	e := c16NewEnv(false)
	e.step("g1", -1, 1)
	e.snapshot()
	e.step("g2", -1, 1)
	if sv.Tier() > 0 {
		e.step("g3", -1, 1)
	}
	e.compareGlobals()
	if sv.Choice("revert", 2) == 1 {
		e.revert(0)
		e.compareGlobals()
	}
	e.step("g4", -1, 1)
	e.compareGlobals()
	e.finalise()
	e.compareGlobals()
}

// SV_C16_free_sequence: any sequence of operations including snapshot, revert
// and finalise on any address (thorough tier only does the work).
//
// sv:bounds as SV_C16_snapshot_revert, every operation on any of the 4 addresses, snapshot / revert-to-any / finalise as operations; length 1 (quick) or 2 (thorough)
// sv:outside as SV_C16_snapshot_revert
// sv:goal as SV_C16_snapshot_revert, compared on all addresses at the end and after a final Finalise
func SV_C16_free_sequence() {
	e := c16NewEnv(true)
	n := 1 + sv.Tier()
	for i := 0; i < n; i++ {
		e.step(fmt.Sprint("op", i+1), -1, 2)
	}
	e.compare("end", 0, 1, 2, 3)
	e.finalise()
	e.compare("finalised", 0, 1, 2, 3)
}

// SV_C16_two_addresses: mutations of two different accounts inside one reverted
// snapshot, then another mutation of the second account (the journal's dirty
// table is indexed per address).
//
// sv:bounds as SV_C16_snapshot_revert with two different addresses (EOA + contract, or absent + natively funded): [snapshot, op on the first, op on the second, revert, AddBalance / SetNonce on the second, compare, finalise, compare]
// sv:outside as SV_C16_snapshot_revert
// sv:goal as SV_C16_snapshot_revert; additionally the adapter does not panic where the reference does not
func SV_C16_two_addresses() {
	sv.CrashIsViolation("adapter-panics-on-a-valid-sequence")
	e := c16NewEnv(true)
	pair := [][2]int{{0, 1}, {2, 3}, {1, 0}, {3, 2}}[sv.Choice("pair", 2+2*sv.Tier())]
	a, b := pair[0], pair[1]
	e.snapshot()
	e.step("op1", a, 0)
	e.step("op2", b, 0)
	e.revert(0)
	e.compare("reverted", a, b)
	switch sv.Choice("op3", 2) {
	case 0:
		x := sv.BigInt("op3.amount")
		sv.Assume(x.Sign() > 0 && x.Cmp(new(big.Int).Lsh(big.NewInt(1), 128)) < 0)
		e.sdb.AddBalance(e.addrs[b], x)
		e.ref.AddBalance(e.addrs[b], x)
	default:
		e.sdb.SetNonce(e.addrs[b], 1)
		e.ref.SetNonce(e.addrs[b], 1)
	}
	e.compare("3", a, b)
	e.finalise()
	e.compare("finalised", a, b)
}
